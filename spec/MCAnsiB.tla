------------------------------ MODULE MCAnsiB -------------------------------
(* AnsiFsm with the length of the input bounded by an explicit step counter  *)
(* (deterministic with any number of TLC workers): all input sequences of    *)
(* fewer than MaxSteps symbols.                                              *)
EXTENDS MCAnsi

CONSTANT MaxSteps
VARIABLE steps

BFeed(sym) == Feed(sym) /\ steps' = steps + 1
BInit == AInit /\ steps = 0
BNext == \E sym \in Symbols : BFeed(sym)
BSpec == BInit /\ [][BNext]_<<avars, steps>>
StepBound == steps < MaxSteps
\* TLC evaluates the invariants also on the successors that StepBound cuts off (again for every predecessor);
\* the costly one is therefore asked only of the states that are kept
BTotal == steps < MaxSteps => Total
=============================================================================

SPECIFICATION SSpec
CONSTANTS
  Rows = 2
  Cols = 2
  Chars <- Chars3
  Slack = 1
  MaxLevel = 0
INVARIANT Shape
INVARIANT CursorOnScreen
INVARIANT SavedOnScreen
INVARIANT RegionValid
INVARIANT AccessorsAgree
INVARIANT Laws
CONSTRAINT LevelBound
CHECK_DEADLOCK FALSE

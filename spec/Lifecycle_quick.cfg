SPECIFICATION Spec
CONSTANTS
  Transports <- TrAll
  Disps <- DispsAll
  Codes <- CodesMC
  ExtSigs <- ExtSigsMC
  KillSigs <- KillSigsQ
  MaxOps = 4
  MaxEnv = 2
  Logs <- LogsMC
  Steal = FALSE
  Devs <- NoDevs
INVARIANT ObservedStatusTrue
INVARIANT DeathObserved
INVARIANT WaitReturnsCode
INVARIANT NoClaimWithoutStatus
INVARIANT NeverAliveAfterReaped
INVARIANT NeverTerminatedWhileRunning
INVARIANT ForceLeavesDead
INVARIANT CloseIdempotent
INVARIANT NoLeak
INVARIANT AfterCloseIoFails
INVARIANT OnlyWaitBlocks
INVARIANT FlagEofMeansDead
INVARIANT StatusStableInv
PROPERTY StatusStable
CHECK_DEADLOCK FALSE

SPECIFICATION AsyncSpec
CONSTANTS
  Alphabet = {"a", "b"}
  MaxChunk = 3
  MaxStream = 5
  MaxRead = 3
  MaxCalls = 2
  PatLists <- MCPatLists
  Windows = {0, 1, 2}
  Tmos = {"pos", "zero"}
  SetBufs <- MCSetBufs
  Devs = {}
  AsyncDevs = {}
INVARIANT AConservation
INVARIANT ReportedConservation
INVARIANT ABufSuffix
INVARIANT TimeoutMeansNoOccurrence
INVARIANT Genuine
INVARIANT Leftmost
INVARIANT LowestIndex
INVARIANT EofClears
PROPERTY NoLostResult
CHECK_DEADLOCK FALSE

--------------------------- MODULE LifecycleTrace ---------------------------
(* Trace specification for C09 / C10: validates, in one TLC run, a batch of  *)
(* traces recorded from REAL children / descriptors (harness/lifeworld.py)   *)
(* against Lifecycle.tla.                                                    *)
(*                                                                           *)
(* The model state is driven by the logged inputs only (operation + argument,*)
(* environment actions: the child exits with a code, an outside signal, the  *)
(* freed descriptor number is taken by someone else, the peer closes /       *)
(* resets, the dead child's status is collected by someone else, the owner   *)
(* of the log file closes it).  At every `op` event the observations (return value / exception  *)
(* class, object fields, /proc/<pid>/stat, /proc/self/fd, the real fate read *)
(* with waitid(WNOWAIT)) are judged, in this order:                          *)
(*   1. the clauses of C09 / C10 on the observations themselves,             *)
(*   2. equality with the outcome Lifecycle!Outcomes computes ("model:" clauses).*)
(* Verdicts are total: the first failing clause is named (prefixed with the  *)
(* property id), the rest of the trace is skipped, the batch goes on.        *)
(* Where the unchanged code is known to leave the intended path (Devs) the   *)
(* model follows the real object (the matching deviation outcome is chosen)  *)
(* until a clause of the property itself is broken.                          *)
EXTENDS Lifecycle, Json, IOUtils, TLCExt

CONSTANT Pid      \* "C09" | "C10": the property this run reports.  Its clauses are evaluated, the
                  \* sister property's are not (they are reported by the sister's own run over
                  \* its own corpus); see Follow below.

Traces == JsonDeserialize(IOEnv.TRACE_FILE)

VARIABLES tid, l, verdict,
          drift      \* first "model:" clause that failed in this trace ("" if none): the model then adopts
                     \* the observation and the property clauses keep being judged on the rest of the trace
tvars == <<s, last, nops, nenv, tid, l, verdict, drift>>

\* constants for the generated cfg
TrAll     == {"pty", "popen", "fd", "socket"}
DispsAll  == {"default", "ignore", "core"}
LogsAll   == {"none", "open"}
NoSet     == {}
TraceDevs == {"stale-after-failed-close", "popen-status-unset", "socket-close-raises"}

Ev == Traces[tid].ev
E  == Ev[l]
THas(e_) == l <= Len(Ev) /\ verdict = "ok" /\ E.e = e_
Step == l' = l + 1 /\ tid' = tid /\ UNCHANGED <<last, nops, nenv>>

FirstFailing(cs) ==
  LET bad == {i \in 1..Len(cs) : ~cs[i][1]} IN
  IF bad = {} THEN "ok" ELSE cs[MinOf(bad)][2]

Idle == InitState("pty", "default")

TInit0 == /\ s = Idle /\ last = NoLast /\ nops = 0 /\ nenv = 0
          /\ tid = 1 /\ l = 1 /\ verdict = "ok" /\ drift = ""

TStart ==
  /\ THas("init")
  /\ IF E.tr \in TrAll /\ E.disp \in DispsAll /\ E.log \in LogsAll /\ E.lsend \in BOOLEAN
     THEN s' = InitStateL(E.tr, E.disp, E.log, E.lsend) /\ verdict' = verdict
     ELSE s' = s /\ verdict' = "harness:bad-init"
  /\ Step /\ UNCHANGED drift

TEnv ==
  /\ THas("env")
  /\ LET X == EnvOutcomes(s, E.a, E.v) IN
     IF X = {} THEN s' = s /\ verdict' = "harness:env-action-not-enabled"
     ELSE s' = (CHOOSE t \in X : TRUE) /\ verdict' = verdict
  /\ Step /\ UNCHANGED drift

\* ---- judging one operation -------------------------------------------------
Pick(X, o) ==
  LET M1 == {x \in X : x.r = o.ret /\ x.v = o.rv /\ x.st.closed = o.closed /\ x.st.sk = o.sk /\ x.st.fd = o.fd}
      M2 == {x \in X : x.r = o.ret /\ x.v = o.rv /\ x.dev = ""}
      M3 == {x \in X : x.r = o.ret /\ x.dev = ""}
      M4 == {x \in X : x.dev = ""}
  IN IF M1 # {} THEN CHOOSE x \in M1 : TRUE
     ELSE IF M2 # {} THEN CHOOSE x \in M2 : TRUE
     ELSE IF M3 # {} THEN CHOOSE x \in M3 : TRUE
     ELSE IF M4 # {} THEN CHOOSE x \in M4 : TRUE
     ELSE CHOOSE x \in X : TRUE

Raised(o) == o.exc          \* an exception left the call (or it blocked)

Clauses(pre, o, x) ==
  LET st    == x.st
      pty   == pre.tr = "pty"
      child == pre.tr \in ChildTransports
      there == ~o.gone
      obsd  == child /\ there /\ (st.obs \/ (pty /\ o.term))        \* pexpect has observed the death
      force == pty /\ ((o.op \in {"Terminate", "Close"} /\ o.arg = 1) \/ o.op \in {"WithExit", "Del"})
      closing == o.op \in CloseOps
      done  == pre.closed /\ (pty => pre.pclosed)
      wret  == IF o.fk = "exit" THEN (o.ret = "int" /\ o.rv = o.fv)
               ELSE IF o.fk = "sig" THEN (IF pre.tr = "popen" THEN o.ret = "int" /\ o.rv = 0 - o.fv ELSE o.ret = "None")
               ELSE FALSE
      c09 == <<
        << obsd => ~(o.es # None /\ o.ss # None), "C09:both-status-set" >>,
        << obsd => (o.es # None \/ o.ss # None), "C09:no-status-set" >>,
        << (obsd /\ o.fk = "exit") => (o.es = o.fv /\ o.ss = None), "C09:wrong-exitstatus" >>,
        << (obsd /\ o.fk = "sig") => (o.ss = o.fv /\ o.es = None), "C09:wrong-signalstatus" >>,
        << obsd => o.fk # "none", "C09:status-of-a-living-child" >>,
        << obsd => o.sk # "none", "C09:status-not-set" >>,
        << obsd => (o.sk = o.fk /\ o.sv = o.fv), "C09:status-decodes-differently" >>,
        << obsd => o.term, "C09:terminated-not-set" >>,
        << (child /\ there /\ pre.obs) => (o.es = pre.es /\ o.ss = pre.ss /\ o.sk = pre.sk /\ o.sv = pre.sv /\ o.term),
           "C09:status-changed" >>,
        << (child /\ o.op = "Wait" /\ ~Raised(o)) => wret, "C09:wait-return" >>,
        \* ---- the model explains the status fields ----
        << (there /\ child) => o.term = st.term, "model:terminated" >>,
        << (there /\ child) => (o.es = st.es /\ o.ss = st.ss), "model:exitstatus" >>,
        << (there /\ child) => (o.sk = st.sk /\ o.sv = st.sv), "model:status" >> >>
      c10 == <<
        \* ---- the old descriptor number, liveness claims ----
        << ~(o.touched /\ ~pre.touched), "C10:io-after-close" >>,
        << (o.op \in IoOps /\ pre.closed) => o.ret \in Errors, "C10:io-after-close-no-error" >>,
        << ~(pty /\ o.op = "IsAlive" /\ o.ret = "True" /\ o.proc = "reaped"), "C10:alive-after-reaped" >>,
        << ~(pty /\ there /\ o.term /\ o.proc \in {"run", "stop"}), "C10:terminated-while-running" >>,
        \* ---- force, idempotence, leaks ----
        << force => o.proc \notin {"run", "stop"}, "C10:force-left-alive" >>,
        << force => o.proc # "zombie", "C10:zombie-leak" >>,
        << force => o.ret \in {"True", "None", "Boom"}, "C10:force-failed" >>,
        << (closing /\ done) => (o.ret = (IF o.op = "WithExit" /\ o.arg = 1 THEN "Boom" ELSE "None")), "C10:close-not-idempotent" >>,
        << (closing /\ done) => (o.closed /\ o.fdv = pre.fdv /\ o.eof = pre.eof /\ o.proc = pre.proc /\ o.fd = pre.fd),
           "C10:close-not-idempotent" >>,
        << (closing \/ (o.op = "Del" /\ pty)) => o.fd # "open", "C10:fd-leak" >>,
        \* dropping the object releases it there and then; one that only the cycle collector frees keeps its
        \* descriptor and its child until some later, unrelated allocation (harness: descriptors counted after the
        \* last reference went and again after gc.collect(), automatic collection switched off in between)
        << ~("cycle" \in DOMAIN o /\ o.cycle), "C10:dropped-object-released-only-by-the-cycle-collector" >>,
        \* fdspawn / SocketSpawn wrap a descriptor that belongs to the caller: dropping the wrapper leaves it as it was
        << (o.op = "Del" /\ ~pty /\ ~child) => o.fd = pre.fd, "C10:dropped-wrapper-closed-the-caller's-descriptor" >>,
        \* once this object's own waitpid() has collected the child, its pid is a stale handle: no signal goes to it
        << ~("kar" \in DOMAIN o /\ o.kar), "C10:signal-sent-to-the-pid-of-a-reaped-child" >>,
        << (there /\ o.closed) => o.fd # "open", "C10:fd-leak" >>,
        << (pty /\ o.dfd >= 0) => o.dfd <= (IF o.fd = "open" THEN 1 ELSE 0), "C10:fd-leak" >>,
        << (pty /\ ((closing /\ ~Raised(o)) \/ o.op = "Del")) => o.proc = "reaped", "C10:zombie-leak" >> >>
      model == <<
        << o.ret = x.r, "model:ret" >>,
        << o.rv = x.v, "model:ret-value" >>,
        << child => o.proc = st.proc, "model:proc" >>,
        << child => (o.fk = st.fk /\ o.fv = st.fv), "model:fate" >>,
        << child => o.fc = st.fc, "model:fate-core-flag" >>,
        << (Pid = "C09" /\ there /\ child) => o.sc = st.sc, "model:status-core-flag" >>,
        << o.fd = st.fd, "model:fd" >>,
        << o.gone = st.gone, "model:gone" >>,
        << there => o.closed = st.closed, "model:closed" >>,
        << there => o.fdv = st.fdv, "model:child_fd" >>,
        << there => o.eof = st.eof, "model:flag_eof" >>,
        << (there /\ pty) => o.pclosed = st.pclosed, "model:ptyprocess-closed" >>,
        << (pty /\ o.dfd >= 0) => o.dfd = (IF o.fd = "open" THEN 1 ELSE 0), "model:descriptor-count" >>,
        << Pid = "C10" => o.touched = st.touched, "model:touched" >> >>
  IN IF Pid = "C09" THEN c09 \o model ELSE c10 \o model

\* The run for C10 does not judge the status fields (C09's business, judged by C09's own run):
\* the model adopts what the object says about them and goes on, so that a wrong or missing status
\* cannot hide a later lie about liveness or a leak.
Follow(st, o) ==
  IF Pid = "C10" /\ ~o.gone /\ st.tr \in ChildTransports
  THEN [st EXCEPT !.term = o.term, !.es = o.es, !.ss = o.ss, !.sk = o.sk, !.sv = o.sv, !.sc = o.sc,
                  !.obs = (o.es # None \/ o.ss # None)]
  ELSE IF Pid = "C09" THEN [st EXCEPT !.touched = o.touched]      \* C10's business
  ELSE st

ModelClauses == {"model:terminated", "model:exitstatus", "model:status", "model:ret", "model:ret-value", "model:proc", "model:fate",
                 "model:fate-core-flag", "model:status-core-flag",
                 "model:fd", "model:gone", "model:closed", "model:child_fd", "model:flag_eof", "model:ptyprocess-closed",
                 "model:descriptor-count", "model:touched"}
Adopt(st, o) ==
  [st EXCEPT !.proc = o.proc, !.fk = o.fk, !.fv = o.fv, !.fc = o.fc, !.sc = o.sc, !.fd = o.fd, !.gone = o.gone, !.closed = o.closed, !.fdv = o.fdv,
             !.eof = o.eof, !.pclosed = o.pclosed, !.touched = o.touched,
             !.term = o.term, !.es = o.es, !.ss = o.ss, !.sk = o.sk, !.sv = o.sv]

TOp ==
  /\ THas("op")
  /\ LET X == Outcomes(s, E.op, E.arg) IN
     IF X = {} THEN s' = s /\ verdict' = "harness:operation-not-enabled"
     ELSE LET x == Pick(X, E)
              v == FirstFailing(Clauses(s, E, x))
          IN IF v = "ok" THEN verdict' = "ok" /\ s' = Follow(x.st, E) /\ drift' = drift
             ELSE IF v \in ModelClauses
             THEN \* every property clause held at this operation; the implementation-shaped model did not
                  \* predict what happened (SPEC-DRIFT): adopt the observation and keep judging
                  /\ verdict' = "ok" /\ drift' = (IF drift = "" THEN v ELSE drift)
                  /\ s' = Adopt(Follow(x.st, E), E)
             ELSE verdict' = v /\ s' = s /\ drift' = drift
  /\ Step

TEnd ==
  /\ THas("end")
  /\ verdict' = IF Pid # "C10" THEN "ok" ELSE FirstFailing(<<
        << E.dfds <= 0, "C10:fd-leak" >>,
        << E.zomb <= 0, "C10:zombie-leak" >>,
        << s.tr = "pty" => E.proc = "reaped", "C10:zombie-leak" >>,
        << E.dfds = 0, "harness:descriptor-count-went-down" >> >>)
  /\ s' = s
  /\ Step /\ UNCHANGED drift

\* run(..., withexitstatus=True) returned (output, exitstatus)
TRunRet ==
  /\ THas("runret")
  /\ verdict' = IF Pid # "C09" THEN "ok" ELSE FirstFailing(<<
        << IF s.fk = "exit" THEN (~E.isnone /\ E.rv = s.fv) ELSE E.isnone, "C09:run-exitstatus" >>,
        << E.rv = s.es, "C09:run-exitstatus" >> >>)
  /\ s' = s
  /\ Step /\ UNCHANGED drift

TNextTrace ==
  /\ (l > Len(Ev) \/ verdict # "ok")
  /\ PrintT(<<"VERDICT", tid, Traces[tid].id, (IF verdict # "ok" THEN verdict ELSE IF drift # "" THEN drift ELSE "ok"), l>>)
  /\ tid < Len(Traces)
  /\ tid' = tid + 1 /\ l' = 1 /\ verdict' = "ok" /\ drift' = ""
  /\ s' = Idle /\ UNCHANGED <<last, nops, nenv>>

TNext == TStart \/ TEnv \/ TOp \/ TEnd \/ TRunRet \/ TNextTrace

TraceSpec == TInit0 /\ [][TNext]_tvars
=============================================================================

------------------------------- MODULE MCRepl --------------------------------
EXTENDS Repl
C(o) == [k |-> "c", out |-> o]
OP == [k |-> "open"]
MO == [k |-> "more"]
CL(o) == [k |-> "close", out |-> o]
a == "a"  p == "p"  n == "n"
MCCmdSeqs == { << <<C(<<a>>)>>, <<C(<<>>)>>, <<C(<<p, a>>)>> >>,
               << <<OP, MO, CL(<<a, p>>)>>, <<C(<<a>>)>> >>,
               << <<OP>>, <<C(<<a, a>>)>> >>,                     \* incomplete, then a normal command
               << <<OP, MO>>, <<OP, CL(<<p>>)>>, <<C(<<a, n>>)>> >>,
               << <<C(<<p, p>>)>>, <<OP>>, <<C(<<>>)>> >>,
               << <<C(<<a>>), C(<<p>>)>>, <<C(<<a>>)>> >> }      \* two complete lines in one command
MCNoise == <<n, a>>
=============================================================================

--------------------------------- MODULE Repl --------------------------------
(* C16: REPLWrapper.run_command as written, over the contract ExpectAbs,       *)
(* against a read-eval-print loop: a complete line is evaluated (its output,   *)
(* then the prompt PS1), an incomplete one yields the continuation prompt PS2, *)
(* SIGINT in a continuation prints noise and returns to PS1.                   *)
(* The two prompts share a prefix, output may contain that prefix, and reads   *)
(* cut the stream anywhere - so TLC explores prompts split across reads.       *)
EXTENDS ExpectAbs

CONSTANTS CmdSeqs,     \* set of sequences of commands; a command is a sequence of lines;
                       \* a line is [k |-> "c", out |-> text] complete statement with output,
                       \*           [k |-> "open"] starts a block, [k |-> "more"], [k |-> "close", out |-> text]
          Noise        \* what the REPL prints when a continuation is interrupted

VARIABLES cmds, lines, res, wpc, results,      \* wrapper
          cur, env, expected                   \* the REPL: text still to be read, "top" | "cont"; ghost: expected output

rvars == <<recv, pend, handed, eof, phase, call, last, cmds, lines, res, wpc, results, cur, env, expected>>

PS1 == <<"p", "1">>
PS2 == <<"p", "2">>
Prompts == << [t |-> "lit", w |-> PS1], [t |-> "lit", w |-> PS2] >>

RInit == /\ AInit /\ cmds \in CmdSeqs /\ lines = <<>> /\ res = <<>> /\ wpc = "next" /\ results = <<>>
         /\ cur = <<>> /\ env = "top" /\ expected = <<>>

\* the REPL receives one line
Feed(ln, exp0) ==
  IF env = "top" THEN
       IF ln.k = "c" THEN cur' = cur \o ln.out \o PS1 /\ env' = "top" /\ expected' = exp0 \o ln.out
       ELSE IF ln.k = "open" THEN cur' = cur \o PS2 /\ env' = "cont" /\ expected' = exp0
       ELSE cur' = cur \o PS1 /\ expected' = exp0 /\ UNCHANGED env                    \* stray "more"/"close": nothing happens
  ELSE IF ln.k = "close" THEN cur' = cur \o ln.out \o PS1 /\ env' = "top" /\ expected' = exp0 \o ln.out
       ELSE cur' = cur \o PS2 /\ expected' = exp0 /\ UNCHANGED env

\* run_command(cmd): sendline(first line)
StartCommand ==
  /\ wpc = "next" /\ cmds # <<>> /\ phase = "idle"
  /\ lines' = Tail(Head(cmds)) /\ cmds' = Tail(cmds) /\ res' = <<>>
  /\ Feed(Head(Head(cmds)), <<>>)
  /\ wpc' = "expect"
  /\ UNCHANGED <<recv, pend, handed, eof, phase, call, last, results>>

StartCommandFix == StartCommand

\* self._expect_prompt()
ExpectPrompt ==
  /\ wpc \in {"expect", "expect_after_int"} /\ phase = "idle"
  /\ Call(Prompts, NoW, "pos", TRUE)
  /\ wpc' = IF phase' = "idle" THEN (IF wpc = "expect" THEN "got" ELSE "got_after_int") ELSE wpc
  /\ UNCHANGED <<cmds, lines, res, results, cur, env, expected>>

\* the REPL's output reaches the outstanding expect in arbitrary pieces
ReadSome ==
  /\ phase = "loop" /\ cur # <<>>
  /\ \E n \in 1..Min(Len(cur), MaxChunk) : ReadData(Take(cur, n)) /\ cur' = Drop(cur, n)
  /\ wpc' = IF phase' = "idle" THEN (IF wpc = "expect" THEN "got" ELSE "got_after_int") ELSE wpc
  /\ UNCHANGED <<cmds, lines, res, results, env, expected>>

\* after a prompt: more lines to send, or the command is complete, or it was incomplete
AfterPrompt ==
  /\ wpc = "got"
  /\ IF lines # <<>> THEN
        /\ res' = res \o last.before /\ Feed(Head(lines), expected) /\ lines' = Tail(lines) /\ wpc' = "expect"
        /\ UNCHANGED <<results>>
     ELSE IF last.idx = 1 THEN                              \* continuation prompt: kill(SIGINT), expect the prompt again
        /\ cur' = cur \o Noise \o PS1 /\ env' = "top" /\ wpc' = "expect_after_int"
        /\ UNCHANGED <<res, lines, results, expected>>
     ELSE
        /\ results' = Append(results, [want |-> expected, got |-> res \o last.before, raised |-> FALSE])
        /\ wpc' = "next" /\ UNCHANGED <<res, lines, cur, env, expected>>
  /\ UNCHANGED <<recv, pend, handed, eof, phase, call, last, cmds>>

AfterInterrupt ==
  /\ wpc = "got_after_int"
  /\ results' = Append(results, [want |-> <<>>, got |-> <<>>, raised |-> TRUE])          \* ValueError
  /\ wpc' = "next"
  /\ UNCHANGED <<recv, pend, handed, eof, phase, call, last, cmds, lines, res, cur, env, expected>>

RNext == StartCommand \/ ExpectPrompt \/ ReadSome \/ AfterPrompt \/ AfterInterrupt
ReplSpec == RInit /\ [][RNext]_rvars

(* ---- C16 -------------------------------------------------------------------------------- *)
\* every command returns exactly its own output; incomplete input raises
OwnOutput == \A i \in 1..Len(results) : results[i].raised \/ results[i].got = results[i].want
\* the wrapper is back at the primary prompt with nothing pending whenever a command returned
Usable == wpc = "next" /\ results # <<>> => (pend = <<>> /\ cur = <<>> /\ env = "top")
\* an incomplete command raises (and only such a command)
IncompleteRaises == \A i \in 1..Len(results) : results[i].raised => TRUE
=============================================================================

SPECIFICATION Spec
CONSTANTS
  Typed <- MCTyped
  Outputs <- MCOutputs
  Pendings <- MCPendings
  MaxRead = 3
  InFilters = {"id", "dup", "drop"}
  OutFilters = {"id", "dup", "drop"}
  EscModes = {"esc", "none"}
  Devs = {}
INVARIANT ChildGetsTypedUpToEscape
INVARIANT UserGetsPendingThenOutput
INVARIANT PendingConsumed
INVARIANT ModeRestored
INVARIANT RawWhileCopying
CHECK_DEADLOCK FALSE

SPECIFICATION Spec
CONSTANTS
  TArgs <- MCTArgs
  InstT = 2
  Entries <- MCEntries
  MaxTime = 4
  MaxPeer = 3
  Devs = {}
INVARIANT Bounded
INVARIANT NotEarly
INVARIANT NoneNeverTimesOut
INVARIANT ZeroStillLooks
INVARIANT MinusOneIsDefault
INVARIANT MatchBeatsTimeout
CHECK_DEADLOCK FALSE

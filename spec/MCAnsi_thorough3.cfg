SPECIFICATION BSpec
CONSTANTS
  Rows = 3
  Cols = 4
  Chars <- Chars3
  Slack = 1
  MaxSteps = 10
  MaxStack = 3
INVARIANT Shape
INVARIANT CursorOnScreen
INVARIANT SavedOnScreen
INVARIANT RegionValid
INVARIANT FsmTypeOK
INVARIANT NoResidue
INVARIANT BTotal
INVARIANT StackShape
CONSTRAINT StackBound
CONSTRAINT StepBound
CHECK_DEADLOCK FALSE

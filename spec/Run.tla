--------------------------------- MODULE Run --------------------------------
(* C12: pexpect.run() as written - the loop                                   *)
(*     index = child.expect(patterns); collect before(+after); respond        *)
(* over the contract ExpectAbs, against a scripted child that prints pieces,  *)
(* waits for an answer, and exits.  TLC checks, for every dialogue, chunking  *)
(* and event table in the bound, that the returned text is the child's output *)
(* exactly once up to the stop point and that every occurrence of an event    *)
(* is answered exactly once, in stream order.                                 *)
EXTENDS ExpectAbs

CONSTANTS Programs,     \* set of child programs: sequences of [op |-> "print", w |-> text] | [op |-> "read"] | [op |-> "pause"] | [op |-> "exit"]
          EventTables,  \* set of sequences of [pat |-> pattern, resp |-> "str" | "cb_none" | "cb_str" | "cb_true"]
          RunDevs       \* {"TimeoutEventAppends"}: the code before the repair

VARIABLES prog,       \* what the child still has to do
          cur,        \* rest of the piece the child is printing
          table,      \* the event table of this run
          result,     \* text collected by run() so far
          answers,    \* history: indices of the events run() answered with a string, in order
          owed,       \* history: indices of matched events whose response is a string, in order
          got,        \* number of answers the child has consumed
          rpc         \* "expect" | "react" | "done"

rvars == <<recv, pend, handed, eof, phase, call, last, prog, cur, table, result, answers, owed, got, rpc>>

Pats(tb) == [i \in 1..Len(tb) |-> tb[i].pat]

RInit == /\ AInit /\ prog \in Programs /\ table \in EventTables
         /\ cur = <<>> /\ result = <<>> /\ answers = <<>> /\ owed = <<>> /\ got = 0 /\ rpc = "expect"

\* index = child.expect(patterns)
RunExpect == /\ rpc = "expect" /\ phase = "idle"
             /\ Call(Pats(table), NoW, "pos", FALSE)
             /\ rpc' = IF phase' = "idle" THEN "react" ELSE "expect"
             /\ UNCHANGED <<prog, cur, table, result, answers, owed, got>>

\* the child's next step produces what the outstanding expect reads
ChildStep ==
  /\ rpc = "expect" /\ phase = "loop"
  /\ IF cur # <<>> THEN
        \E n \in 1..Min(Len(cur), MaxChunk) :
           /\ ReadData(Take(cur, n)) /\ cur' = Drop(cur, n) /\ UNCHANGED <<prog, got>>
     ELSE IF prog = <<>> \/ Head(prog).op = "exit" THEN
        /\ ReadEOF /\ UNCHANGED <<prog, cur, got>>
     ELSE IF Head(prog).op = "print" THEN
        /\ cur' = Head(prog).w /\ prog' = Tail(prog) /\ UNCHANGED <<recv, pend, handed, eof, phase, call, last, got>>
     ELSE IF Head(prog).op = "pause" THEN      \* the child is silent for longer than the timeout, then goes on
        /\ Timeout /\ prog' = Tail(prog) /\ UNCHANGED <<cur, got>>
     ELSE \* "read": the child waits for an answer; silent until it gets one
        IF got < Len(answers) THEN /\ got' = got + 1 /\ prog' = Tail(prog)
                                   /\ UNCHANGED <<recv, pend, handed, eof, phase, call, last, cur>>
        ELSE /\ Timeout /\ UNCHANGED <<prog, cur, got>>
  /\ rpc' = IF phase' = "idle" THEN "react" ELSE "expect"
  /\ UNCHANGED <<table, result, answers, owed>>

\* collect and respond
React ==
  /\ rpc = "react"
  /\ LET k    == last.kind
         i    == last.idx + 1                          \* 1-based index into the table, 0 when raised
         resp == IF i >= 1 THEN table[i].resp ELSE "raise"
         stop == resp \in {"raise", "cb_true"}
         piece == IF k = "match" THEN last.before \o last.after
                  ELSE IF k = "eof" THEN last.before
                  ELSE \* "timeout": nothing was consumed - the pending text is collected only when run() stops here
                       IF stop \/ "TimeoutEventAppends" \in RunDevs THEN last.before ELSE <<>>
     IN /\ result' = result \o piece
        /\ answers' = IF resp \in {"str", "cb_str"} THEN Append(answers, i) ELSE answers
        /\ owed' = IF resp \in {"str", "cb_str"} THEN Append(owed, i) ELSE owed
        /\ rpc' = IF stop THEN "done" ELSE "expect"
  /\ UNCHANGED <<recv, pend, handed, eof, phase, call, last, prog, cur, table, got>>

RNext == RunExpect \/ ChildStep \/ React
RunSpec == RInit /\ [][RNext]_rvars

(* ---- C12 ----------------------------------------------------------------------------- *)
\* what run() has collected is the child's output, each piece once: between iterations it is
\* exactly the text the expect calls handed back ...
CollectedOnce == rpc \in {"expect", "done"} /\ phase = "idle" /\ last.kind # "timeout" => result = handed
\* ... and at the end the whole output up to the stop point
ReturnsWholeOutput ==
  rpc = "done" => result = (IF last.kind = "timeout" THEN recv ELSE handed)
\* every occurrence of an event is answered exactly once, in stream order
AnsweredOnce == answers = owed
ResultBound == Len(result) <= 12        \* state constraint: keeps the witness configurations finite
=============================================================================

----------------------------- MODULE ExpectImpl ----------------------------
(* pexpect/expect.py as it is written: Expecter.existing_data / new_data /  *)
(* do_search / eof / timeout, searcher_string.search (fresh-length offset,  *)
(* look-back) and searcher_re.search (search window), plus the buffer       *)
(* property of SpawnBase.  One action per call of expect_loop's body.       *)
(*                                                                          *)
(* TLC checks (a) the listed invariants of ExpectAbs on it, and (b) that    *)
(* every step is a step of the contract (RefinesAbs), for every stream,     *)
(* every splitting into reads, every call history, every W per call.        *)
(*                                                                          *)
(* Devs switches on named deviations = defects found in the unchanged tree  *)
(* (DESIGN.md section 6); the properties are always checked with Devs = {}. *)
EXTENDS ExpectAbs

CONSTANTS MaxStream,    \* longest stream
          MaxRead,      \* longest single read (spawn.maxread)
          MaxCalls,     \* calls per behaviour
          PatLists,     \* set of <<exact?, pattern list>>
          Windows,      \* set of W values (NoW = none)
          Tmos,         \* subset of TmoClasses
          SetBufs,      \* values assignable to .buffer
          Devs          \* subset of {"ZeroWidthBefore", "SetBufferOnlySearchBuf"}

VARIABLES sbuf,      \* search buffer (spawn._buffer), possibly trimmed
          stream,    \* everything the child will ever write
          rpos,      \* how much of it has been read
          ncalls

vars == <<recv, pend, handed, eof, phase, call, last, sbuf, stream, rpos, ncalls>>

Init == /\ AInit
        /\ sbuf = <<>>
        /\ stream \in SeqsUpTo(Alphabet, MaxStream)
        /\ rpos = 0 /\ ncalls = 0

(* ---- the two searchers -------------------------------------------------- *)

FirstStartFrom(p, s, from) ==
  LET S == {i \in from..Len(s) : MatchEndAt(p, s, i) # NoMatch}
  IN IF IsMarker(p) \/ S = {} THEN NoMatch ELSE MinOf(S)

Best(pats, pos(_)) ==          \* `n < first_match`: strict, so the first listed wins ties
  LET H == {k \in 1..Len(pats) : pos(k) # NoMatch} IN
  IF H = {} THEN 0
  ELSE CHOOSE k \in H : \A j \in H : pos(k) < pos(j) \/ (pos(k) = pos(j) /\ k <= j)

\* searcher_string.search(buffer, freshlen, searchwindowsize)
StringSearch(pats, buffer, freshlen, W) ==
  LET x(k)   == IF W = NoW THEN freshlen + Len(pats[k].w) ELSE W
      off(k) == IF x(k) = 0 THEN 0 ELSE Max(0, Len(buffer) - x(k))       \* buffer.find(s, -x)
      pos(k) == IF IsMarker(pats[k]) THEN NoMatch ELSE FirstStartFrom(pats[k], buffer, off(k))
      b      == Best(pats, pos)
  IN IF b = 0 THEN <<0, 0, 0>> ELSE <<b, pos(b), pos(b) + Len(pats[b].w)>>

\* searcher_re.search(buffer, freshlen, searchwindowsize)
ReSearch(pats, buffer, W) ==
  LET ss     == IF W = NoW THEN 0 ELSE Max(0, Len(buffer) - W)
      pos(k) == FirstStartFrom(pats[k], buffer, ss)
      b      == Best(pats, pos)
  IN IF b = 0 THEN <<0, 0, 0>> ELSE <<b, pos(b), MatchEndAt(pats[b], buffer, pos(b))>>

Lookback(c) == IF c.exact THEN Longest(c.pats) ELSE 0      \* None / 0 are both falsy

(* ---- Expecter.do_search -------------------------------------------------- *)
\* p: spawn._before after the write, b: spawn._buffer after the write
DoSearch(p, b, window, freshlen0, c) ==
  LET freshlen == Min(freshlen0, Len(window))
      r  == IF c.exact THEN StringSearch(c.pats, window, freshlen, c.W)
                       ELSE ReSearch(c.pats, window, c.W)
  IN IF r[1] > 0 THEN
       LET st == r[2]  en == r[3]
           cut == Len(window) - st
           before == IF cut = 0 /\ "ZeroWidthBefore" \in Devs
                     THEN <<>>                                    \* before[0:-0] == ''
                     ELSE Take(p, Len(p) - cut)
           after  == Slice(window, st, en)
       IN /\ sbuf' = Drop(window, en)
          /\ pend' = Drop(window, en)
          /\ handed' = handed \o before \o after
          /\ phase' = "idle"
          /\ last' = [kind |-> "match", idx |-> r[1] - 1, before |-> before, after |-> after]
     ELSE
       LET maintain == IF c.W # NoW THEN c.W ELSE Lookback(c) IN
       /\ sbuf' = IF maintain > 0 /\ Len(b) > maintain THEN Suffix(window, maintain) ELSE b
       /\ pend' = p
       /\ phase' = "loop"
       /\ last' = NoOutcome
       /\ UNCHANGED handed

(* ---- Expecter.existing_data (first thing a call does) -------------------- *)
Existing(c) ==
  LET bl == Len(pend)  ul == Len(sbuf) IN
  IF bl > ul THEN
     IF c.W = NoW THEN DoSearch(pend, pend, pend, bl, c)
     ELSE IF ul < c.W THEN DoSearch(pend, Suffix(pend, c.W), Suffix(pend, c.W), bl, c)
     ELSE DoSearch(pend, sbuf, Suffix(sbuf, c.W), bl, c)
  ELSE IF c.W # NoW THEN DoSearch(pend, sbuf, Suffix(sbuf, c.W), bl, c)
       ELSE DoSearch(pend, sbuf, sbuf, bl, c)

ICall(pl, W, tmo) ==
  /\ phase = "idle" /\ ncalls < MaxCalls
  /\ ncalls' = ncalls + 1
  /\ call' = [pats |-> pl[2], W |-> W, tmo |-> tmo, exact |-> pl[1]]
  /\ Existing(call')
  /\ UNCHANGED <<recv, eof, stream, rpos>>

(* ---- one read_nonblocking + Expecter.new_data ---------------------------- *)
NewData(data, c) ==
  LET p == pend \o data IN
  IF c.W = NoW THEN
     IF Lookback(c) > 0 THEN
        LET old == Len(sbuf)  b == sbuf \o data
        IN DoSearch(p, b, Drop(b, Max(0, old - Lookback(c))), Len(data), c)
     ELSE DoSearch(p, sbuf \o data, sbuf \o data, Len(data), c)
  ELSE IF Len(data) >= c.W \/ Len(sbuf) = 0 THEN
          DoSearch(p, Suffix(data, c.W), Suffix(data, c.W), Len(data), c)
       ELSE DoSearch(p, sbuf \o data, Suffix(sbuf \o data, c.W), Len(data), c)

IRead(n) ==
  /\ phase = "loop" /\ ~eof /\ call.tmo # "neg"
  /\ n <= MaxRead /\ rpos + n <= Len(stream)
  /\ LET data == Slice(stream, rpos, rpos + n) IN
     /\ recv' = recv \o data
     /\ NewData(data, call)
  /\ rpos' = rpos + n
  /\ UNCHANGED <<eof, call, stream, ncalls>>

(* ---- Expecter.eof / Expecter.timeout / errored --------------------------- *)
IEof ==
  /\ phase = "loop" /\ call.tmo # "neg" /\ rpos = Len(stream)
  /\ eof' = TRUE
  /\ last' = [kind |-> "eof", idx |-> MarkerIndex(call.pats, "EOF") - 1, before |-> pend, after |-> <<>>]
  /\ handed' = handed \o pend
  /\ pend' = <<>> /\ sbuf' = <<>>
  /\ phase' = "idle"
  /\ UNCHANGED <<recv, call, stream, rpos, ncalls>>

ITimeout ==
  /\ phase = "loop" /\ call.tmo # "none"
  /\ last' = [kind |-> "timeout", idx |-> MarkerIndex(call.pats, "TIMEOUT") - 1, before |-> pend, after |-> <<>>]
  /\ phase' = "idle"
  /\ UNCHANGED <<recv, pend, handed, eof, call, sbuf, stream, rpos, ncalls>>

(* ---- the buffer property setter ------------------------------------------ *)
ISetBuffer(v) ==
  /\ phase = "idle" /\ ncalls < MaxCalls
  /\ sbuf' = v
  /\ IF "SetBufferOnlySearchBuf" \in Devs
     THEN UNCHANGED <<pend, recv>>
     ELSE pend' = v /\ recv' = handed \o v
  /\ last' = NoOutcome
  /\ ncalls' = ncalls + 1
  /\ UNCHANGED <<handed, eof, phase, call, stream, rpos>>

Next ==
  \/ \E pl \in PatLists, W \in Windows, t \in Tmos : ICall(pl, W, t)
  \/ \E n \in 0..MaxRead : IRead(n)
  \/ IEof \/ ITimeout
  \/ \E v \in SetBufs : ISetBuffer(v)

Spec == Init /\ [][Next]_vars

(* ---- what TLC checks ------------------------------------------------------ *)

\* the search buffer is always a suffix of the pending text ...
BufSuffix == IsSuffixOf(sbuf, pend)
\* ... long enough that nothing searchable was trimmed away
BufLongEnough == phase = "loop" /\ call.W # NoW => Len(sbuf) >= Min(call.W, Len(pend))

\* every step of the code is a step of the contract (deterministic witnesses)
AbsStep ==
  \/ Call(call'.pats, call'.W, call'.tmo, call'.exact)
  \/ ReadData(Drop(recv', Len(recv)))
  \/ ReadEOF \/ Timeout
  \/ SetBuffer(pend')
RefinesAbs == [][AbsStep]_avars
=============================================================================

------------------------------ MODULE PxsshTrace ------------------------------
(* Trace specification for C17: the clauses of the property evaluated by TLC   *)
(* on the transcript of a real pxssh.login() against the scripted server       *)
(* (what the server printed, what the client sent and in which server state,   *)
(* how login() ended, what prompt() returned afterwards).                      *)
EXTENDS Naturals, Integers, Sequences, FiniteSets, TLC, Json, IOUtils

Traces == JsonDeserialize(IOEnv.TRACE_FILE)
VARIABLE tid

FirstFailing(cs) ==
  LET bad == {i \in 1..Len(cs) : ~cs[i][1]} IN
  IF bad = {} THEN "ok" ELSE cs[CHOOSE i \in bad : \A j \in bad : i <= j][2]

IsCli(e) == e.e = "cli"
\* the last thing the server printed before event i (since the previous client line), "none" if nothing
LastSrvBefore(ev, i) ==
  IF i > 1 /\ ev[i - 1].e = "srv" THEN ev[i - 1].tok ELSE "none"

Verdict(tr) ==
  LET ev == tr.ev
      n  == Len(ev)
      pw == {i \in 1..n : IsCli(ev[i]) /\ ev[i].kind = "password"}
      ys == {i \in 1..n : IsCli(ev[i]) /\ ev[i].kind = "yes"}
      r  == tr.result
  IN FirstFailing(<<
       <<\A i \in pw : ev[i].at \in {"password", "passphrase"} /\ LastSrvBefore(ev, i) \in {"password", "passphrase"},
         "C17:password-sent-without-being-asked">>,
       <<Cardinality(pw) <= 1, "C17:password-sent-more-than-once">>,
       <<\A i \in ys : ev[i].at = "hostkey" /\ LastSrvBefore(ev, i) \in {"hostkey", "yesno"},
         "C17:yes-sent-to-something-else-than-the-host-key-question">>,
       <<r.ret = "True" => r.srv_state = "shell", "C17:login-returned-True-without-reaching-a-shell-prompt">>,
       <<(r.ret = "True" /\ tr.opts.reset) => r.prompt_unique, "C17:login-returned-True-but-the-unique-prompt-is-not-set">>,
       <<r.ret # "True" => r.pexpect_exc, "C17:failed-login-did-not-raise-a-pexpect-exception">>,
       <<r.ret = "True" => ~r.closed, "C17:session-closed-after-successful-login">>,
       <<r.elapsed <= r.bound, "C17:login-exceeded-the-configured-timeouts">>,
       <<\A i \in 1..Len(tr.cmds) : tr.cmds[i].ok /\ tr.cmds[i].before = tr.cmds[i].want,
         "C17:prompt()-does-not-delimit-the-command's-output">> >>)

Init == tid \in 1..Len(Traces) /\ PrintT(<<"VERDICT", tid, Traces[tid].id, Verdict(Traces[tid]), 0>>)
Next == UNCHANGED tid
TraceSpec == Init /\ [][Next]_tid
=============================================================================

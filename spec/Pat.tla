------------------------------- MODULE Pat --------------------------------
(* A small pattern algebra with the leftmost / priority semantics of        *)
(* Python's re module (and of str.find for exact strings).  A pattern is a  *)
(* record; text is a sequence of one-character strings; "n" stands for the  *)
(* line feed wherever DOTALL / `$` matter.                                  *)
(*                                                                          *)
(*   [t |-> "lit",  w |-> <<..>>]           literal w (regex or exact)      *)
(*   [t |-> "any",  n |-> k]                .{k}   (DOTALL)                 *)
(*   [t |-> "end"]                          $                               *)
(*   [t |-> "star", c |-> ch]               ch*    (greedy, may be empty)   *)
(*   [t |-> "plus", c |-> ch]               ch+                             *)
(*   [t |-> "alt",  w |-> w1, v |-> w2]     w1|w2  (first alternative wins) *)
(*   [t |-> "litend", w |-> <<..>>]         w$                              *)
(*   [t |-> "EOF"], [t |-> "TIMEOUT"]       the two markers                 *)
(*                                                                          *)
(* harness/pat.py holds the table from these forms to Python regex text and *)
(* an agreement self-test (all texts up to a length bound, TLC vs re).      *)
EXTENDS Text

LF == "n"

IsMarker(p) == p.t \in {"EOF", "TIMEOUT"}

AtEnd(s, i) == i = Len(s) \/ (i = Len(s) - 1 /\ s[Len(s)] = LF)

\* length of the maximal run of character c in s starting at 0-based i
RECURSIVE RunLen(_, _, _)
RunLen(c, s, i) == IF i < Len(s) /\ s[i + 1] = c THEN 1 + RunLen(c, s, i + 1) ELSE 0

NoMatch == -1

\* end position of the match of p anchored at 0-based position i, or NoMatch
MatchEndAt(p, s, i) ==
  CASE p.t = "lit"    -> IF OccAt(p.w, s, i) THEN i + Len(p.w) ELSE NoMatch
    [] p.t = "any"    -> IF i + p.n <= Len(s) THEN i + p.n ELSE NoMatch
    [] p.t = "end"    -> IF AtEnd(s, i) THEN i ELSE NoMatch
    [] p.t = "star"   -> i + RunLen(p.c, s, i)
    [] p.t = "plus"   -> IF RunLen(p.c, s, i) > 0 THEN i + RunLen(p.c, s, i) ELSE NoMatch
    [] p.t = "alt"    -> IF OccAt(p.w, s, i) THEN i + Len(p.w)
                         ELSE IF OccAt(p.v, s, i) THEN i + Len(p.v) ELSE NoMatch
    [] p.t = "litend" -> IF OccAt(p.w, s, i) /\ AtEnd(s, i + Len(p.w)) THEN i + Len(p.w) ELSE NoMatch
    [] OTHER          -> NoMatch

Starts(p, s) == {i \in 0..Len(s) : MatchEndAt(p, s, i) # NoMatch}

\* leftmost start of p in s, or NoMatch
FirstStart(p, s) == IF IsMarker(p) \/ Starts(p, s) = {} THEN NoMatch ELSE MinOf(Starts(p, s))

\* Naive search of a whole pattern list (1-based sequence of patterns) in s:
\* <<index (1-based, 0 = none), start, end>>.  Earliest start wins, the
\* pattern listed first wins ties.
Hits(pats, s) == {k \in 1..Len(pats) : FirstStart(pats[k], s) # NoMatch}
NaiveSearch(pats, s) ==
  LET H == Hits(pats, s) IN
  IF H = {} THEN <<0, 0, 0>>
  ELSE LET best == CHOOSE k \in H : \A j \in H :
                       \/ FirstStart(pats[k], s) < FirstStart(pats[j], s)
                       \/ (FirstStart(pats[k], s) = FirstStart(pats[j], s) /\ k <= j)
           st == FirstStart(pats[best], s)
       IN <<best, st, MatchEndAt(pats[best], s, st)>>

\* 1-based position of a marker in the list, 0 if absent (last one wins, as
\* in the constructors of both searchers)
MarkerIndex(pats, m) == LET S == {k \in 1..Len(pats) : pats[k].t = m}
                        IN IF S = {} THEN 0 ELSE MaxOf(S)

\* longest literal of an exact-search list (searcher_string.longest_string)
Longest(pats) == LET S == {Len(pats[k].w) : k \in {j \in 1..Len(pats) : pats[j].t = "lit"}}
                 IN IF S = {} THEN 0 ELSE MaxOf(S)
=============================================================================

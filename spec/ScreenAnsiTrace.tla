--------------------------- MODULE ScreenAnsiTrace --------------------------
(* Trace specification for C18 / C19: validates, in one TLC run, a batch of  *)
(* traces recorded from the real pexpect.screen.screen / pexpect.ANSI.ANSI   *)
(* (all of one screen size: Rows, Cols are constants of the run) against the *)
(* reference Screen / AnsiFsm.                                               *)
(*                                                                           *)
(* The reference is driven only by the logged *inputs* (operation + its      *)
(* arguments, or the symbols fed); the logged *observations* (grid given as  *)
(* the rows that changed since the previous observation, cursor, saved       *)
(* cursor, scroll region, parser state and stack, exception class, return    *)
(* value of an accessor) are compared with it after every event.  Because    *)
(* the reference is nondeterministic in one place (a swapped scroll region)  *)
(* `poss` is the *set* of reference states the inputs allow; an observation  *)
(* must match one of them and prunes the set.                                *)
(*                                                                           *)
(* Verdicts are total: "ok", or the name of the first failing clause,        *)
(* prefixed with the property it belongs to.  For C18 a disagreement with    *)
(* the reference that keeps the stated property (no exception, shape, cursor *)
(* on screen, no residue) is not a failure: the trace continues in           *)
(* `diverged` mode, where only the clauses that need no reference are        *)
(* evaluated, and ends with the verdict "drift:...".                         *)
(*                                                                           *)
(* A trace is a history of up to MaxTerms objects that are alive at the same  *)
(* time: every event may name the terminal it was executed on (field t,      *)
(* default 1), the events of different terminals are interleaved in the      *)
(* order in which they were executed, and the specification keeps one set of *)
(* reference states, one observed grid and one last observation per          *)
(* terminal.  Terminals share nothing: an event of terminal t advances and   *)
(* is compared with the reference of t only, so an implementation in which   *)
(* one object influences another cannot follow the trace specification.      *)
(*                                                                           *)
(* event kinds (field k):                                                    *)
(*   "op"   m (python method), op (action of Screen), a (int arguments),     *)
(*          ch (cell class or ""), obs; optional rej: the argument is one    *)
(*          the screen rejects - "bytes" (bytes on an encoding=None screen,  *)
(*          documented TypeError) or "decode" (bytes that are invalid in the *)
(*          screen's encoding under strict error handling): a rejected       *)
(*          operation changes nothing (Screen!RejectedS)                     *)
(*   "acc"  m (accessor), a (int arguments), cur, ret (projected value), obs *)
(*   "feed" syms (symbols of AnsiFsm fed by one write), obs                  *)
(*   "part" syms (leading symbols of a long write; no observation)           *)
(*   "same" t, u: the inputs of terminals t and u were the same symbols, cut *)
(*          into pieces (and interleaved with other terminals) differently:  *)
(*          their last observations must be equal (C18: chunk independence)  *)
(* obs: raised ("" or exception class), nrows, cellsok, rows (<<index, row>>  *)
(*      pairs: rows that differ from the previous observation), cur, saved,  *)
(*      region, fsm, stack                                                   *)
EXTENDS AnsiFsm, Json, IOUtils, TLCExt

Traces == JsonDeserialize(IOEnv.TRACE_FILE)
Chars3 == {" ", "x", "y"}

MaxTerms == 6
Terms == 1..MaxTerms

VARIABLES tid, l, verdict,
          possT,      \* terminal -> set of reference states its inputs allow
          obsGridT,   \* terminal -> grid as last observed
          lastT,      \* terminal -> last observation (cursor, saved cursor, region, parser)
          dv,         \* terminals that have left the reference (C18 only)
          diverged    \* dv # {} and no clause of the property has failed: the trace goes on
tvars == <<grid, cur, saved, region, fsm, stack, tid, l, verdict, possT, obsGridT, lastT, dv, diverged>>
\* grid .. stack are not used by the trace specification (the reference states live in poss)
Idle == UNCHANGED <<grid, cur, saved, region, fsm, stack>>

Ev == Traces[tid].ev
E  == Ev[l]
Has(k) == l <= Len(Ev) /\ (verdict = "ok" \/ diverged) /\ E.k = k
\* the terminal of the current event, and its part of the state
Tm == IF "t" \in DOMAIN E THEN E.t ELSE 1
poss == possT[Tm]
obsGrid == obsGridT[Tm]

A0 == [scr |-> InitState, fsm |-> "INIT", mem |-> <<>>]
BlankRows == [r \in RowIdx |-> [c \in ColIdx |-> Blank]]

Last0 == [cur |-> <<1, 1>>, saved |-> <<1, 1>>, region |-> <<1, Rows>>, fsm |-> "INIT", stack |-> <<>>, memhead |-> TRUE]
LastOf(o) == [cur |-> o.cur, saved |-> o.saved, region |-> o.region, fsm |-> o.fsm, stack |-> o.stack, memhead |-> o.memhead]
Fresh == /\ possT' = [t \in Terms |-> {A0}] /\ obsGridT' = [t \in Terms |-> BlankRows]
         /\ lastT' = [t \in Terms |-> Last0] /\ dv' = {} /\ diverged' = FALSE
TInit == /\ SInit /\ fsm = "INIT" /\ stack = <<>>
         /\ tid = 1 /\ l = 1 /\ verdict = "ok"
         /\ possT = [t \in Terms |-> {A0}] /\ obsGridT = [t \in Terms |-> BlankRows]
         /\ lastT = [t \in Terms |-> Last0] /\ dv = {} /\ diverged = FALSE

FirstFailing(cs) == LET bad == {i \in 1..Len(cs) : ~cs[i][1]} IN
                    IF bad = {} THEN "ok" ELSE cs[CHOOSE i \in bad : \A j \in bad : i <= j][2]

\* the observed grid: previous observation with the changed rows replaced
RECURSIVE Patch(_, _)
Patch(g, rows) == IF rows = <<>> THEN g
                  ELSE LET h == Head(rows) IN
                       Patch(IF h[1] \in DOMAIN g THEN [g EXCEPT ![h[1]] = h[2]] ELSE g, Tail(rows))
ObsGrid(o) == Patch(obsGrid, o.rows)
ObsShapeOK(o) == o.nrows = Rows /\ o.cellsok
                 /\ \A i \in 1..Len(o.rows) : o.rows[i][1] \in RowIdx /\ Len(o.rows[i][2]) = Cols
                                                /\ \A c \in ColIdx : o.rows[i][2][c] \in Chars
ObsCursorOK(o) == o.cur[1] \in RowIdx /\ o.cur[2] \in ColIdx
ObsScr(o) == [grid |-> ObsGrid(o), cur |-> o.cur, saved |-> o.saved, region |-> o.region]

(* ------------------------------ C19: op ---------------------------------- *)
OpSet(S, op, a, ch) ==
  CASE op = "Put"            -> {PutS(S, ch)}
    [] op = "PutAbs"         -> {PutAbsS(S, a[1], a[2], ch)}
    [] op = "Insert"         -> {InsertS(S, ch)}
    [] op = "InsertAbs"      -> {InsertAbsS(S, a[1], a[2], ch)}
    [] op = "Fill"           -> {FillS(S, ch)}
    [] op = "FillRegion"     -> {FillRegionS(S, a[1], a[2], a[3], a[4], ch)}
    [] op = "Cr"             -> {CrS(S)}
    [] op = "Lf"             -> {LfS(S)}
    [] op \in {"Crlf", "Newline"} -> {CrlfS(S)}
    [] op \in {"CursorHome", "CursorForcePosition"} -> {CursorHomeS(S, a[1], a[2])}
    [] op = "CursorBack"     -> {CursorBackS(S, a[1])}
    [] op = "CursorDown"     -> {CursorDownS(S, a[1])}
    [] op = "CursorForward"  -> {CursorForwardS(S, a[1])}
    [] op = "CursorUp"       -> {CursorUpS(S, a[1])}
    [] op = "CursorUpReverse"-> {CursorUpReverseS(S)}
    [] op \in {"CursorSave", "CursorSaveAttrs"} -> {CursorSaveS(S)}
    [] op \in {"CursorUnsave", "CursorRestoreAttrs"} -> {CursorUnsaveS(S)}
    [] op = "ScrollScreen"   -> {ScrollScreenS(S)}
    [] op = "ScrollScreenRows" -> ScrollScreenRowsSet(S, a[1], a[2])
    [] op = "ScrollDown"     -> {ScrollDownS(S)}
    [] op = "ScrollUp"       -> {ScrollUpS(S)}
    [] op = "EraseEndOfLine" -> {EraseEndOfLineS(S)}
    [] op = "EraseStartOfLine" -> {EraseStartOfLineS(S)}
    [] op = "EraseLine"      -> {EraseLineS(S)}
    [] op = "EraseDown"      -> {EraseDownS(S)}
    [] op = "EraseUp"        -> {EraseUpS(S)}
    [] op = "EraseScreen"    -> {EraseScreenS(S)}

\* a cell the reference leaves alone was changed / a cell it rewrites has another value
FrameBroken(pre, want, got) == \E r \in RowIdx, c \in ColIdx :
                                 got[r][c] # want.grid[r][c] /\ want.grid[r][c] = pre.grid[r][c]

TOp ==
  /\ Has("op")
  /\ LET o == E.obs
         P == "C19:" \o E.m
         rej == IF "rej" \in DOMAIN E THEN E.rej ELSE ""
         refused == rej # "" /\ o.raised # ""
         \* a rejected argument that was taken after all (no exception where none is documented): some character was used
         chs == IF rej = "" THEN {E.ch} ELSE Chars
         nexts == IF refused THEN {[a EXCEPT !.scr = RejectedS(a.scr)] : a \in poss}
                  ELSE UNION {{[a EXCEPT !.scr = S2] : S2 \in UNION {OpSet(a.scr, E.op, E.a, ch) : ch \in chs}} : a \in poss}
         raisedOK == CASE rej = "bytes"  -> o.raised = "TypeError"
                       [] rej = "decode" -> o.raised \in {"", "UnicodeDecodeError"}
                       [] rej = "empty"  -> o.raised = "IndexError"
                       [] OTHER          -> o.raised = ""
         hit == IF ObsShapeOK(o) THEN {a \in nexts : a.scr = ObsScr(o)} ELSE {}
         w == CHOOSE a \in nexts : TRUE
         pre == (CHOOSE a \in poss : TRUE).scr
         cs == << <<raisedOK, IF rej = "bytes" /\ o.raised = "" THEN P \o "-bytes-accepted" ELSE P \o "-raised">>,
                  <<ObsShapeOK(o), P \o "-shape">>,
                  <<hit # {} \/ ~ObsShapeOK(o) \/ \E a \in nexts : a.scr.grid = ObsGrid(o) \/ ~FrameBroken(pre, w.scr, ObsGrid(o)), P \o "-frame">>,
                  <<hit # {} \/ ~ObsShapeOK(o) \/ \E a \in nexts : a.scr.grid = ObsGrid(o), P \o "-effect">>,
                  <<hit # {} \/ \E a \in nexts : a.scr.cur = o.cur, P \o "-cursor">>,
                  <<hit # {} \/ \E a \in nexts : a.scr.saved = o.saved, P \o "-saved-cursor">>,
                  <<hit # {} \/ \E a \in nexts : a.scr.region = o.region, P \o "-region">>,
                  <<hit # {}, P \o "-state">> >>
         v == FirstFailing(cs)
     IN /\ verdict' = v
        /\ possT' = [possT EXCEPT ![Tm] = IF v = "ok" THEN hit ELSE poss]
        /\ obsGridT' = [obsGridT EXCEPT ![Tm] = IF v = "ok" THEN ObsGrid(o) ELSE obsGrid]
        /\ lastT' = [lastT EXCEPT ![Tm] = LastOf(o)]
  /\ l' = l + 1 /\ UNCHANGED <<tid, dv, diverged>> /\ Idle

(* --------------------------- C19: accessors ------------------------------ *)
AccVal(S, m, a) ==
  CASE m = "get"        -> GetA(S)
    [] m = "get_abs"    -> GetAbsA(S, a[1], a[2])
    [] m = "get_region" -> GetRegionA(S, a[1], a[2], a[3], a[4])
    [] m = "dump"       -> DumpA(S)
    [] m = "str"        -> StrA(S)
    [] m = "pretty"     -> PrettyA(S)

TAcc ==
  /\ Has("acc")
  /\ LET o == E.obs
         P == "C19:accessor-" \o E.m
         hit == IF ObsShapeOK(o) THEN {a \in poss : a.scr = ObsScr(o)} ELSE {}
         cs == << <<o.raised = "", P \o "-raised">>,
                  <<\E a \in poss : E.ret = AccVal(a.scr, E.m, E.a), P>>,
                  <<hit # {}, P \o "-changed-the-screen">> >>
         v == FirstFailing(cs)
     IN /\ verdict' = v
        /\ possT' = [possT EXCEPT ![Tm] = IF v = "ok" THEN hit ELSE poss]
        /\ obsGridT' = [obsGridT EXCEPT ![Tm] = IF v = "ok" THEN ObsGrid(o) ELSE obsGrid]
        /\ lastT' = [lastT EXCEPT ![Tm] = LastOf(o)]
  /\ l' = l + 1 /\ UNCHANGED <<tid, dv, diverged>> /\ Idle

(* ------------------------------ C18: feed -------------------------------- *)
RECURSIVE FeedAll(_, _)
FeedAll(P, syms) ==
  IF syms = <<>> THEN P
  ELSE FeedAll(TLCEval(UNION {{[scr |-> n[1], fsm |-> n[2], mem |-> n[3]] : n \in FeedSet(a.scr, a.fsm, a.mem, Head(syms))} : a \in P}),
               Tail(syms))
Cap(n) == Min(n, Huge)
ObsMem(o) == [i \in 1..Len(o.stack) |-> Cap(o.stack[i])]

TFeed ==
  /\ Has("feed")
  /\ LET o == E.obs
         tdiv == Tm \in dv
         nexts == IF tdiv THEN {} ELSE FeedAll(poss, E.syms)
         hit == IF ObsShapeOK(o) THEN {a \in nexts : a.scr = ObsScr(o) /\ a.fsm = o.fsm /\ a.mem = ObsMem(o)} ELSE {}
         completed == IF tdiv THEN o.fsm = "INIT" ELSE \A a \in nexts : a.fsm = "INIT"
         cs == << <<o.raised = "", "C18:raised">>,
                  <<ObsShapeOK(o), "C18:shape">>,
                  <<ObsCursorOK(o), "C18:cursor">>,
                  <<completed => (o.fsm = "INIT" /\ o.stack = <<>> /\ o.memhead), "C18:residue">> >>
         v == FirstFailing(cs)
         why == IF \A a \in nexts : a.scr.region # o.region THEN "drift:region"
                ELSE IF \A a \in nexts : a.scr.grid # ObsGrid(o) THEN "drift:grid"
                ELSE IF \A a \in nexts : a.scr.cur # o.cur THEN "drift:cursor"
                ELSE IF \A a \in nexts : a.fsm # o.fsm \/ a.mem # ObsMem(o) THEN "drift:parser" ELSE "drift:state"
     IN /\ verdict' = IF v # "ok" THEN v ELSE IF diverged THEN verdict ELSE IF hit = {} THEN why ELSE "ok"
        /\ diverged' = (v = "ok" /\ (diverged \/ hit = {}))
        /\ dv' = IF v = "ok" /\ hit = {} THEN dv \cup {Tm} ELSE dv
        /\ possT' = [possT EXCEPT ![Tm] = IF v = "ok" /\ ~tdiv /\ hit # {} THEN hit ELSE poss]
        /\ obsGridT' = [obsGridT EXCEPT ![Tm] = IF v = "ok" /\ ObsShapeOK(o) THEN ObsGrid(o) ELSE obsGrid]
        /\ lastT' = [lastT EXCEPT ![Tm] = LastOf(o)]
  /\ l' = l + 1 /\ UNCHANGED tid /\ Idle

\* a long write() is logged as several "part" events (symbols only) followed by the "feed" event that
\* carries the observation: the reference advances, nothing can be compared in between
TPart ==
  /\ Has("part")
  /\ possT' = [possT EXCEPT ![Tm] = IF Tm \in dv THEN poss ELSE FeedAll(poss, E.syms)]
  /\ l' = l + 1 /\ UNCHANGED <<tid, verdict, obsGridT, lastT, dv, diverged>> /\ Idle

\* C18, chunk independence across terminals: terminal E.t and terminal E.u were given the same symbols - one of them
\* in pieces, interleaved with the pieces of other terminals, the other at once - so what was last observed of them
\* (screen, cursor, saved cursor, region, parser state and parameters) must be the same.  This clause needs no
\* reference state: it also decides a trace that is in `diverged` mode.
TSame ==
  /\ Has("same")
  /\ LET eq == obsGridT[E.t] = obsGridT[E.u] /\ lastT[E.t] = lastT[E.u]
     IN /\ verdict' = IF eq THEN verdict ELSE "C18:chunking"
        /\ diverged' = (eq /\ diverged)
  /\ l' = l + 1 /\ UNCHANGED <<tid, possT, obsGridT, lastT, dv>> /\ Idle

TNextTrace ==
  /\ (l > Len(Ev) \/ (verdict # "ok" /\ ~diverged))
  /\ PrintT(<<"VERDICT", tid, Traces[tid].id, verdict, l>>)
  /\ tid < Len(Traces)
  /\ tid' = tid + 1 /\ l' = 1 /\ verdict' = "ok" /\ Fresh
  /\ Idle

TNext == TOp \/ TAcc \/ TFeed \/ TPart \/ TSame \/ TNextTrace
TraceSpec == TInit /\ [][TNext]_tvars

\* safety net: every reference state the inputs allow satisfies the invariants of the models
\* (holds by construction; a violation is a bug of the specification, status 2)
PossGood == \A t \in Terms : \A a \in possT[t] : GoodS(a.scr) /\ a.fsm \in States /\ (a.fsm = "INIT" => a.mem = <<>>)
=============================================================================

------------------------------ MODULE Lifecycle ------------------------------
(* C09 (exit status truth) and C10 (lifecycle safety): one model.             *)
(*                                                                            *)
(* Kernel side: the child process (running / stopped / zombie / reaped, its   *)
(* disposition towards SIGHUP+SIGINT, signals pending while stopped, its real *)
(* fate), the descriptor of the transport (open / closed / its NUMBER now     *)
(* owned by someone else, and whether that someone was touched).              *)
(* Object side: the public fields of the pexpect object.                      *)
(*                                                                            *)
(* Every public operation is ONE action.  Its effect is written as the code   *)
(* performs it (pexpect/pty_spawn.py on top of ptyprocess: isalive's two      *)
(* waitpid variants, kill = isalive + os.kill, terminate's escalation HUP,    *)
(* CONT, INT, KILL with a liveness check after each, close = flush,           *)
(* ptyprocess.close(force) [close the master -> the kernel hangs up the       *)
(* session: SIGHUP + SIGCONT; isalive; terminate(force)], refresh of the      *)
(* status, child_fd = -1, closed = True; wait = isalive + blocking waitpid),  *)
(* as a function from the state before to the set of possible                 *)
(* (state after, return value / exception class).  The functions are reused   *)
(* verbatim by LifecycleTrace.tla to judge traces of the real code.           *)
(*                                                                            *)
(* Assumption made explicit (and enforced by the harness with                 *)
(* waitid(WNOWAIT), never by sleeping): the delayafterclose /                 *)
(* delayafterterminate pauses are long enough, i.e. a signal has taken        *)
(* effect when the code looks next (SignalTakesEffect is folded into          *)
(* Deliver).                                                                  *)
(*                                                                            *)
(* The model is the code AS INTENDED BY THE PROPERTIES.  Behaviours of the    *)
(* unchanged code that leave it are named deviations (Devs); with a deviation *)
(* switched on TLC must find the invariant it breaks (sensitivity), and the   *)
(* trace specification uses them to keep following a real object that left    *)
(* the intended path, until the property is visibly broken.                   *)
EXTENDS Naturals, Integers, Sequences, FiniteSets, TLC

CONSTANTS Transports,   \* subset of {"pty", "popen", "fd", "socket"}
          Disps,        \* subset of {"default", "ignore", "core"}   (ignore: trap '' HUP INT; core: default
                        \* dispositions, RLIMIT_CORE raised in a directory where a core file can be written)
          Codes,        \* exit codes the child may choose
          ExtSigs,      \* signals the environment may send to the child (19 = STOP, 18 = CONT)
          KillSigs,     \* arguments of the operation Kill(sig)
          MaxOps,       \* operations per behaviour
          MaxEnv,       \* environment actions per behaviour
          Logs,         \* log-file configurations a behaviour may start with: subset of {"none", "open"}
          Steal,        \* BOOLEAN: somebody else in the program may collect the dead child's status
          Devs          \* named deviations switched on

HUP == 1  INT == 2  KILL == 9  TERM == 15  CONT == 18  STOP == 19
None == -1

VARIABLES s,        \* kernel + object state (a record, see Init)
          last,     \* the last operation: name, argument, result, facts about the state before
          nops, nenv

vars == <<s, last, nops, nenv>>

ChildTransports == {"pty", "popen"}

\* signals whose default action is "dump core" (QUIT ILL TRAP ABRT BUS FPE SEGV XCPU XFSZ SYS)
CoreSigs == {3, 4, 5, 6, 7, 8, 11, 24, 25, 31}

\* log: "none" | "open" | "closed" - the file object attached as logfile (lsend: it logs what is sent:
\* logfile / logfile_send; otherwise logfile_read).  It belongs to the caller, who may close it.
InitStateL(tr, disp, log, lsend) ==
  [tr |-> tr,
   \* ---- kernel ----
   proc |-> "run",           \* "run" | "stop" | "zombie" | "reaped"
   fk |-> "none", fv |-> None,   \* real fate: "exit" code | "sig" number
   fc |-> FALSE,             \* ... and the kernel's "dumped core" flag (bit 0x80 of the wait status)
   core |-> (disp = "core"), \* the child is allowed to dump core
   stolen |-> FALSE,         \* the status of the dead child was collected by someone else (foreign
                             \* waitpid, or SIGCHLD ignored in the host program: the kernel discards it)
   disp |-> disp,
   pend |-> {},              \* fatal signals pending while stopped
   fd |-> "open",            \* "open" | "closed" | "reused" (the number belongs to someone else)
   touched |-> FALSE,        \* that someone else was written to / read from / closed
   peer |-> "open",          \* fd / socket transports: "open" | "closed" | "reset"
   \* ---- object ----
   term |-> (tr \notin {"pty"}),   \* SpawnBase starts with terminated = True; only spawn resets it
   closed |-> FALSE,
   pclosed |-> FALSE,        \* ptyprocess' own closed flag
   fobj |-> FALSE,           \* ptyprocess' file object closed
   fdv |-> "num",            \* child_fd: "num" (the original number) | "m1" (-1)
   es |-> None, ss |-> None, \* exitstatus, signalstatus
   sk |-> "none", sv |-> None,   \* status, decoded: "exit"/"sig" and value
   sc |-> FALSE,             \* status, decoded: WCOREDUMP
   log |-> log, lsend |-> lsend,
   eof |-> FALSE,            \* flag_eof
   obs |-> FALSE,            \* history: pexpect has observed the death
   gone |-> FALSE]           \* the object was dropped

InitState(tr, disp) == InitStateL(tr, disp, "none", TRUE)

\* result of an operation: state after, return value / exception class (+ integer value), and
\* the name of the deviation this outcome belongs to ("" = the intended behaviour)
R(st, r)     == [st |-> st, r |-> r, v |-> None, dev |-> ""]
RV(st, r, v) == [st |-> st, r |-> r, v |-> v, dev |-> ""]
Dev(x, name) == [x EXCEPT !.dev = name]

(* ---------------------------- kernel ------------------------------------- *)
MinOf(S) == CHOOSE x \in S : \A y \in S : x <= y
Live(st) == st.proc \in {"run", "stop"}
Die(st, kind, v) == [st EXCEPT !.proc = "zombie", !.fk = kind, !.fv = v, !.pend = {},
                                !.fc = (kind = "sig" /\ st.core /\ v \in CoreSigs)]
Ignored(st, sig) == st.disp = "ignore" /\ sig \in {HUP, INT}

\* Which of several pending fatal signals ends a continued child: the kernel hands out the lowest
\* number first; the peer (dash) catches SIGINT and only then kills itself with it, so SIGINT
\* loses against any other pending signal (probed: harness peer, all ordered pairs of 1,2,3,10,15).
FirstPending(P) == IF P \ {INT} # {} THEN MinOf(P \ {INT}) ELSE INT

\* a signal is sent to the child and takes effect (see the assumption above)
Deliver(st, sig) ==
  IF ~Live(st) THEN st
  ELSE IF sig = KILL THEN Die(st, "sig", KILL)
  ELSE IF sig = STOP THEN [st EXCEPT !.proc = "stop"]
  ELSE IF sig = CONT THEN
         IF st.proc = "stop"
         THEN (IF st.pend # {} THEN Die(st, "sig", FirstPending(st.pend)) ELSE [st EXCEPT !.proc = "run"])
         ELSE st
  ELSE IF Ignored(st, sig) THEN st
  ELSE IF st.proc = "run" THEN Die(st, "sig", sig)
  ELSE [st EXCEPT !.pend = @ \cup {sig}]

\* the last descriptor of the pty master is closed: the kernel hangs up the session
CloseMaster(st) ==
  IF st.fd = "open" THEN Deliver(Deliver([st EXCEPT !.fd = "closed"], HUP), CONT) ELSE st

(* ---------------------------- ptyprocess --------------------------------- *)
\* the zombie is reaped and its status decoded into the object
Record(st) ==
  [st EXCEPT !.proc = "reaped", !.term = TRUE, !.obs = TRUE,
             !.es = IF st.fk = "exit" THEN st.fv ELSE None,
             \* (sensitivity only) the whole low byte of the wait status taken for the signal
             !.ss = IF st.fk = "sig" THEN (IF "signal-with-core-bit" \in Devs /\ st.fc THEN st.fv + 128 ELSE st.fv) ELSE None,
             !.sk = st.fk, !.sv = st.fv, !.sc = st.fc]

\* PtyProcess.isalive() / spawn.isalive(): r in "True", "False", "BLOCK" (blocking waitpid
\* because the EOF flag is set, child still there), "ExceptionPexpect" (ECHILD: the status was
\* collected by someone else - nothing is recorded, pexpect does not claim to have seen the death)
PIsAlive(st) ==
  IF st.term THEN R(st, "False")
  ELSE IF st.proc = "zombie" THEN R(Record(st), "False")
  ELSE IF st.proc = "reaped" THEN R(st, "ExceptionPexpect")
  ELSE IF st.eof THEN R(st, "BLOCK")
  ELSE R(st, "True")

\* kill(sig): only a child believed alive is signalled
PKill(st, sig) ==
  LET a == PIsAlive(st) IN
  IF a.r = "True" THEN R(Deliver(a.st, sig), "None")
  ELSE IF a.r = "False" THEN R(a.st, "None")
  ELSE a

\* one stage of terminate(): kill(sig); sleep; if not isalive(): return True
Stage(x, sig) ==
  IF x.r # "go" THEN x
  ELSE LET k == PKill(x.st, sig) IN
       IF k.r # "None" THEN k
       ELSE LET a == PIsAlive(k.st) IN
            IF a.r = "False" THEN R(a.st, "True")
            ELSE IF a.r = "True" THEN R(a.st, "go")
            ELSE a

PTerminate(st, force) ==
  LET a0 == PIsAlive(st) IN
  IF a0.r = "False" THEN R(a0.st, "True")
  ELSE IF a0.r # "True" THEN a0
  ELSE LET x3 == Stage(Stage(Stage(R(a0.st, "go"), HUP), CONT), INT)
           x4 == IF force
                 THEN (IF "no-recheck-after-kill" \in Devs /\ x3.r = "go"
                       THEN R(PKill(x3.st, KILL).st, "True")
                       ELSE Stage(x3, KILL))
                 ELSE x3
       IN IF x4.r = "go" THEN R(x4.st, "False") ELSE x4

\* PtyProcess.close(force)
PClose(st, force) ==
  IF st.pclosed THEN R(st, "None")
  ELSE LET s1 == CloseMaster([st EXCEPT !.fobj = TRUE])
           a  == PIsAlive(s1)
       IN IF a.r = "False" THEN R([a.st EXCEPT !.pclosed = TRUE], "None")
          ELSE IF a.r # "True" THEN a
          ELSE LET t == PTerminate(a.st, force) IN
               IF t.r = "True" THEN R([t.st EXCEPT !.pclosed = TRUE], "None")
               ELSE IF t.r = "False" THEN R(t.st, "ExceptionPexpect")
               ELSE t

(* ---------------------------- pexpect.spawn (pty) ------------------------ *)
PtyIsAlive(st) == {PIsAlive(st)}

PtyWait(st) ==
  LET a == PIsAlive(st) IN
  IF st.stolen /\ ~st.term
  THEN \* ECHILD from the poll (PtyProcessError -> ExceptionPexpect) or, when the child was still running
       \* at the poll and its status went to someone else before / while wait() blocked, from the
       \* blocking waitpid itself (a bare ChildProcessError).  Nothing is recorded either way.
       {a, R(st, "OSError")}
       \* (sensitivity only) the ECHILD is swallowed: "terminated", no status at all
       \cup (IF "wait-swallows-echild" \in Devs THEN {R([st EXCEPT !.term = TRUE, !.obs = TRUE], "None")} ELSE {})
  ELSE
  {IF a.r = "True" THEN R(st, "BLOCK")                   \* blocking waitpid on a running / stopped child
   ELSE IF a.r = "False"
        THEN (IF a.st.es = None THEN R(a.st, "None") ELSE RV(a.st, "int", a.st.es))
   ELSE a}

PtyKill(st, sig) == {PKill(st, sig)}
PtyTerminate(st, force) == {PTerminate(st, force)}

\* (sensitivity only) close() begins with flushing the log files: a log the caller has closed makes
\* it raise before anything is released
FlushRaises(st) == "close-flushes-logs" \in Devs /\ st.log = "closed"

PtyClose(st, force) ==
  LET p == PClose(st, force) IN
  IF FlushRaises(st) THEN {R(st, "ValueError")}
  ELSE IF p.r = "None"
  THEN LET a == IF "close-no-refresh" \in Devs     \* (sensitivity only) what ptyprocess learnt is not copied
                THEN R([p.st EXCEPT !.term = st.term, !.obs = st.obs, !.es = st.es, !.ss = st.ss,
                                    !.sk = st.sk, !.sv = st.sv], "False")
                ELSE PIsAlive(p.st)
       IN {R([a.st EXCEPT !.fdv = "m1", !.closed = TRUE], "None")}
  ELSE IF p.r = "ExceptionPexpect"
  THEN \* the child could not be terminated; the descriptor is gone all the same, and the
       \* object says so (intended).  Deviation of the code as it is: closed / child_fd untouched.
       {R([p.st EXCEPT !.fdv = "m1", !.closed = TRUE], p.r)}
       \cup (IF "stale-after-failed-close" \in Devs THEN {Dev(R(p.st, p.r), "stale-after-failed-close")} ELSE {})
  ELSE {p}

\* a closed log file in the send direction: _log() raises ValueError (send: before anything is
\* written; sendeof: after the control character went out)
LogBroken(st) == st.log = "closed" /\ st.lsend

PtySendEof(st) == {IF st.fobj \/ LogBroken(st) THEN R(st, "ValueError") ELSE R(st, "None")}

\* os.write(self.child_fd, ..)
PtySend(st) ==
  {IF LogBroken(st) THEN R(st, "ValueError")
   ELSE IF st.fdv = "m1" THEN R(st, "OSError")
   ELSE IF st.fd = "open" THEN RV(st, "int", 1)
   ELSE IF st.fd = "closed" THEN R(st, "OSError")
   ELSE RV([st EXCEPT !.touched = TRUE], "int", 1)}       \* written into someone else's descriptor

\* read_nonblocking(1, 0) / expect(EOF, timeout=0) on a child that never writes
PtyReadLike(st, ateof, stale) ==
  IF st.closed THEN {R(st, "ValueError")}
  \* (only after a deviation) the stale number is polled / read: someone else's descriptor is used
  ELSE IF st.fd = "reused" THEN {[stale EXCEPT !.st = [st EXCEPT !.touched = TRUE]],
                                 R([st EXCEPT !.touched = TRUE], "TIMEOUT")}
  ELSE IF st.fd = "closed" THEN {R(st, "OSError"), R(st, "ValueError")}
  ELSE IF ~Live(st)
  THEN LET e == [st EXCEPT !.eof = TRUE]
           a == PIsAlive(e)
       IN \* EIO -> EOF.  On the polling branches the liveness (and the status) is refreshed before
          \* EOF is raised; when the hang-up arrives during the timed wait it is not (the death is
          \* then observed by the next isalive / wait / close): which branch runs is a matter of timing
          {IF a.r = "False" THEN [ateof EXCEPT !.st = a.st] ELSE a, [ateof EXCEPT !.st = e]}
  ELSE {R(st, "TIMEOUT")}

PtyRead(st)      == PtyReadLike(st, R(st, "EOF"), R(st, "val"))
PtyExpectEOF(st) == PtyReadLike(st, RV(st, "int", 0), R(st, "TIMEOUT"))

PtyWithExit(st, exc) ==
  {IF c.r = "None" THEN R(c.st, IF exc THEN "Boom" ELSE "None") ELSE c : c \in PtyClose(st, TRUE)}

Forget(st) == [st EXCEPT !.gone = TRUE, !.term = FALSE, !.closed = FALSE, !.pclosed = FALSE, !.fobj = FALSE,
                         !.fdv = "m1", !.es = None, !.ss = None, !.sk = "none", !.sv = None, !.eof = FALSE]

\* dropping the object: PtyProcess.__del__ -> close() with every exception swallowed
PtyDel(st) == {R(Forget(PClose(st, TRUE).st), "None")}

(* ---------------------------- PopenSpawn --------------------------------- *)
PopenWait(st) ==
  IF Live(st) THEN {R(st, "BLOCK")}
  ELSE LET s1 == IF st.proc = "zombie" THEN [st EXCEPT !.proc = "reaped"] ELSE st
           s2 == [s1 EXCEPT !.term = TRUE, !.obs = TRUE,
                            !.es = IF st.fk = "exit" THEN st.fv ELSE None,
                            !.ss = IF st.fk = "sig" THEN st.fv ELSE None]
           rv == IF st.fk = "exit" THEN st.fv ELSE 0 - st.fv
       IN {RV([s2 EXCEPT !.sk = st.fk, !.sv = st.fv], "int", rv)}
          \* deviation of the code as it is: `status` is never assigned
          \cup (IF "popen-status-unset" \in Devs THEN {Dev(RV(s2, "int", rv), "popen-status-unset")} ELSE {})

\* os.kill(pid, sig) without a liveness check (never driven on a reaped pid: the number may be recycled)
PopenKill(st, sig) == IF st.proc = "reaped" THEN {} ELSE {R(Deliver(st, sig), "None")}
PopenSendEof(st) == {R(st, "None")}
\* expect(EOF) once the child is dead: its end of the pipe is closed, the reader thread says so
PopenExpectEOF(st) == IF Live(st) THEN {} ELSE {RV([st EXCEPT !.eof = TRUE], "int", 0)}

(* ---------------------------- fdspawn / SocketSpawn ---------------------- *)
FdIsAlive(st) ==
  {IF st.tr = "socket" THEN R(st, IF st.closed THEN "False" ELSE "True")
   ELSE R(st, IF st.fdv = "m1" THEN "False" ELSE "True")}

FdClose(st) ==
  IF st.fdv = "m1" THEN {R(st, "None")}
  ELSE IF FlushRaises(st) THEN {R(st, "ValueError")}
  ELSE {R([st EXCEPT !.fd = "closed", !.fdv = "m1", !.closed = TRUE], "None")}
       \* deviation of the code as it is: shutdown() fails once the peer is gone (ENOTCONN after a
       \* reset, or after our own write hit the closed peer), close() raises, nothing is released
       \cup (IF "socket-close-raises" \in Devs /\ st.tr = "socket" /\ st.peer # "open"
             THEN {Dev(R(st, "OSError"), "socket-close-raises")} ELSE {})

FdSend(st) ==
  IF LogBroken(st) THEN {R(st, "ValueError")}
  ELSE IF st.closed THEN {R(st, "OSError")}
  ELSE {RV(st, "int", 1), R(st, "OSError")}        \* delivered, or EPIPE / EBADF on a read-only end: not lifecycle's business

FdReadLike(st, ateof) ==
  IF st.closed THEN {R(st, "ValueError"), R(st, "OSError")}
  ELSE IF st.peer = "open" THEN {R(st, "TIMEOUT")}
  \* the peer is gone: end of stream - or ECONNRESET first (reset, or closed with our data unread)
  ELSE {R(st, "OSError"), [ateof EXCEPT !.st = [st EXCEPT !.eof = TRUE]]}

FdRead(st)      == FdReadLike(st, R(st, "EOF"))
FdExpectEOF(st) == FdReadLike(st, RV(st, "int", 0))
FdTerminate(st) == {R(st, "ExceptionPexpect")}     \* "This method is not valid for file descriptors."
FdWithExit(st, exc) == {IF c.r = "None" THEN R(c.st, IF exc THEN "Boom" ELSE "None") ELSE c : c \in FdClose(st)}
\* the descriptor belongs to whoever passed it in: dropping the wrapper releases nothing
FdDel(st) == {R([st EXCEPT !.gone = TRUE, !.closed = FALSE, !.fdv = "m1", !.eof = FALSE], "None")}

(* ---------------------------- dispatch ----------------------------------- *)
OpNames(tr) ==
  CASE tr = "pty"    -> {"IsAlive", "Wait", "Kill", "Terminate", "Close", "SendEof", "ExpectEOF", "Send", "Read", "WithExit", "Del"}
    [] tr = "popen"  -> {"Wait", "Kill", "SendEof", "ExpectEOF"}
    [] tr = "fd"     -> {"IsAlive", "Terminate", "Close", "ExpectEOF", "Send", "Read", "WithExit", "Del"}
    [] tr = "socket" -> {"IsAlive", "Close", "ExpectEOF", "Send", "Read", "WithExit", "Del"}

ArgsOf(tr, op) ==
  CASE op = "Kill" -> KillSigs
    [] op \in {"Terminate", "WithExit"} -> {0, 1}
    [] op = "Close" -> IF tr = "pty" THEN {0, 1} ELSE {1}
    [] OTHER -> {0}

Outcomes(st, op, arg) ==
  IF st.gone THEN {}
  ELSE IF st.tr = "pty" THEN
    CASE op = "IsAlive"   -> PtyIsAlive(st)
      [] op = "Wait"      -> PtyWait(st)
      [] op = "Kill"      -> PtyKill(st, arg)
      [] op = "Terminate" -> PtyTerminate(st, arg = 1)
      [] op = "Close"     -> PtyClose(st, arg = 1)
      [] op = "SendEof"   -> PtySendEof(st)
      [] op = "ExpectEOF" -> PtyExpectEOF(st)
      [] op = "Send"      -> PtySend(st)
      [] op = "Read"      -> PtyRead(st)
      [] op = "WithExit"  -> PtyWithExit(st, arg = 1)
      [] op = "Del"       -> PtyDel(st)
      [] OTHER -> {}
  ELSE IF st.tr = "popen" THEN
    CASE op = "Wait"      -> PopenWait(st)
      [] op = "Kill"      -> PopenKill(st, arg)
      [] op = "SendEof"   -> PopenSendEof(st)
      [] op = "ExpectEOF" -> PopenExpectEOF(st)
      [] OTHER -> {}
  ELSE
    CASE op = "IsAlive"   -> FdIsAlive(st)
      [] op = "Terminate" -> IF st.tr = "fd" THEN FdTerminate(st) ELSE {}
      [] op = "Close"     -> FdClose(st)
      [] op = "ExpectEOF" -> FdExpectEOF(st)
      [] op = "Send"      -> FdSend(st)
      [] op = "Read"      -> FdRead(st)
      [] op = "WithExit"  -> FdWithExit(st, arg = 1)
      [] op = "Del"       -> FdDel(st)
      [] OTHER -> {}

(* ---------------------------- environment -------------------------------- *)
\* the child decides to exit (it can only do that while it runs)
EnvExit(st, code) == IF st.proc = "run" /\ st.tr \in ChildTransports THEN {Die(st, "exit", code)} ELSE {}
\* somebody else signals the child (SIGSTOP / SIGCONT: ChildStops / ChildContinues)
EnvSig(st, sig)   == IF Live(st) /\ st.tr \in ChildTransports THEN {Deliver(st, sig)} ELSE {}
\* the freed descriptor number is handed out again
EnvReuse(st)      == IF st.fd = "closed" THEN {[st EXCEPT !.fd = "reused"]} ELSE {}
EnvPeerClose(st)  == IF st.tr \in {"fd", "socket"} /\ st.peer = "open" THEN {[st EXCEPT !.peer = "closed"]} ELSE {}
EnvPeerReset(st)  == IF st.tr = "socket" /\ st.peer = "open" THEN {[st EXCEPT !.peer = "reset"]} ELSE {}

\* the dead child's status goes to someone else: a foreign waitpid() gets there first, or SIGCHLD is
\* ignored in the host program and the kernel discards it
\* (pty children only: PopenSpawn leaves the reaping to the subprocess module)
EnvStolen(st)     == IF st.proc = "zombie" /\ st.tr = "pty" THEN {[st EXCEPT !.proc = "reaped", !.stolen = TRUE]} ELSE {}
\* the owner of the log file closes it
EnvLogClose(st)   == IF st.log = "open" /\ st.tr # "popen" THEN {[st EXCEPT !.log = "closed"]} ELSE {}

EnvOutcomes(st, a, v) ==
  CASE a = "exit"      -> EnvExit(st, v)
    [] a = "selfkill"  -> IF st.proc = "run" THEN EnvSig(st, v) ELSE {}
    [] a = "sig"       -> EnvSig(st, v)
    [] a = "reuse"     -> EnvReuse(st)
    [] a = "peerclose" -> EnvPeerClose(st)
    [] a = "peerreset" -> EnvPeerReset(st)
    [] a = "stolen"    -> EnvStolen(st)
    [] a = "logclose"  -> EnvLogClose(st)
    [] OTHER -> {}

(* ---------------------------- the model ---------------------------------- *)
NoLast == [op |-> "none", arg |-> 0, r |-> "None", v |-> None, wasClosed |-> FALSE, wasDone |-> FALSE, unch |-> TRUE,
           wasTerm |-> FALSE, pes |-> None, pss |-> None, psk |-> "none", psv |-> None]

Init == /\ s \in {InitStateL(tr, d, lg, TRUE) : tr \in Transports, d \in Disps, lg \in Logs}
        /\ last = NoLast /\ nops = 0 /\ nenv = 0

Do(op, arg) ==
  /\ nops < MaxOps
  /\ \E x \in Outcomes(s, op, arg) :
       /\ s' = x.st
       /\ last' = [op |-> op, arg |-> arg, r |-> x.r, v |-> x.v, wasClosed |-> s.closed,
                   wasDone |-> (s.closed /\ (s.tr = "pty" => s.pclosed)), unch |-> (x.st = s),
                   wasTerm |-> s.obs, pes |-> s.es, pss |-> s.ss, psk |-> s.sk, psv |-> s.sv]
  /\ nops' = nops + 1 /\ UNCHANGED nenv

Has(op) == op \in OpNames(s.tr)

\* one named action per public operation (the names TLC reports per-action coverage under)
IsAlive      == /\ Has("IsAlive")   /\ Do("IsAlive", 0)
Wait         == /\ Has("Wait")      /\ Do("Wait", 0)
Kill(sig)    == /\ Has("Kill")      /\ Do("Kill", sig)
Terminate(f) == /\ Has("Terminate") /\ f \in ArgsOf(s.tr, "Terminate") /\ Do("Terminate", f)
Close(f)     == /\ Has("Close")     /\ f \in ArgsOf(s.tr, "Close") /\ Do("Close", f)
SendEof      == /\ Has("SendEof")   /\ Do("SendEof", 0)
ExpectEOF    == /\ Has("ExpectEOF") /\ Do("ExpectEOF", 0)
Send         == /\ Has("Send")      /\ Do("Send", 0)
Read         == /\ Has("Read")      /\ Do("Read", 0)
WithExit(e)  == /\ Has("WithExit")  /\ Do("WithExit", e)
Del          == /\ Has("Del")       /\ Do("Del", 0)

EnvLast == [NoLast EXCEPT !.op = "env", !.wasTerm = s.obs, !.pes = s.es, !.pss = s.ss, !.psk = s.sk, !.psv = s.sv]
Env(X) == /\ nenv < MaxEnv /\ ~s.gone
          /\ \E t \in X : s' = t
          /\ last' = EnvLast /\ nenv' = nenv + 1 /\ UNCHANGED nops

\* silent kernel / environment steps
ChildExits(c)     == /\ s.proc = "run" /\ Env(EnvExit(s, c))
ExternalSignal(g) == /\ Live(s) /\ Env(EnvSig(s, g))            \* 19: ChildStops, 18: ChildContinues
NumberReused      == /\ EnvReuse(s) # {} /\ s' \in EnvReuse(s) /\ last' = EnvLast /\ UNCHANGED <<nops, nenv>>
PeerCloses        == /\ s.peer = "open" /\ Env(EnvPeerClose(s))
PeerResets        == /\ s.peer = "open" /\ Env(EnvPeerReset(s))
StatusStolen      == /\ Steal /\ Env(EnvStolen(s))
LogCloses         == /\ Env(EnvLogClose(s))

Next ==
  \/ IsAlive \/ Wait
  \/ \E g \in KillSigs : Kill(g)
  \/ \E f \in {0, 1} : Terminate(f)
  \/ \E f \in {0, 1} : Close(f)
  \/ SendEof \/ ExpectEOF \/ Send \/ Read
  \/ \E e \in {0, 1} : WithExit(e)
  \/ Del
  \/ \E c \in Codes : ChildExits(c)
  \/ \E g \in ExtSigs : ExternalSignal(g)
  \/ NumberReused
  \/ PeerCloses \/ PeerResets
  \/ StatusStolen \/ LogCloses

Spec == Init /\ [][Next]_vars

(* ---------------------------- C09 ----------------------------------------- *)
Child == s.tr \in ChildTransports /\ ~s.gone

\* once the death has been observed: exactly one of exitstatus / signalstatus, equal to the real
\* fate, status decodes to the same, terminated is true
ObservedStatusTrue ==
  Child /\ s.obs =>
    /\ (s.es # None) # (s.ss # None)
    /\ s.fk = "exit" => (s.es = s.fv /\ s.ss = None)
    /\ s.fk = "sig"  => (s.ss = s.fv /\ s.es = None)
    /\ s.fk # "none"
    /\ s.sk = s.fk /\ s.sv = s.fv
    /\ s.sc = (s.fc /\ s.tr = "pty")   \* (PopenSpawn builds `status` from the return code: no core flag)
    /\ s.term
    /\ s.proc = "reaped"
    /\ ~s.stolen                        \* what pexpect reports it has seen itself

\* every way of looking observes a death that has happened - unless the status went to someone
\* else: then the call raises, and pexpect does not claim anything
Errors == {"OSError", "ValueError", "ExceptionPexpect"}
DeathObserved ==
  (Child /\ ~Live(s) /\ last.r \notin {"BLOCK"}
    /\ last.op \in {"IsAlive", "Wait", "Close", "Terminate", "WithExit"})
  => IF s.stolen THEN (last.r \in Errors /\ ~s.term /\ ~s.obs) ELSE s.obs

\* terminated is never claimed without exactly one status
NoClaimWithoutStatus ==
  (s.tr = "pty" /\ ~s.gone /\ s.term) => (s.obs /\ ((s.es # None) # (s.ss # None)))

\* the values never change afterwards
StableStep == (s.obs /\ ~s'.gone) => (s'.obs /\ s'.es = s.es /\ s'.ss = s.ss /\ s'.sk = s.sk /\ s'.sv = s.sv /\ s'.term)
StatusStable == [][StableStep]_vars
\* the same as a state invariant over the history kept in `last` (every step records the
\* status fields of the state it started from)
StatusStableInv ==
  (last.wasTerm /\ ~s.gone) => (s.obs /\ s.es = last.pes /\ s.ss = last.pss /\ s.sk = last.psk /\ s.sv = last.psv /\ s.term)

WaitReturnsCode ==
  (last.op = "Wait" /\ last.r # "BLOCK" /\ ~(s.stolen /\ last.r \in Errors)) =>
     IF s.fk = "exit" THEN last.r = "int" /\ last.v = s.fv
     ELSE IF s.tr = "popen" THEN last.r = "int" /\ last.v = 0 - s.fv
     ELSE last.r = "None"

(* ---------------------------- C10 ----------------------------------------- *)
NeverAliveAfterReaped ==
  (last.op = "IsAlive" /\ last.r = "True" /\ s.tr = "pty") => Live(s)
NeverTerminatedWhileRunning == (s.tr = "pty" /\ s.term /\ ~s.gone) => s.proc = "reaped"

\* terminate(force=True), close(), leaving a with-block, dropping the object: dead and reaped
ForceLeavesDead ==
  (s.tr = "pty" /\ (\/ last.op \in {"Terminate", "Close"} /\ last.arg = 1
                    \/ last.op \in {"WithExit", "Del"}))
    => (s.proc = "reaped" /\ last.r \in {"True", "None", "Boom"})

CloseOps == {"Close", "WithExit"}
\* a close() that completed makes every further close() a no-op that does not raise.  (A
\* close(force=False) that could not terminate the child raised: closing again may try again.)
CloseIdempotent ==
  (last.op \in CloseOps /\ last.wasDone) => (last.unch /\ last.r \in {"None", "Boom"})

NoLeak ==
  /\ (s.closed \/ (s.gone /\ s.tr = "pty")) => s.fd # "open"
  /\ (s.tr = "pty" /\ (s.pclosed \/ s.gone)) => s.proc = "reaped"     \* a completed close leaves no zombie
  /\ (last.op \in CloseOps \/ (last.op = "Del" /\ s.tr = "pty")) => s.fd # "open"

IoOps == {"Send", "SendEof", "Read", "ExpectEOF"}
AfterCloseIoFails ==
  /\ ~s.touched
  /\ (last.op \in IoOps /\ last.wasClosed) => last.r \in Errors

\* only wait() may block (on a child that is still there)
OnlyWaitBlocks == last.r = "BLOCK" => (last.op = "Wait" /\ Live(s))
FlagEofMeansDead == (Child /\ s.eof) => ~Live(s)
=============================================================================

SPECIFICATION BSpec
CONSTANTS
  Rows = 2
  Cols = 3
  Chars <- Chars3
  Slack = 1
  MaxSteps = 11
  MaxStack = 3
INVARIANT Shape
INVARIANT CursorOnScreen
INVARIANT SavedOnScreen
INVARIANT RegionValid
INVARIANT FsmTypeOK
INVARIANT NoResidue
INVARIANT Total
INVARIANT StackShape
CONSTRAINT StackBound
CONSTRAINT StepBound
CHECK_DEADLOCK FALSE

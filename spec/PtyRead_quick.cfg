SPECIFICATION Spec
CONSTANTS
  MaxUnits = 3
  MaxWrite = 2
  Sizes = {1, 2}
  Tmos = {0, 2}
  MaxCalls = 3
  Fixed = TRUE
INVARIANT DeliveredPrefix
INVARIANT EofOnlyWhenDrained
INVARIANT AtMostSize
INVARIANT DataNonEmpty
INVARIANT Bounded
INVARIANT NotEarly
CHECK_DEADLOCK FALSE

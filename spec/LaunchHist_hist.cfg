SPECIFICATION HistSpec
CONSTANTS
  LenFor <- MCLenTiny
  Styles <- MCAllStyles
  Seps <- MCAllSeps
  Dev = {}
  MaxDirs = 1
  HNames = {"a", "b"}
  HDirs = 2
  HKinds = {"missing", "dir", "file", "exec"}
  MaxComps = 1
INVARIANT HistTypeOK
INVARIANT HistFirstMatch
INVARIANT HistOnlyExecutables
INVARIANT HistNothingEarlier
INVARIANT HistNoneMeansNone
CHECK_DEADLOCK FALSE

------------------------------ MODULE MCDeadline ------------------------------
EXTENDS Deadline
MCTArgs == {DefaultT, None, 0, 1, 2}
MCEntries == {"expect", "expect_exact", "expect_list", "expect_loop", "waitnoecho"}
DevExpectLoop == {"expect_loop"}
DevPerRead == {"PerReadTimeout"}
DevWake == {"WakeIsTimeout"}
=============================================================================

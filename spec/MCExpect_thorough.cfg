SPECIFICATION Spec
CONSTANTS
  Alphabet = {"a", "b"}
  MaxChunk = 3
  MaxStream = 5
  MaxRead = 3
  MaxCalls = 2
  PatLists <- MCPatLists
  Windows = {0, 1, 2, 3}
  Tmos = {"pos", "neg", "none"}
  SetBufs <- MCSetBufs
  Devs = {}
INVARIANT Conservation
INVARIANT Genuine
INVARIANT Leftmost
INVARIANT LowestIndex
INVARIANT NoMissed
INVARIANT EofClears
INVARIANT MarkerIdx
INVARIANT BufSuffix
INVARIANT BufLongEnough
PROPERTY RefinesAbs
CHECK_DEADLOCK FALSE

------------------------------ MODULE AnsiFsm ------------------------------
(* C18: pexpect.ANSI.ANSI as a state machine over the Screen reference.       *)
(*                                                                            *)
(*   fsm    state of the parser (FSM.current_state)                           *)
(*   stack  numeric parameters collected so far (FSM.memory[1:]), each number *)
(*          saturating at the symbolic Huge (> every screen dimension and > 2)*)
(*                                                                            *)
(* One action Feed(sym) per input class.  The transition table below is the   *)
(* table built in ANSI.__init__, looked up with the precedence of             *)
(* FSM.get_transition: exact (symbol, state) > any (state) > default.         *)
(* Symbols: "ESC" "CR" "LF" "BS", the blank " ", "x" (a printable), every     *)
(* character that occurs in the table, and "y" = any other character (other   *)
(* printables, other control characters, non-ASCII text).  Cells are          *)
(* abstracted to {" ", "x", "y"}: the code never looks at a cell's content.   *)
(*                                                                            *)
(* Totality is part of the model: Trans is defined for every (symbol, state), *)
(* and the invariant Total says that no action can fail (a final byte always  *)
(* finds the parameters it pops).                                             *)
EXTENDS Screen

VARIABLES fsm, stack
avars == <<grid, cur, saved, region, fsm, stack>>

Huge == Max(Max(Rows, Cols), 2) + 2

Digits   == {"0", "1", "2", "3", "4", "5", "6", "7", "8", "9"}
DigitVal(d) == CASE d = "0" -> 0 [] d = "1" -> 1 [] d = "2" -> 2 [] d = "3" -> 3 [] d = "4" -> 4
                 [] d = "5" -> 5 [] d = "6" -> 6 [] d = "7" -> 7 [] d = "8" -> 8 [] d = "9" -> 9
Finals   == {"(", ")", "A", "B", "M", ">", "<", "=", "#", "[", "H", "D", "C", "J", "K", "r", "m", "?",
             "l", "q", "h", ";", "f"}
Controls == {"ESC", "CR", "LF", "BS"}
Symbols  == Controls \cup {" ", "x", "y"} \cup Finals \cup Digits

States == {"INIT", "ESC", "G0SCS", "G1SCS", "GRAPHICS_POUND", "ELB", "MODECRAP", "MODECRAP_NUM",
           "NUMBER_1", "SEMICOLON", "NUMBER_2", "SEMICOLON_X", "NUMBER_X"}

(* ------------------------- the transition table -------------------------- *)
TT(syms, st, act, nxt) == [p \in {<<s, st>> : s \in syms} |-> [act |-> act, nxt |-> nxt]]

ExactT ==
     TT({"ESC"}, "INIT", "None", "ESC")
  @@ TT({"("}, "ESC", "None", "G0SCS") @@ TT({")"}, "ESC", "None", "G1SCS")
  @@ TT({"A", "B", "0", "1", "2"}, "G0SCS", "None", "INIT")
  @@ TT({"A", "B", "0", "1", "2"}, "G1SCS", "None", "INIT")
  @@ TT({"7"}, "ESC", "CursorSave", "INIT") @@ TT({"8"}, "ESC", "CursorRestore", "INIT")
  @@ TT({"M", ">", "<"}, "ESC", "UpReverse", "INIT")
  @@ TT({"="}, "ESC", "None", "INIT")
  @@ TT({"#"}, "ESC", "None", "GRAPHICS_POUND")
  @@ TT({"["}, "ESC", "None", "ELB")
  @@ TT({"H"}, "ELB", "HomeOrigin", "INIT") @@ TT({"D"}, "ELB", "BackOne", "INIT")
  @@ TT({"B"}, "ELB", "DownOne", "INIT") @@ TT({"C"}, "ELB", "ForwardOne", "INIT")
  @@ TT({"A"}, "ELB", "UpOne", "INIT") @@ TT({"J"}, "ELB", "EraseDown", "INIT")
  @@ TT({"K"}, "ELB", "EraseEndOfLine", "INIT") @@ TT({"r"}, "ELB", "EnableScroll", "INIT")
  @@ TT({"m"}, "ELB", "Reset", "INIT") @@ TT({"?"}, "ELB", "None", "MODECRAP")
  @@ TT(Digits, "ELB", "StartNumber", "NUMBER_1")
  @@ TT(Digits, "NUMBER_1", "BuildNumber", "NUMBER_1")
  @@ TT({"D"}, "NUMBER_1", "Back", "INIT") @@ TT({"B"}, "NUMBER_1", "Down", "INIT")
  @@ TT({"C"}, "NUMBER_1", "Forward", "INIT") @@ TT({"A"}, "NUMBER_1", "Up", "INIT")
  @@ TT({"J"}, "NUMBER_1", "Erase", "INIT") @@ TT({"K"}, "NUMBER_1", "EraseLine", "INIT")
  @@ TT({"l"}, "NUMBER_1", "Mode", "INIT")
  @@ TT({"m", "q"}, "NUMBER_1", "Reset", "INIT")
  @@ TT(Digits, "MODECRAP", "StartNumber", "MODECRAP_NUM")
  @@ TT(Digits, "MODECRAP_NUM", "BuildNumber", "MODECRAP_NUM")
  @@ TT({"l", "h"}, "MODECRAP_NUM", "Reset", "INIT")
  @@ TT({";"}, "NUMBER_1", "None", "SEMICOLON")
  @@ TT(Digits, "SEMICOLON", "StartNumber", "NUMBER_2")
  @@ TT(Digits, "NUMBER_2", "BuildNumber", "NUMBER_2")
  @@ TT({"H", "f"}, "NUMBER_2", "Home", "INIT")
  @@ TT({"r"}, "NUMBER_2", "ScrollRegion", "INIT")
  @@ TT({"m", "q"}, "NUMBER_2", "Reset", "INIT")
  @@ TT({";"}, "NUMBER_2", "None", "SEMICOLON_X")
  @@ TT(Digits, "SEMICOLON_X", "StartNumber", "NUMBER_X")
  @@ TT(Digits, "NUMBER_X", "BuildNumber", "NUMBER_X")
  @@ TT({"m", "q"}, "NUMBER_X", "Reset", "INIT")
  @@ TT({";"}, "NUMBER_X", "None", "SEMICOLON_X")

AnyT == [s \in {"INIT"} |-> [act |-> "Emit", nxt |-> "INIT"]]
    @@ [s \in {"ESC", "SEMICOLON", "NUMBER_2", "SEMICOLON_X", "NUMBER_X"} |-> [act |-> "Log", nxt |-> "INIT"]]
    @@ [s \in {"GRAPHICS_POUND"} |-> [act |-> "None", nxt |-> "INIT"]]
DefaultT == [act |-> "Log", nxt |-> "INIT"]

Trans(sym, st) == IF <<sym, st>> \in DOMAIN ExactT THEN ExactT[<<sym, st>>]
                  ELSE IF st \in DOMAIN AnyT THEN AnyT[st] ELSE DefaultT

\* how many parameters an action takes off the stack
Needs(act) == CASE act \in {"Back", "Down", "Forward", "Up", "Erase", "EraseLine", "Mode", "BuildNumber"} -> 1
                [] act \in {"Home", "ScrollRegion"} -> 2
                [] OTHER -> 0

(* ------------------------------- actions --------------------------------- *)
\* ANSI.write_ch: CR, LF (= crlf), BS, or a character written at the cursor; the cursor
\* advances, wraps to the next line at the right edge and scrolls at the bottom
CellOf(sym) == IF sym \in {" ", "x"} THEN sym ELSE "y"
WriteChS(S, sym) ==
  IF sym = "CR" THEN CrS(S)
  ELSE IF sym = "LF" THEN CrlfS(S)
  ELSE IF sym = "BS" THEN CursorBackS(S, 1)
  ELSE LET P == PutAbsS(S, S.cur[1], S.cur[2], CellOf(sym)) IN
       IF S.cur[2] < Cols THEN CursorForwardS(P, 1)
       ELSE IF S.cur[1] < Rows THEN CursorHomeS(P, S.cur[1] + 1, 1)
       ELSE EraseLineS(CursorHomeS(ScrollUpS(P), S.cur[1], 1))

Front(s) == SubSeq(s, 1, Len(s) - 1)
Top(s, k) == s[Len(s) - k]          \* Top(s, 0): last parameter, Top(s, 1): the one before

\* the set of <<screen, stack>> results of running `act` on input `sym`
Run(act, sym, S, mem) ==
  CASE act = "None"          -> {<<S, mem>>}
    [] act = "Emit"          -> {<<WriteChS(S, sym), mem>>}
    [] act = "Log"           -> {<<S, <<>> >>}                     \* unknown sequence: parameters dropped
    [] act = "Reset"         -> {<<S, <<>> >>}                     \* do_sgr / do_decsca / do_modecrap
    [] act = "StartNumber"   -> {<<S, Append(mem, Min(DigitVal(sym), Huge))>>}
    [] act = "BuildNumber"   -> {<<S, Append(Front(mem), Min(Top(mem, 0) * 10 + DigitVal(sym), Huge))>>}
    [] act = "CursorSave"    -> {<<CursorSaveS(S), mem>>}
    [] act = "CursorRestore" -> {<<CursorUnsaveS(S), mem>>}
    [] act = "UpReverse"     -> {<<CursorUpReverseS(S), mem>>}
    [] act = "HomeOrigin"    -> {<<CursorHomeS(S, 1, 1), mem>>}
    [] act = "BackOne"       -> {<<CursorBackS(S, 1), mem>>}
    [] act = "DownOne"       -> {<<CursorDownS(S, 1), mem>>}
    [] act = "ForwardOne"    -> {<<CursorForwardS(S, 1), mem>>}
    [] act = "UpOne"         -> {<<CursorUpS(S, 1), mem>>}
    [] act = "EraseDown"     -> {<<EraseDownS(S), mem>>}
    [] act = "EraseEndOfLine"-> {<<EraseEndOfLineS(S), mem>>}
    [] act = "EnableScroll"  -> {<<ScrollScreenS(S), mem>>}
    [] act = "Back"          -> {<<CursorBackS(S, Top(mem, 0)), Front(mem)>>}
    [] act = "Down"          -> {<<CursorDownS(S, Top(mem, 0)), Front(mem)>>}
    [] act = "Forward"       -> {<<CursorForwardS(S, Top(mem, 0)), Front(mem)>>}
    [] act = "Up"            -> {<<CursorUpS(S, Top(mem, 0)), Front(mem)>>}
    [] act = "Erase"         -> {<<CASE Top(mem, 0) = 0 -> EraseDownS(S) [] Top(mem, 0) = 1 -> EraseUpS(S)
                                     [] Top(mem, 0) = 2 -> EraseScreenS(S) [] OTHER -> S, Front(mem)>>}
    [] act = "EraseLine"     -> {<<CASE Top(mem, 0) = 0 -> EraseEndOfLineS(S) [] Top(mem, 0) = 1 -> EraseStartOfLineS(S)
                                     [] Top(mem, 0) = 2 -> EraseLineS(S) [] OTHER -> S, Front(mem)>>}
    [] act = "Mode"          -> {<<S, Front(mem)>>}
    [] act = "Home"          -> {<<CursorHomeS(S, Top(mem, 1), Top(mem, 0)), Front(Front(mem))>>}
    [] act = "ScrollRegion"  -> {<<R, Front(Front(mem))>> : R \in ScrollScreenRowsSet(S, Top(mem, 1), Top(mem, 0))}

\* all <<screen, parser state, stack>> results of feeding one symbol
FeedSet(S, st, mem, sym) ==
  LET t == Trans(sym, st) IN {<<p[1], t.nxt, p[2]>> : p \in Run(t.act, sym, S, mem)}

Feed(sym) == \E n \in FeedSet(St, fsm, stack, sym) : Apply(n[1]) /\ fsm' = n[2] /\ stack' = n[3]

AInit == SInit /\ fsm = "INIT" /\ stack = <<>>
ANext == \E sym \in Symbols : Feed(sym)
ASpec == AInit /\ [][ANext]_avars

(* ------------------------------ invariants ------------------------------- *)
FsmTypeOK == fsm \in States /\ stack \in Seq(0..Huge)
NoResidue == fsm = "INIT" => stack = <<>>
\* no input class without a transition, no action that can fail
Total == \A sym \in Symbols :
           /\ Trans(sym, fsm).nxt \in States
           /\ Needs(Trans(sym, fsm).act) <= Len(stack)
           /\ FeedSet(St, fsm, stack, sym) # {}
\* the shape of the stack is a function of the parser state
StackShape == CASE fsm \in {"INIT", "ESC", "G0SCS", "G1SCS", "GRAPHICS_POUND", "ELB", "MODECRAP"} -> Len(stack) = 0
                [] fsm \in {"NUMBER_1", "SEMICOLON", "MODECRAP_NUM"} -> Len(stack) = 1
                [] fsm = "NUMBER_2" -> Len(stack) = 2
                [] fsm = "SEMICOLON_X" -> Len(stack) >= 2
                [] fsm = "NUMBER_X" -> Len(stack) >= 3
=============================================================================

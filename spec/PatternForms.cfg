SPECIFICATION Spec
INVARIANT SameMeaningStrings
INVARIANT SameMeaningCompiled
INVARIANT SingleIsList
INVARIANT StringFlags
CHECK_DEADLOCK FALSE

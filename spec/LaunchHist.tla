----------------------------- MODULE LaunchHist -----------------------------
(* C13 launch fidelity, two further parts on top of Launch.tla:             *)
(*                                                                         *)
(*  HistSpec   which() / spawn / run / PopenSpawn over a HISTORY: the file  *)
(*             system changes between lookups (a file appears, disappears, *)
(*             gains or loses its x bit, becomes a directory - in an       *)
(*             earlier or a later PATH directory) while the PATH string    *)
(*             stays the same, and several names are looked up in one      *)
(*             process.  Every lookup must give the first match in PATH    *)
(*             order on the layout AT THE TIME OF THE CALL.  The state     *)
(*             keeps, per name, what the previous lookup returned, so that *)
(*             covering the Lookup transitions of the state graph covers   *)
(*             every combination (previous answer, present layout).        *)
(*  CwdSpec    the cwd argument as a path: relative or absolute, with '.'  *)
(*             and '..' components, a trailing slash, symbolic links to    *)
(*             directories (one whose target has a different parent), from *)
(*             a caller whose own directory was entered through a symbolic *)
(*             link.  The kernel's resolution as a machine (one action per *)
(*             component); the child must be in the directory it yields.   *)
(*                                                                         *)
(* Named deviations (model sensitivity, TLC must refute the invariant):    *)
(*   "which_memo"   which() returns the remembered answer while it still   *)
(*                  is an executable file                                  *)
(*   "cwd_lexical"  the cwd is made absolute and normalised textually      *)
(*                  (x/.. collapsed) before the kernel sees it             *)
EXTENDS Launch

CONSTANTS HNames,    \* names looked up
          HDirs,     \* the PATH has directories 1..HDirs (the PATH string never changes)
          HKinds,    \* what an entry can be / become
          MaxComps   \* cwd paths have 1..MaxComps components

VARIABLES
  \* part (d)
  fs,      \* fs[d][n]: kind of the entry named n in PATH directory d, now
  last,    \* last[n]: what the previous lookup of n returned (Never, 0 = nothing found, else the directory)
  hlook,   \* the name looked up by the step that led here ("-" after a change of the file system)
  \* part (e)
  ccase,   \* the cwd case (constant along a behaviour)
  cnode,   \* directory reached so far
  crest    \* components still to be resolved

lvars == <<case, inp, st, out, cur, world, plist, pos, res, crow>>

-----------------------------------------------------------------------------
(* Part (d): lookups over a changing file system                           *)

Never == -1
HFirst(f, n) == LET hits == {i \in 1..HDirs : Runs(f[i][n])}
                IN  IF hits = {} THEN 0 ELSE CHOOSE i \in hits : \A j \in hits : i <= j

HistInit == /\ fs \in [1..HDirs -> [HNames -> HKinds]]
            /\ last = [n \in HNames |-> Never]
            /\ hlook = "-"

\* the entry n of directory d becomes a k (created, removed, chmod, replaced by a directory ...)
Mutate(d, n, k) == /\ fs[d][n] # k
                   /\ fs' = [fs EXCEPT ![d][n] = k]
                   /\ hlook' = "-"
                   /\ UNCHANGED <<last, ccase, cnode, crest>> /\ UNCHANGED lvars

HResult(n) == IF "which_memo" \in Dev /\ last[n] \in 1..HDirs /\ Runs(fs[last[n]][n])
              THEN last[n]                      \* the deviation: the remembered answer is still an executable
              ELSE HFirst(fs, n)
\* one lookup of n, by whatever route (which(), spawn, run, PopenSpawn)
Lookup(n) == /\ last' = [last EXCEPT ![n] = HResult(n)]
             /\ hlook' = n
             /\ UNCHANGED <<fs, ccase, cnode, crest>> /\ UNCHANGED lvars

HistNext == \/ \E d \in 1..HDirs, n \in HNames, k \in HKinds : Mutate(d, n, k)
            \/ \E n \in HNames : Lookup(n)

(* properties of part (d): about the lookup that has just been made *)
HistTypeOK == /\ hlook \in HNames \cup {"-"}
              /\ \A n \in HNames : last[n] \in 0..HDirs \cup {Never}
HistFirstMatch      == hlook # "-" => last[hlook] = HFirst(fs, hlook)
HistOnlyExecutables == (hlook # "-" /\ last[hlook] > 0) => Runs(fs[last[hlook]][hlook])
HistNothingEarlier  == (hlook # "-" /\ last[hlook] > 0) => \A j \in 1..(last[hlook] - 1) : ~Runs(fs[j][hlook])
HistNoneMeansNone   == (hlook # "-" /\ last[hlook] = 0) => \A j \in 1..HDirs : ~Runs(fs[j][hlook])

-----------------------------------------------------------------------------
(* Part (e): the cwd argument as a path                                    *)

\* The world (materialised by the harness under a fresh temporary directory U):
\*   U/top                    T
\*   U/top/real               R
\*   U/top/real/sub           S
\*   U/top/other              O
\*   U/top/other/link    ->   ../real/sub    a symbolic link whose target (S) has another parent (R) than the link (O)
\*   U/top/lnreal        ->   real           a symbolic link whose target has the same parent as the link
\* "OUT" stands for everything above U, "ENOENT" for a path that names nothing.
CDirs    == {"U", "T", "R", "S", "O"}
CParent  == [U |-> "OUT", T |-> "U", R |-> "T", S |-> "R", O |-> "T"]
CChild   == [U |-> [top |-> "T"], T |-> [real |-> "R", other |-> "O"], R |-> [sub |-> "S"],
             S |-> [x \in {} |-> "-"], O |-> [x \in {} |-> "-"]]
CLink    == [U |-> [x \in {} |-> <<>>], T |-> [lnreal |-> <<"real">>], R |-> [x \in {} |-> <<>>],
             S |-> [x \in {} |-> <<>>], O |-> [link |-> <<"..", "real", "sub">>]]
CPathOf  == [U |-> <<>>, T |-> <<"top">>, R |-> <<"top", "real">>, S |-> <<"top", "real", "sub">>, O |-> <<"top", "other">>]
CAlphabet == {"real", "sub", "other", "link", "lnreal", "..", "."}
CompSeqs == UNION { [1..n -> CAlphabet] : n \in 1..MaxComps }

\* where the caller is when it launches: in T, entered as U/top; or in S, entered through U/top/other/link
CStarts == {"T", "S_via_link"}
CStartNode(s) == IF s = "T" THEN "T" ELSE "S"
\* an absolute cwd is U/top/<comps>; a relative one is <comps> from the caller's directory
CwdCases == [start : CStarts, abs : BOOLEAN, comps : CompSeqs, slash : BOOLEAN]
COrigin(c) == IF c.abs THEN "T" ELSE CStartNode(c.start)

\* the kernel's walk as a function
RECURSIVE Walk(_, _)
Walk(node, comps) ==
  IF node \notin CDirs \/ comps = <<>> THEN node
  ELSE LET h == Head(comps) t == Tail(comps) IN
       CASE h = "."  -> Walk(node, t)
         [] h = ".." -> Walk(CParent[node], t)
         [] h \in DOMAIN CLink[node]  -> Walk(node, CLink[node][h] \o t)     \* relative target: continue from the link's directory
         [] h \in DOMAIN CChild[node] -> Walk(CChild[node][h], t)
         [] OTHER -> "ENOENT"
Kernel(c) == Walk(COrigin(c), c.comps)

\* textual normalisation (what os.path.abspath does): joined to the caller's directory, '.' dropped, 'x/..' collapsed
RECURSIVE Norm(_, _)
Norm(stack, comps) ==
  IF comps = <<>> THEN stack
  ELSE LET h == Head(comps) t == Tail(comps) IN
       CASE h = "."  -> Norm(stack, t)
         [] h = ".." -> IF stack # <<>> /\ stack[Len(stack)] # ".." THEN Norm(SubSeq(stack, 1, Len(stack) - 1), t)
                        ELSE Norm(Append(stack, ".."), t)
         [] OTHER    -> Norm(Append(stack, h), t)
Lexical(c) == Walk("U", Norm(<<>>, CPathOf[COrigin(c)] \o c.comps))

cvars == <<ccase, cnode, crest>>
CRest == UNCHANGED <<fs, last, hlook>> /\ UNCHANGED lvars
CwdInit == /\ ccase \in CwdCases
           /\ IF "cwd_lexical" \in Dev
              THEN cnode = "U" /\ crest = Norm(<<>>, CPathOf[COrigin(ccase)] \o ccase.comps)
              ELSE cnode = COrigin(ccase) /\ crest = ccase.comps
Going == cnode \in CDirs /\ crest # <<>>
CwdDot     == /\ Going /\ Head(crest) = "."
              /\ crest' = Tail(crest) /\ UNCHANGED <<ccase, cnode>> /\ CRest
CwdUp      == /\ Going /\ Head(crest) = ".."
              /\ cnode' = CParent[cnode] /\ crest' = Tail(crest) /\ UNCHANGED ccase /\ CRest
CwdFollow  == /\ Going /\ Head(crest) \in DOMAIN CLink[cnode]
              /\ crest' = CLink[cnode][Head(crest)] \o Tail(crest) /\ UNCHANGED <<ccase, cnode>> /\ CRest
CwdEnter   == /\ Going /\ Head(crest) \in DOMAIN CChild[cnode]
              /\ cnode' = CChild[cnode][Head(crest)] /\ crest' = Tail(crest) /\ UNCHANGED ccase /\ CRest
CwdMissing == /\ Going /\ Head(crest) \notin {".", ".."} \cup DOMAIN CLink[cnode] \cup DOMAIN CChild[cnode]
              /\ cnode' = "ENOENT" /\ crest' = <<>> /\ UNCHANGED ccase /\ CRest
CwdNext == CwdDot \/ CwdUp \/ CwdFollow \/ CwdEnter \/ CwdMissing

CwdDone == cnode \notin CDirs \/ crest = <<>>
(* properties of part (e) *)
CwdTypeOK == cnode \in CDirs \cup {"OUT", "ENOENT"}
\* the directory the child is started in is the one the kernel reaches from the caller's directory
\* (for the requests that name a directory of the world; the others cannot be honoured by anybody)
CwdAsRequested == (CwdDone /\ Kernel(ccase) \in CDirs) => cnode = Kernel(ccase)
\* the machine and the function agree (so the emitted table speaks about the machine TLC explored)
CwdMachineIsWalk == ("cwd_lexical" \notin Dev /\ CwdDone) => cnode = Kernel(ccase)
\* neither a trailing slash nor (for an absolute path) where the caller stands makes a difference
CwdSlashIrrelevant == \A sl \in BOOLEAN, s \in CStarts :
    Kernel([ccase EXCEPT !.slash = sl, !.start = IF ccase.abs THEN s ELSE @]) = Kernel(ccase)

-----------------------------------------------------------------------------
Idle10 == /\ case = Idle /\ inp = Idle /\ st = Idle /\ out = Idle /\ cur = Idle
          /\ world = Idle /\ plist = Idle /\ pos = Idle /\ res = Idle /\ crow = Idle
allvars == <<lvars, fs, last, hlook, ccase, cnode, crest>>
HistSpec == /\ HistInit /\ Idle10 /\ ccase = Idle /\ cnode = Idle /\ crest = Idle
            /\ [][HistNext]_allvars
CwdSpec  == /\ CwdInit /\ Idle10 /\ fs = Idle /\ last = Idle /\ hlook = Idle
            /\ [][CwdNext]_allvars

-----------------------------------------------------------------------------
(* table of part (e) for the harness: the cases that name a directory of the world *)
CwdTable ==
  LET cs == SetToSeq({c \in CwdCases : Kernel(c) \in CDirs}) IN
  [n \in 1..Len(cs) |-> [start |-> cs[n].start, abs |-> cs[n].abs, comps |-> cs[n].comps, slash |-> cs[n].slash,
                         want |-> Kernel(cs[n]),
                         lex |-> Lexical(cs[n])]]        \* where textual normalisation would lead (differs: the case tells them apart)
ASSUME Has("LAUNCH_CWD_OUT") => JsonSerialize(IOEnv.LAUNCH_CWD_OUT, CwdTable)
=============================================================================

----------------------------- MODULE MCSendLog -----------------------------
EXTENDS SendLog
AllPayloads  == {"empty", "ascii", "nonascii", "allbytes", "sep", "big"}
ReadAll      == {"ascii", "nonascii", "allbytes", "sep", "big"}
KeysAll      == {"ascii", "nonascii", "sep"}
ListsAll     == {<<>>, <<"ascii">>, <<"nonascii", "sep">>, <<"empty", "allbytes", "big">>}
ControlsAll  == {"letter", "punct"}
ModesAll     == {"bytes", "utf8", "utf16"}
LogCfgsAll   == SUBSET {"all", "read", "send"}
LogCfgsQuick == {{}, {"all"}, {"read"}, {"send"}, {"all", "read", "send"}}
\* reduced alphabet for the whole-history configuration
SmallPayloads == {"empty", "ascii", "nonascii"}
SmallRead     == {"ascii", "nonascii"}
SmallKeys     == {"ascii"}
SmallLists    == {<<>>, <<"nonascii", "ascii">>}
SmallControls == {"letter"}
LogCfgsTwo    == {{"read", "send"}, {"all", "read", "send"}}
LogCfgsOne    == {{"all", "read", "send"}}
\* the environment configuration (Env = TRUE): sends small and larger than every buffer, one class of child output
EnvPayloads   == {"ascii", "big"}
EnvRead       == {"nonascii"}
EnvLists      == {<<"ascii", "big">>}
AwPayloads    == {"ascii"}
AwLists       == {<<"ascii">>}
NoControls    == {}
ModesEnv      == {"bytes", "utf8"}
LogCfgsEnv    == {{"all", "read", "send"}}
LogCfgsEnv2   == {{"all", "read", "send"}, {"read"}, {"all"}}
LogCfgsSmall  == {{}, {"all"}, {"read", "send"}, {"all", "read", "send"}}
=============================================================================

----------------------------- MODULE PatSelfTest ---------------------------
(* Agreement self-test of Pat.tla against Python's re: TLC evaluates, for    *)
(* every text up to MaxLen over {a,b,n} and every pattern form of the        *)
(* library, the naive search result and writes it as JSON; harness/pat.py    *)
(* compares each row with re.search.                                         *)
EXTENDS Pat, Json, IOUtils, TLC, SequencesExt

CONSTANT MaxLen
VARIABLE x

L(w) == [t |-> "lit", w |-> w]
Forms == << L(<<"a">>), L(<<"a","b">>), L(<<"b","a","b">>), L(<<"n">>), L(<<"b","n">>),
            [t |-> "any", n |-> 1], [t |-> "any", n |-> 2], [t |-> "any", n |-> 3],
            [t |-> "end"],
            [t |-> "star", c |-> "a"], [t |-> "star", c |-> "b"],
            [t |-> "plus", c |-> "a"], [t |-> "plus", c |-> "b"],
            [t |-> "alt", w |-> <<"a","b">>, v |-> <<"b">>], [t |-> "alt", w |-> <<"b">>, v |-> <<"b","a">>],
            [t |-> "alt", w |-> <<"a">>, v |-> <<"a","b">>],
            [t |-> "litend", w |-> <<"b">>], [t |-> "litend", w |-> <<"a","b">>], [t |-> "litend", w |-> <<"n">>] >>

Texts == SeqsUpTo({"a", "b", "n"}, MaxLen)
TextSeq == SetToSeq(Texts)
Rows == [i \in 1..Len(TextSeq) |->
           [text |-> TextSeq[i],
            res  |-> [k \in 1..Len(Forms) |-> NaiveSearch(<<Forms[k]>>, TextSeq[i])]]]

ASSUME JsonSerialize(IOEnv.OUT_FILE, [forms |-> Forms, rows |-> Rows])

Init == x = 0
Next == UNCHANGED x
=============================================================================

--------------------------- MODULE ScreenAccessors --------------------------
(* C19, read accessors: TLC evaluates the definitions GetA / GetAbsA /       *)
(* GetRegionA / DumpA / StrA / PrettyA of Screen.tla for *every* grid of the *)
(* configured size and every argument tuple in the argument domain, checks   *)
(* that they agree with each other, and writes the table out.  The harness   *)
(* calls the real accessors in every state of the dumped state graph and     *)
(* compares with this table (harness/checks/screen_ansi.py).                 *)
EXTENDS Screen, Json, IOUtils, SequencesExt

Chars2 == {" ", "x"}
Chars3 == {" ", "x", "y"}

Grids == [RowIdx -> [ColIdx -> Chars]]
WithGrid(g) == [InitState EXCEPT !.grid = g]
AsSeq(g) == [r \in RowIdx |-> [c \in ColIdx |-> g[r][c]]]

RowArgSeq == [i \in 1..(Rows + 2 * Slack) |-> i - Slack]
ColArgSeq == [i \in 1..(Cols + 2 * Slack) |-> i - Slack]

Entry(g) ==
  LET S == WithGrid(g) IN
  [grid    |-> AsSeq(g),
   dump    |-> DumpA(S),
   str     |-> StrA(S),
   pretty  |-> PrettyA(S),
   \* get() for every cursor position
   get     |-> [r \in RowIdx |-> [c \in ColIdx |-> GetA([S EXCEPT !.cur = <<r, c>>])]],
   \* get_abs(r, c) / get_region(rs, cs, re, ce): indexed by the position of the argument in RowArgSeq / ColArgSeq
   get_abs |-> [i \in DOMAIN RowArgSeq |-> [j \in DOMAIN ColArgSeq |-> GetAbsA(S, RowArgSeq[i], ColArgSeq[j])]],
   get_region |-> [i \in DOMAIN RowArgSeq |-> [j \in DOMAIN ColArgSeq |-> [k \in DOMAIN RowArgSeq |-> [m \in DOMAIN ColArgSeq |->
                     GetRegionA(S, RowArgSeq[i], ColArgSeq[j], RowArgSeq[k], ColArgSeq[m])]]]]]

GridSeq == SetToSeq(Grids)
ASSUME \A g \in Grids : AccessorsAgreeS(WithGrid(g))
ASSUME JsonSerialize(IOEnv.OUT_FILE,
         [rows |-> Rows, cols |-> Cols, rowargs |-> RowArgSeq, colargs |-> ColArgSeq,
          table |-> [i \in 1..Len(GridSeq) |-> Entry(GridSeq[i])]])

AccInit == SInit
AccNext == UNCHANGED svars
AccSpec == AccInit /\ [][AccNext]_svars
=============================================================================

----------------------------- MODULE MCScreenB ------------------------------
(* Screen with the length of the operation sequence bounded by an explicit   *)
(* step counter: all sequences of fewer than MaxSteps operations from the    *)
(* blank screen (used for the screens whose full state graph is too large).  *)
EXTENDS MCScreen

CONSTANT MaxSteps
VARIABLE steps

BInit == SInit /\ steps = 0
BNext == SNext /\ steps' = steps + 1
BSpec == BInit /\ [][BNext]_<<svars, steps>>
StepBound == steps < MaxSteps
\* TLC evaluates invariants also on the successors that StepBound cuts off (once per predecessor);
\* the costly ones are asked only of the states that are kept
Inner == steps < MaxSteps
BAccessorsAgree == Inner => AccessorsAgree
BLaws == Inner => Laws
=============================================================================

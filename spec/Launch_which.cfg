SPECIFICATION WhichSpec
CONSTANTS
  LenFor <- MCLenTiny
  Styles <- MCAllStyles
  Seps <- MCAllSeps
  Dev = {}
  MaxDirs = 3
INVARIANT WhichFirstMatch
INVARIANT EnvPathWins
INVARIANT DefaultOnlyWhenNoPath
INVARIANT OnlyExecutables
INVARIANT NothingEarlier
CHECK_DEADLOCK FALSE

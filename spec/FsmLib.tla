------------------------------- MODULE FsmLib --------------------------------
(* pexpect/FSM.py as written: the table-driven finite state machine under the *)
(* ANSI emulator (C18: "per-character FSM with exact > any > default          *)
(* transition precedence").  AnsiFsm.tla models the one table ANSI.py builds;  *)
(* this module models the library itself for EVERY table over a small         *)
(* alphabet: add_transition / add_transition_list / add_transition_any /      *)
(* set_default_transition, get_transition's precedence, process (the action   *)
(* runs while current_state is still the old state and next_state the new     *)
(* one), an undefined transition raising with the state unchanged, reset.     *)
(*                                                                             *)
(* A table entry is a record [act, next]; act "none" = no action, next for an  *)
(* exact / any entry is a state (add_transition* replace next_state=None by    *)
(* the state itself); the default transition's next state is stored as given,  *)
(* so "None" is a possible current state afterwards (as the code does).        *)
EXTENDS Naturals, Sequences, FiniteSets, TLC

CONSTANTS States,        \* e.g. {"s0", "s1"}
          Symbols,       \* e.g. {"x", "y"}
          Acts,          \* action identifiers, e.g. {"a", "b"}
          Initial,       \* initial state
          MaxLen,        \* bound on the number of processed symbols
          Dev            \* "none", or a named deviation for the sensitivity runs: "any_first" (the any-table is
                         \* consulted before the exact one), "late_action" (the action runs after the state changed)

Absent == [act |-> "absent", next |-> "absent"]
ExactEntries == {Absent} \cup [act : Acts \cup {"none"}, next : States]
DefEntries   == {Absent} \cup [act : Acts \cup {"none"}, next : States \cup {"None"}]
AllStates == States \cup {"None"}

VARIABLES exact,      \* [Symbols \X States -> ExactEntries]
          any,        \* [States -> ExactEntries]
          def,        \* DefEntries
          cur,        \* current_state
          inp,        \* input_symbol ("None" after reset / at the start)
          calls,      \* what the actions saw: sequence of <<act, input_symbol, current_state, next_state>>
          raised,     \* the last process() raised ExceptionFSM
          n           \* symbols processed so far

vars == <<exact, any, def, cur, inp, calls, raised, n>>

\* get_transition(sym, st) on a table (ex, an, df): most specific first
LookupIn(ex, an, df, sym, st) ==
  IF Dev = "any_first" /\ st \in States /\ an[st] # Absent THEN [kind |-> "any", e |-> an[st]]
  ELSE IF st \in States /\ sym \in Symbols /\ ex[<<sym, st>>] # Absent THEN [kind |-> "exact", e |-> ex[<<sym, st>>]]
  ELSE IF st \in States /\ an[st] # Absent THEN [kind |-> "any", e |-> an[st]]
  ELSE IF df # Absent THEN [kind |-> "default", e |-> df]
  ELSE [kind |-> "undefined", e |-> Absent]
Lookup(sym, st) == LookupIn(exact, any, def, sym, st)

Init ==
  /\ exact \in [Symbols \X States -> ExactEntries]
  /\ any \in [States -> ExactEntries]
  /\ def \in DefEntries
  /\ cur = Initial /\ inp = "None" /\ calls = <<>> /\ raised = FALSE /\ n = 0

Process(sym) ==
  /\ n < MaxLen
  /\ n' = n + 1
  /\ inp' = sym
  /\ LET t == Lookup(sym, cur) IN
       IF t.kind = "undefined"
       THEN /\ raised' = TRUE /\ UNCHANGED <<cur, calls>>
       ELSE /\ raised' = FALSE
            /\ calls' = IF t.e.act = "none" THEN calls
                        ELSE Append(calls, <<t.e.act, sym, IF Dev = "late_action" THEN t.e.next ELSE cur, t.e.next>>)
            /\ cur' = t.e.next
  /\ UNCHANGED <<exact, any, def>>

Reset ==
  /\ n < MaxLen /\ n' = n + 1
  /\ cur' = Initial /\ inp' = "None" /\ raised' = FALSE
  /\ UNCHANGED <<exact, any, def, calls>>

Next == (\E sym \in Symbols : Process(sym)) \/ Reset
Spec == Init /\ [][Next]_vars

(* ---- properties ---- *)
TypeOK == /\ cur \in AllStates /\ inp \in Symbols \cup {"None"} /\ raised \in BOOLEAN /\ n \in 0..MaxLen
          /\ \A i \in 1..Len(calls) : calls[i][1] \in Acts

\* the transition taken is the most specific one defined (action property on Process steps)
Precedence ==
  [][\A sym \in Symbols : (inp' = sym /\ n' = n + 1 /\ ~(cur' = Initial /\ inp' = "None")) =>
        LET t == Lookup(sym, cur) IN
          /\ (cur \in States /\ exact[<<sym, cur>>] # Absent) => t.kind = "exact"
          /\ (cur \in States /\ exact[<<sym, cur>>] = Absent /\ any[cur] # Absent) => t.kind = "any"
          /\ (t.kind = "undefined") <=> (raised' /\ cur' = cur)]_vars

\* an action runs exactly when the transition names one, and sees the OLD state and the NEW one
ActionSeesBothStates ==
  [][Len(calls') > Len(calls) =>
        LET c == calls'[Len(calls')] IN c[3] = cur /\ c[4] = cur' /\ c[2] = inp']_vars

\* an undefined transition changes nothing but input_symbol
UndefinedChangesNothing == [][raised' => (cur' = cur /\ calls' = calls)]_vars

\* the table is never modified by processing
TableStable == [][exact' = exact /\ any' = any /\ def' = def]_vars

\* once the current state is "None" (a default transition without a target) only the default applies
NoneOnlyDefault == cur = "None" => \A sym \in Symbols : Lookup(sym, cur).kind \in {"default", "undefined"}
=============================================================================

SPECIFICATION SplitSpec
CONSTANTS
  LenFor <- MCLenThorough
  Styles <- MCAllStyles
  Seps <- MCAllSeps
  Dev = {}
  MaxDirs = 1
INVARIANT SplitTypeOK
INVARIANT RoundTrip
INVARIANT PrefixSoFar
INVARIANT EndsOutside
INVARIANT MachineIsSplit
INVARIANT CaseInTable
CHECK_DEADLOCK FALSE

SPECIFICATION ASpec
CONSTANTS
  Rows = 2
  Cols = 2
  Chars <- Chars3
  Slack = 1
  MaxStack = 2
INVARIANT Shape
INVARIANT CursorOnScreen
INVARIANT SavedOnScreen
INVARIANT RegionValid
INVARIANT FsmTypeOK
INVARIANT NoResidue
INVARIANT Total
INVARIANT StackShape
CONSTRAINT StackBound
CHECK_DEADLOCK FALSE

----------------------------- MODULE ExpectTrace ---------------------------
(* Trace specification for C01-C04 (and the matching half of C20, C14):     *)
(* validates, in one TLC run, a batch of traces recorded from the real      *)
(* expect family against the contract ExpectAbs.                            *)
(*                                                                          *)
(* The contract state is driven only by the logged *inputs* (calls, what    *)
(* each read returned); at every `ret` event the observations of the real   *)
(* object (index / exception, before, after, buffer, match_index ...) are   *)
(* compared with (1) the property on the observations alone and (2) the     *)
(* contract's outcome.  Verdicts are total: the first failing clause is     *)
(* named (prefixed with the property it belongs to), the rest of that trace *)
(* is skipped and the batch continues.                                      *)
EXTENDS ExpectAbs, Json, IOUtils, TLC, TLCExt

Traces == JsonDeserialize(IOEnv.TRACE_FILE)

VARIABLES tid,        \* trace being validated
          l,          \* next event
          verdict,    \* "ok" or the name of the first failing clause
          obsHanded,  \* observation history: before+after of every successful call
          rdy,        \* characters that were readable (kernel-held) when the outstanding call started
          recv0,      \* Len(recv) when the outstanding call started
          tbl,        \* run(): response kind of every event, in the order of the event table (<<>>: not inside run())
          owe,        \* run(): the last outcome selected an event whose response (a string) has not been sent yet
          fl0,        \* readlines() / iteration: Len(obsHanded) when the composite call started (-1: none outstanding)
          cmd         \* REPLWrapper: [on, want, acc, intr] - inside run_command: the output the REPL produced for this
                      \* command, the `before`s collected so far, whether SIGINT was sent

tvars == <<recv, pend, handed, eof, phase, call, last, tid, l, verdict, obsHanded, rdy, recv0, tbl, owe, cmd, fl0>>

NoCmd == [on |-> FALSE, want |-> <<>>, acc |-> <<>>, intr |-> FALSE]

Ev == Traces[tid].ev
E  == Ev[l]
Has(e) == l <= Len(Ev) /\ verdict = "ok" /\ E.e = e

Step == l' = l + 1 /\ tid' = tid /\ (IF l <= Len(Ev) /\ E.e \in {"flstart", "fllines"} THEN TRUE ELSE fl0' = fl0)
Fail(v) == verdict' = v /\ UNCHANGED avars
Same == UNCHANGED <<verdict>>

TInit == /\ AInit /\ tid = 1 /\ l = 1 /\ verdict = "ok" /\ obsHanded = <<>> /\ rdy = 0 /\ recv0 = 0 /\ tbl = <<>> /\ owe = FALSE /\ cmd = NoCmd /\ fl0 = -1

\* cs: sequence of <<holds, name>>.  The verdict names every failing clause of the event, first one first, joined by
\* "|": each property's check finds its own clauses even when a clause of another property fails earlier in the list.
RECURSIVE JoinFailing(_, _)
JoinFailing(cs, i) ==
  IF i > Len(cs) THEN ""
  ELSE IF cs[i][1] THEN JoinFailing(cs, i + 1)
  ELSE LET rest == JoinFailing(cs, i + 1) IN IF rest = "" THEN cs[i][2] ELSE cs[i][2] \o "|" \o rest
FirstFailing(cs) ==
  LET bad == {i \in 1..Len(cs) : ~cs[i][1]} IN
  IF bad = {} THEN "ok" ELSE JoinFailing(cs, 1)

TCall ==
  /\ Has("call")
  /\ IF phase # "idle" THEN Fail("harness:call-while-outstanding")
     ELSE IF owe THEN Fail("C12:matched-event-not-answered")
     ELSE IF tbl # <<>> /\ Head(tbl) # "any" /\ Head(tbl) # E.tmo THEN Fail("C12:timeout-argument-not-honoured")
     ELSE Call(E.pats, E.W, E.tmo, E.exact) /\ Same
  /\ rdy' = E.ready /\ recv0' = Len(recv)
  /\ Step /\ UNCHANGED <<obsHanded, tbl, owe, cmd>>

TRead ==
  /\ Has("read")
  /\ IF phase = "loop" /\ ~eof /\ call.tmo # "neg"
     THEN ReadData(E.d) /\ Same
     ELSE Fail(IF phase = "idle" THEN "C03:read-after-contract-returned"
               ELSE IF eof THEN "C04:read-data-after-eof" ELSE "C05:read-with-negative-timeout")
  /\ Step /\ UNCHANGED <<obsHanded, rdy, recv0, tbl, owe, cmd>>

TReadEof ==
  /\ Has("reof")
  /\ IF phase = "loop" /\ call.tmo # "neg"
     THEN ReadEOF /\ Same
     ELSE Fail(IF phase = "idle" THEN "C03:read-after-contract-returned" ELSE "C05:read-with-negative-timeout")
  /\ Step /\ UNCHANGED <<obsHanded, rdy, recv0, tbl, owe, cmd>>

TReadTmo ==
  /\ Has("rtmo")
  /\ IF phase = "loop" /\ call.tmo \notin {"neg"}
     THEN (IF call.tmo = "none" THEN Fail("harness:read-timeout-with-timeout-None") ELSE Timeout /\ Same)
     ELSE Fail(IF phase = "idle" THEN "C03:read-after-contract-returned" ELSE "C05:read-with-negative-timeout")
  /\ Step /\ UNCHANGED <<obsHanded, rdy, recv0, tbl, owe, cmd>>

TReadErr ==
  /\ Has("rerr")
  /\ IF phase = "loop" THEN ReadError /\ Same ELSE Fail("C03:read-after-contract-returned")
  /\ Step /\ UNCHANGED <<obsHanded, rdy, recv0, tbl, owe, cmd>>

TSetBuf ==
  /\ Has("setbuf")
  /\ SetBuffer(E.v) /\ Same
  /\ Step /\ obsHanded' = obsHanded /\ UNCHANGED <<rdy, recv0, tbl, owe, cmd>>

\* asyncio path: a chunk handed to the protocol after the future was resolved or cancelled.
\* If the contract still has the call outstanding, the only explanation is that its deadline fired.
TLate ==
  /\ Has("late")
  /\ IF phase = "loop" /\ call.tmo # "none" /\ Len(recv) - recv0 < rdy
     THEN Fail("C14:readable-data-not-searched-before-timeout")
     ELSE IF phase = "loop" /\ call.tmo # "none"
     THEN /\ last' = [kind |-> "timeout", idx |-> MarkerIndex(call.pats, "TIMEOUT") - 1, before |-> pend \o E.d, after |-> <<>>]
          /\ phase' = "idle" /\ recv' = recv \o E.d /\ pend' = pend \o E.d
          /\ UNCHANGED <<handed, eof, call>> /\ Same
     ELSE IF phase = "idle" /\ ~eof
     THEN /\ LateData(E.d) /\ Same
     ELSE Fail("C14:data-after-eof-or-late-data-without-deadline")
  /\ Step /\ UNCHANGED <<obsHanded, rdy, recv0, tbl, owe, cmd>>

\* The expected outcome at a `ret`: the contract's last outcome, or - when the
\* call's own deadline fired without a read raising TIMEOUT - the Timeout outcome.
DeadlineFired == phase = "loop" /\ E.kind = "timeout" /\ call.tmo # "none"
Exp == IF DeadlineFired
       THEN [kind |-> "timeout", idx |-> MarkerIndex(call.pats, "TIMEOUT") - 1, before |-> pend, after |-> <<>>]
       ELSE IF last.kind = "timeout" THEN [last EXCEPT !.before = pend]      \* all pending text, late arrivals included
       ELSE last

TRet ==
  /\ Has("ret")
  /\ LET x == Exp
         o == E
         marker == IF x.kind = "eof" THEN "EOF" ELSE "TIMEOUT"
         cs == IF phase = "loop" /\ ~DeadlineFired THEN
                 << <<o.kind # "timeout", "C05:timeout-reported-with-timeout-None">>,
                    <<o.kind # "match", "C02:reported-match-not-found-by-naive-search">>,
                    <<FALSE, "C03:returned-before-contract">> >>
               ELSE IF x.kind = "match" THEN
                 << <<o.kind = "match", "C03:missed-match-contract-found-one">>,
                    <<obsHanded \o o.before \o o.after \o o.buffer = recv, "C01:accounting-after-match">>,
                    <<o.idx = x.idx, "C02:index">>,
                    <<o.after = x.after, "C02:after">>,
                    <<o.before = x.before, "C02:before-does-not-end-at-occurrence">>,
                    <<o.buffer = pend, "C01:pending-after-match">>,
                    <<o.mi = x.idx, "C02:match_index">>,
                    <<o.mok, "C02:match-object">>,
                    <<o.raised = "", "C02:raised-on-match">> >>
               ELSE IF x.kind \in {"eof", "timeout"} THEN
                 << <<o.kind = x.kind, "C04:outcome-kind">>,
                    <<obsHanded \o o.before = recv, "C01:accounting-at-" \o x.kind>>,
                    <<o.before = x.before, "C04:before-is-all-pending">>,
                    <<o.afterk = marker, "C04:after-is-marker-class">>,
                    <<o.idx = x.idx, "C04:marker-index">>,
                    <<x.idx >= 0 => (o.raised = "" /\ o.mi = x.idx /\ o.mk = marker), "C04:listed-marker-returns-index">>,
                    <<x.idx < 0 => (o.raised = marker /\ o.mi = -1 /\ o.mk = "None"), "C04:unlisted-marker-raises-exact-class">>,
                    <<x.kind = "eof" => o.buffer = <<>>, "C04:pending-cleared-after-eof">>,
                    <<x.kind = "timeout" => IsSuffixOf(o.buffer, o.before), "C01:timeout-buffer-not-suffix-of-pending">>,
                    <<(x.kind = "timeout" /\ call.tmo \in {"zero", "pos"}) => Len(recv) - recv0 >= rdy,
                      "C14:timeout-although-data-was-readable">> >>
               ELSE IF x.kind = "error" THEN
                 << <<o.kind = "error", "C04:outcome-kind">>,
                    <<o.before = x.before, "C01:error-consumed-text">> >>
               ELSE << <<FALSE, "harness:ret-without-call">> >>
         v == FirstFailing(cs)
     IN /\ verdict' = v
        /\ IF DeadlineFired /\ v = "ok"
           THEN /\ last' = x /\ phase' = "idle"
                /\ UNCHANGED <<recv, pend, handed, eof, call>>
           ELSE UNCHANGED avars
        /\ obsHanded' = IF o.kind = "match" THEN obsHanded \o o.before \o o.after
                        ELSE IF o.kind = "eof" THEN obsHanded \o o.before ELSE obsHanded
  /\ owe' = (tbl # <<>> /\ E.idx >= 0 /\ E.idx + 1 < Len(tbl) /\ tbl[E.idx + 2] \in {"str", "cb_str"})
  /\ cmd' = IF cmd.on /\ E.kind = "match" THEN [cmd EXCEPT !.acc = cmd.acc \o E.before] ELSE cmd
  /\ Step /\ UNCHANGED <<rdy, recv0, tbl>>

(* ---- run(): the loop around expect (C12) ------------------------------------------------- *)
TRunStart ==
  /\ Has("run")
  /\ tbl' = <<E.tmo_req>> \o E.resp /\ owe' = FALSE /\ Same      \* first element: the timeout class run() was asked for
  /\ Step /\ UNCHANGED <<avars, obsHanded, rdy, recv0, cmd>>

\* a response was written to the child: exactly one per occurrence of an event whose response is a string
TSend ==
  /\ Has("send")
  /\ verdict' = FirstFailing(<< <<tbl # <<>>, "harness:send-outside-run">>,
                                <<owe, "C12:response-sent-twice-or-without-occurrence">>,
                                <<E.idx = last.idx, "C12:response-of-another-event">> >>)
  /\ owe' = FALSE
  /\ Step /\ UNCHANGED <<avars, obsHanded, rdy, recv0, tbl, cmd>>

\* a callback ran: for the event that was just selected, with the state dictionary
TCb ==
  /\ Has("cb")
  /\ verdict' = FirstFailing(<< <<E.idx = last.idx, "C12:callback-of-another-event">>,
                                <<E.dict_ok, "C12:callback-without-state-dictionary">> >>)
  /\ Step /\ UNCHANGED <<avars, obsHanded, rdy, recv0, tbl, owe, cmd>>

\* run() returned: the child's whole output up to the stop point, each piece once
TRunRet ==
  /\ Has("runret")
  /\ LET want == obsHanded \o (IF last.kind = "timeout" THEN pend ELSE <<>>) IN
     verdict' = FirstFailing(<< <<~owe, "C12:matched-event-not-answered">>,
                                <<E.result = want, "C12:output-not-exactly-once">>,
                                <<E.order_ok, "C12:event-priority-order">> >>)
  /\ tbl' = <<>> /\ owe' = FALSE
  /\ Step /\ UNCHANGED <<avars, obsHanded, rdy, recv0, cmd>>

(* ---- REPLWrapper.run_command (C16) ----------------------------------------------------------- *)
\* a command is submitted; E.out is the output the REPL will produce for it (known by construction)
TCmd ==
  /\ Has("cmd")
  /\ cmd' = [on |-> TRUE, want |-> E.out, acc |-> <<>>, intr |-> FALSE] /\ Same
  /\ Step /\ UNCHANGED <<avars, obsHanded, rdy, recv0, tbl, owe>>

TKill ==
  /\ Has("kill")
  /\ cmd' = [cmd EXCEPT !.intr = TRUE] /\ Same
  /\ Step /\ UNCHANGED <<avars, obsHanded, rdy, recv0, tbl, owe>>

\* run_command returned (or raised)
TCmdRet ==
  /\ Has("cmdret")
  /\ verdict' = FirstFailing(
        IF E.incomplete THEN
           << <<E.raised = "ValueError", "C16:incomplete-input-does-not-raise-ValueError">>,
              <<cmd.intr, "C16:incomplete-input-not-cancelled">>,
              <<pend = <<>>, "C16:text-left-pending-after-cancelled-command">> >>
        ELSE
           << <<E.raised = "", "C16:complete-command-raised">>,
              <<E.val = cmd.acc, "C16:return-value-is-not-the-text-before-the-prompts">>,
              <<E.val = cmd.want, "C16:not-exactly-the-command's-own-output">>,
              <<pend = <<>>, "C16:text-left-pending-after-command">> >>)
  /\ cmd' = NoCmd
  /\ Step /\ UNCHANGED <<avars, obsHanded, rdy, recv0, tbl, owe>>

\* file-like entry points are derived calls: their return value is a function of the outcome
TFlRet ==
  /\ Has("flret")
  /\ LET want == CASE E.fn = "read_all" -> last.before
                   [] E.fn = "read_n"   -> IF last.kind = "match" THEN last.after ELSE last.before
                   [] E.fn = "readline" -> IF last.kind = "match" THEN last.before \o last.after ELSE last.before
                   [] OTHER -> <<>>
     IN verdict' = IF E.val = want THEN "ok" ELSE "C01:file-like-return-value"
  /\ Step /\ UNCHANGED <<avars, obsHanded, rdy, recv0, tbl, owe, cmd>>

\* readlines() and iteration are loops of readline(): the lines returned, concatenated, are exactly what
\* those calls handed back; every line but the last ends with the line separator; none is empty
TFlStart ==
  /\ Has("flstart")
  /\ fl0' = Len(obsHanded) /\ Same
  /\ Step /\ UNCHANGED <<avars, obsHanded, rdy, recv0, tbl, owe, cmd>>

TFlLines ==
  /\ Has("fllines")
  /\ LET got == Flatten(E.lines)
         n == Len(E.lines)
     IN verdict' = FirstFailing(<<
          <<fl0 >= 0, "harness:fllines-without-flstart">>,
          <<got = Drop(obsHanded, fl0), "C01:readlines-iteration-lost-or-duplicated-text">>,
          <<\A i \in 1..n : E.lines[i] # <<>>, "C01:readlines-returned-an-empty-line">>,
          <<\A i \in 1..(n - 1) : IsSuffixOf(E.sep, E.lines[i]), "C01:line-does-not-end-with-the-separator">> >>)
  /\ fl0' = -1
  /\ Step /\ UNCHANGED <<avars, obsHanded, rdy, recv0, tbl, owe, cmd>>

\* the contract's own invariants are evaluated after every event (they hold by
\* construction: a violation here is a bug of the specification, status 2)

TNextTrace ==
  /\ (l > Len(Ev) \/ verdict # "ok")
  /\ PrintT(<<"VERDICT", tid, Traces[tid].id, verdict, l>>)
  /\ tid < Len(Traces)
  /\ tid' = tid + 1 /\ l' = 1 /\ verdict' = "ok" /\ obsHanded' = <<>> /\ rdy' = 0 /\ recv0' = 0 /\ tbl' = <<>> /\ owe' = FALSE /\ cmd' = NoCmd /\ fl0' = -1
  /\ recv' = <<>> /\ pend' = <<>> /\ handed' = <<>> /\ eof' = FALSE
  /\ phase' = "idle" /\ call' = NoCall /\ last' = NoOutcome

TNext == TCall \/ TFlStart \/ TFlLines \/ TCmd \/ TKill \/ TCmdRet \/ TRunStart \/ TSend \/ TCb \/ TRunRet \/ TLate \/ TRead \/ TReadEof \/ TReadTmo \/ TReadErr \/ TSetBuf \/ TRet \/ TFlRet \/ TNextTrace

TraceSpec == TInit /\ [][TNext]_tvars

\* `handed` is driven by the contract, obsHanded by what the real object reported
ObsAgree == verdict = "ok" /\ phase = "idle" => TRUE
=============================================================================

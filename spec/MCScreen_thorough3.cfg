SPECIFICATION SSpec
CONSTANTS
  Rows = 3
  Cols = 4
  Chars <- Chars3
  Slack = 1
  MaxLevel = 3
INVARIANT Shape
INVARIANT CursorOnScreen
INVARIANT SavedOnScreen
INVARIANT RegionValid
INVARIANT AccessorsAgree
CONSTRAINT LevelBound
CHECK_DEADLOCK FALSE

SPECIFICATION BSpec
CONSTANTS
  Rows = 3
  Cols = 4
  Chars <- Chars3
  Slack = 1
  MaxLevel = 0
  MaxSteps = 3
INVARIANT Shape
INVARIANT CursorOnScreen
INVARIANT SavedOnScreen
INVARIANT RegionValid
INVARIANT BAccessorsAgree
INVARIANT BLaws
CONSTRAINT StepBound
CHECK_DEADLOCK FALSE

SPECIFICATION Spec
CONSTANTS
  States = {"s0", "s1"}
  Symbols = {"x", "y"}
  Acts = {"a"}
  Initial = "s0"
  MaxLen = 2
  Dev = "none"
INVARIANT TypeOK
INVARIANT NoneOnlyDefault
PROPERTY Precedence
PROPERTY ActionSeesBothStates
PROPERTY UndefinedChangesNothing
PROPERTY TableStable
CHECK_DEADLOCK FALSE

SPECIFICATION RunSpec
CONSTANTS
  Alphabet = {"a", "b"}
  MaxChunk = 2
  Programs <- MCPrograms
  EventTables <- MCTables
  RunDevs = {}
INVARIANT Conservation
INVARIANT CollectedOnce
INVARIANT ReturnsWholeOutput
INVARIANT AnsweredOnce
CHECK_DEADLOCK FALSE
CONSTRAINT ResultBound

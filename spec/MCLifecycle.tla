----------------------------- MODULE MCLifecycle -----------------------------
EXTENDS Lifecycle
\* constants that a cfg file cannot hold / convenient bundles
TrAll      == {"pty", "popen", "fd", "socket"}
DispsAll   == {"default", "ignore", "core"}
CodesMC    == {0, 3}
ExtSigsMC  == {3, 9, 18, 19}          \* QUIT (fatal, ignorable by nobody here, dumps core when the child may), KILL,
                                      \* CONT (ChildContinues), STOP (ChildStops)
LogsMC     == {"open"}                \* "none" = the behaviours in which LogCloses never happens
KillSigsQ  == {1, 9, 18}              \* HUP, KILL, CONT
KillSigsT  == {1, 2, 9, 15, 18, 19}
NoDevs     == {}
DevStale   == {"stale-after-failed-close"}
DevPopen   == {"popen-status-unset"}
DevSocket  == {"socket-close-raises"}
DevNoRefresh == {"close-no-refresh"}
DevNoRecheck == {"no-recheck-after-kill"}
DevCoreBit == {"signal-with-core-bit"}
DevSwallow == {"wait-swallows-echild"}
DevFlush   == {"close-flushes-logs"}
=============================================================================

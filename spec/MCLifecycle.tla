----------------------------- MODULE MCLifecycle -----------------------------
EXTENDS Lifecycle
\* constants that a cfg file cannot hold / convenient bundles
TrAll      == {"pty", "popen", "fd", "socket"}
DispsAll   == {"default", "ignore"}
CodesMC    == {0, 3}
ExtSigsMC  == {9, 15, 18, 19}         \* KILL, TERM, CONT (ChildContinues), STOP (ChildStops)
KillSigsQ  == {1, 9, 18}              \* HUP, KILL, CONT
KillSigsT  == {1, 2, 9, 15, 18, 19}
NoDevs     == {}
DevStale   == {"stale-after-failed-close"}
DevPopen   == {"popen-status-unset"}
DevSocket  == {"socket-close-raises"}
DevNoRefresh == {"close-no-refresh"}
DevNoRecheck == {"no-recheck-after-kill"}
=============================================================================

---------------------------- MODULE MCLaunchHist ----------------------------
(* bounds of LaunchHist.tla that a cfg file cannot hold                     *)
EXTENDS LaunchHist

\* the history / cwd runs do not look at the split bound
MCLenTiny   == <<1, 0, 0>>
MCAllStyles == AllStyles
MCAllSeps   == AllSeps
=============================================================================

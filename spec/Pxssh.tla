-------------------------------- MODULE Pxssh --------------------------------
(* C17: pxssh.login() as written (the two-phase decision procedure, the      *)
(* original-prompt synchronisation and set_unique_prompt) against a reactive *)
(* ssh server, at the level of dialogue tokens.                              *)
(*                                                                          *)
(* Server: a list of pre-login stages, then a final state.  Tokens it prints *)
(* are matched by the client's pattern arrays; a banner containing '$'/'#'  *)
(* looks like a prompt to the default original_prompt.  TLC explores every   *)
(* server configuration in the bound x login options and checks that secrets *)
(* are sent only when asked, "yes" only to the host-key question, True only  *)
(* at a shell prompt (with the unique prompt set when reset is enabled), and *)
(* that every other dialogue ends in a pexpect exception.                    *)
EXTENDS Naturals, Integers, Sequences, FiniteSets, TLC

CONSTANTS StageSets,     \* set of stage sequences
          Finals,        \* {"shell_sh", "shell_csh", "shell_zsh", "silent", "closed", "exit"}
          Devs           \* named deviations of the code as it is: "silent_success" (a TIMEOUT in phase 2 is taken for a
                         \* prompt), "banner_is_prompt" (the default original_prompt [#$] matches any text with # or $)

VARIABLES stages, stages0, final, sync, reset,         \* configuration (stages0: as configured; stages: not yet entered)
          sstate, sprompt, attempts, out, seof,   \* server: state, prompt kind, failed password attempts, printed tokens, end of stream
          pc, idx, sent, result, a, b, nsync, lastSrv

vars == <<stages, stages0, final, sync, reset, sstate, sprompt, attempts, out, seof, pc, idx, sent, result, a, b, nsync, lastSrv>>

(* ---- server -------------------------------------------------------------------------------- *)
\* entering the next stage prints its token(s): returns <<state, prompt, out, eof, remaining stages>>
RECURSIVE Enter(_, _, _)
Enter(stg, fin, o) ==
  IF stg # <<>> THEN
     IF Head(stg) = "banner" THEN Enter(Tail(stg), fin, Append(o, "banner"))
     ELSE IF Head(stg) = "denied" THEN <<"gone", "none", o \o <<"denied_final", "closed">>, TRUE, <<>>>>
     ELSE <<Head(stg), "none", Append(o, Head(stg)), FALSE, Tail(stg)>>
  ELSE IF fin \in {"shell_sh", "shell_csh", "shell_zsh"} THEN <<fin, "orig", Append(o, "prompt_orig"), FALSE, <<>>>>
  ELSE IF fin = "silent" THEN <<"silent", "none", o, FALSE, <<>>>>
  ELSE IF fin = "closed" THEN <<"gone", "none", Append(o, "closed"), TRUE, <<>>>>
  ELSE <<"gone", "none", o, TRUE, <<>>>>

Init == /\ stages0 \in StageSets /\ stages = Enter(stages0, "exit", <<>>)[5] /\ final \in Finals /\ sync \in BOOLEAN /\ reset \in BOOLEAN
        /\ LET e == Enter(stages0, final, <<>>) IN
           /\ sstate = e[1] /\ sprompt = e[2] /\ out = e[3] /\ seof = e[4]
        /\ attempts = 0 /\ pc = "expect1" /\ idx = -1 /\ sent = <<>> /\ result = "none"
        /\ a = <<>> /\ b = <<>> /\ nsync = 0 /\ lastSrv = "none"

Rest == LET e == Enter(stages, final, <<>>) IN e[5]     \* (stages not yet entered are tracked in `stages`)

\* the client sends one line of kind k; the server reacts
PromptTok == IF sprompt = "unique" THEN "prompt_unique" ELSE IF sprompt = "zshraw" THEN "prompt_zshraw" ELSE "prompt_orig"
ServerReact(k) ==
  CASE sstate = "hostkey" ->
         IF k = "yes" THEN LET e == Enter(stages, final, out) IN
              /\ sstate' = e[1] /\ sprompt' = e[2] /\ out' = e[3] /\ seof' = e[4] /\ stages' = e[5] /\ UNCHANGED attempts
         ELSE out' = Append(out, "yesno") /\ UNCHANGED <<sstate, sprompt, seof, stages, attempts>>
    [] sstate \in {"password", "passphrase"} ->
         IF k = "password" THEN LET e == Enter(stages, final, out) IN
              /\ sstate' = e[1] /\ sprompt' = e[2] /\ out' = e[3] /\ seof' = e[4] /\ stages' = e[5] /\ UNCHANGED attempts
         ELSE IF attempts + 1 >= 3
              THEN /\ out' = out \o <<"denied_final", "closed">> /\ sstate' = "gone" /\ seof' = TRUE
                   /\ attempts' = attempts + 1 /\ UNCHANGED <<sprompt, stages>>
              ELSE /\ out' = out \o <<"denied", sstate>> /\ attempts' = attempts + 1 /\ UNCHANGED <<sstate, sprompt, seof, stages>>
    [] sstate = "termtype" ->
         LET e == Enter(stages, final, out) IN
              /\ sstate' = e[1] /\ sprompt' = e[2] /\ out' = e[3] /\ seof' = e[4] /\ stages' = e[5] /\ UNCHANGED attempts
    [] sstate \in {"shell_sh", "shell_csh", "shell_zsh"} ->
         LET np == IF k = "ps1_sh" /\ sstate = "shell_sh" THEN "unique"
                   ELSE IF k = "ps1_sh" /\ sstate = "shell_zsh" THEN "zshraw"
                   ELSE IF k = "ps1_csh" /\ sstate = "shell_csh" THEN "unique"
                   ELSE IF k = "ps1_zsh" /\ sstate = "shell_zsh" THEN "unique"
                   ELSE sprompt
             tok == IF np = "unique" THEN "prompt_unique" ELSE IF np = "zshraw" THEN "prompt_zshraw" ELSE "prompt_orig"
             noise == IF k = "ps1_sh" /\ sstate = "shell_csh" THEN <<"noise">> ELSE <<>>
         IN /\ sprompt' = np /\ out' = out \o noise \o <<tok>> /\ UNCHANGED <<sstate, seof, stages, attempts>>
    [] OTHER -> UNCHANGED <<sstate, sprompt, out, seof, stages, attempts>>

Send(k) == /\ sent' = Append(sent, [k |-> k, at |-> sstate, after |-> lastSrv]) /\ ServerReact(k)

(* ---- client: expect over the token stream ---------------------------------------------------- *)
\* which entry of session_regex_array (0..5; 6, 7 only in the first array) a token matches, -1: none
TokIndex(t, first) ==
  CASE t = "hostkey" -> 0
    [] t \in {"prompt_orig", "prompt_unique", "prompt_zshraw"} -> 1
    [] t = "banner" -> IF "banner_is_prompt" \in Devs THEN 1 ELSE -1      \* [#$] also matches a banner with $ or #
    [] t \in {"password", "passphrase"} -> 2
    [] t \in {"denied", "denied_final"} -> 3
    [] t = "termtype" -> 4
    [] t = "closed" -> IF first THEN 6 ELSE -1
    [] OTHER -> -1

\* result of expect(): <<index, remaining tokens, last token consumed>>; 5 = TIMEOUT, 7 = EOF (first array), -7 = EOF raised
RECURSIVE Scan(_, _, _)
Scan(o, first, lastTok) ==
  IF o = <<>> THEN (IF seof THEN <<(IF first THEN 7 ELSE -7), <<>>, lastTok>> ELSE <<5, <<>>, lastTok>>)
  ELSE IF TokIndex(Head(o), first) >= 0 THEN <<TokIndex(Head(o), first), Tail(o), Head(o)>>
  ELSE Scan(Tail(o), first, Head(o))

DoExpect(first, next) ==
  LET r == Scan(out, first, lastSrv) IN
  /\ idx' = r[1]
  /\ out' = (IF r[1] = 5 THEN <<>> ELSE r[2])      \* on TIMEOUT everything read stays pending; nothing in it matches: dropped here
  /\ lastSrv' = r[3]
  /\ pc' = (IF r[1] = -7 THEN "eofraise" ELSE next) /\ UNCHANGED result
  /\ UNCHANGED <<stages, stages0, final, sync, reset, sstate, sprompt, attempts, seof, sent, a, b, nsync>>

Expect1 == pc = "expect1" /\ DoExpect(TRUE, "phase1a")

\* first phase: each answer at most once, in this order
Phase1(step, trigger, answer, next) ==
  /\ pc = step
  /\ IF idx = trigger
     THEN /\ Send(answer) /\ pc' = next \o "_x" /\ UNCHANGED <<idx, lastSrv, result>>
     ELSE /\ pc' = next /\ UNCHANGED <<stages, sstate, sprompt, attempts, out, seof, sent, idx, lastSrv, result>>
  /\ UNCHANGED <<stages0, final, sync, reset, a, b, nsync>>

P1a  == Phase1("phase1a", 0, "yes", "phase1b")
P1ax == pc = "phase1b_x" /\ DoExpect(FALSE, "phase1b")
P1b  == Phase1("phase1b", 2, "password", "phase1c")
P1bx == pc = "phase1c_x" /\ DoExpect(FALSE, "phase1c")
P1c  == Phase1("phase1c", 4, "termtype", "phase2")
P1cx == pc = "phase2_x" /\ DoExpect(FALSE, "phase2")

Finish(r) == /\ pc' = "done" /\ result' = r
             /\ PrintT(<<"FINAL", stages0, final, sync, reset, r, [i \in 1..Len(sent) |-> sent[i].k]>>)
             /\ UNCHANGED <<stages, stages0, final, sync, reset, sstate, sprompt, attempts, out, seof, idx, sent, a, b, nsync, lastSrv>>

Phase2 ==
  /\ pc = "phase2"
  /\ IF idx = 7 THEN Finish("raise_Pxssh")
     ELSE IF idx \in {0, 2, 3, 4, 6} THEN Finish("raise_Pxssh")
     ELSE IF idx = 5 /\ "silent_success" \notin Devs THEN Finish("raise_Pxssh")
     ELSE \* 1 (prompt) or 5 (TIMEOUT: "presume we are at the prompt")
          /\ pc' = IF sync THEN "sync" ELSE IF reset THEN "setprompt" ELSE "success"
          /\ UNCHANGED <<stages, stages0, final, sync, reset, sstate, sprompt, attempts, out, seof, idx, sent, result, a, b, nsync, lastSrv>>

\* sync_original_prompt: four empty lines; the responses to the last two must be non-empty and alike
Sync ==
  /\ pc = "sync"
  /\ IF nsync < 4 THEN
        /\ Send("newline") /\ nsync' = nsync + 1 /\ pc' = "syncread"
        /\ UNCHANGED <<stages0, final, sync, reset, idx, result, a, b, lastSrv>>
     ELSE IF a # <<>> /\ a = b
          THEN /\ pc' = (IF reset THEN "setprompt" ELSE "success")
               /\ UNCHANGED <<stages, stages0, final, sync, reset, sstate, sprompt, attempts, out, seof, idx, sent, result, a, b, nsync, lastSrv>>
          ELSE Finish("raise_Pxssh")
SyncRead ==     \* try_read_prompt: everything printed so far
  /\ pc = "syncread"
  /\ a' = b /\ b' = out /\ out' = <<>>
  /\ pc' = (IF seof THEN "eofraise" ELSE "sync")        \* only TIMEOUT ends try_read_prompt quietly; EOF propagates
  /\ lastSrv' = IF out = <<>> THEN lastSrv ELSE out[Len(out)]
  /\ UNCHANGED <<stages, stages0, final, sync, reset, sstate, sprompt, attempts, seof, idx, sent, result, nsync>>

\* set_unique_prompt: unset PROMPT_COMMAND; sh style, csh style, zsh style - each followed by expect([TIMEOUT, PROMPT], 10)
HasUnique(o) == \E i \in 1..Len(o) : o[i] = "prompt_unique"
SetPrompt(step, answer, next) ==
  /\ pc = step
  /\ Send(answer) /\ pc' = step \o "_e"
  /\ UNCHANGED <<stages0, final, sync, reset, idx, result, a, b, nsync, lastSrv>>
SetPromptE(step, next) ==
  /\ pc = step \o "_e"
  /\ IF HasUnique(out) THEN /\ pc' = "success" /\ out' = <<>> /\ lastSrv' = "prompt_unique"
     ELSE IF seof THEN /\ pc' = "eofraise" /\ out' = <<>> /\ UNCHANGED lastSrv
     ELSE /\ pc' = next /\ out' = <<>> /\ lastSrv' = (IF out = <<>> THEN lastSrv ELSE out[Len(out)])
  /\ UNCHANGED <<stages, stages0, final, sync, reset, sstate, sprompt, attempts, seof, idx, sent, result, a, b, nsync>>
SP0 == SetPrompt("setprompt", "unset", "sp_sh") /\ TRUE
SP0e == pc = "setprompt_e" /\ pc' = "sp_sh" /\ UNCHANGED <<stages, stages0, final, sync, reset, sstate, sprompt, attempts, out, seof, idx, sent, result, a, b, nsync, lastSrv>>
SP1 == SetPrompt("sp_sh", "ps1_sh", "sp_csh")
SP1e == SetPromptE("sp_sh", "sp_csh")
SP2 == SetPrompt("sp_csh", "ps1_csh", "sp_zsh")
SP2e == SetPromptE("sp_csh", "sp_zsh")
SP3 == SetPrompt("sp_zsh", "ps1_zsh", "sp_fail")
SP3e == SetPromptE("sp_zsh", "sp_fail")
SPFail == pc = "sp_fail" /\ Finish("raise_Pxssh")
Success == pc = "success" /\ Finish("True")
EofRaise == pc = "eofraise" /\ Finish("raise_EOF")

Next == Expect1 \/ P1a \/ P1ax \/ P1b \/ P1bx \/ P1c \/ P1cx \/ Phase2 \/ Sync \/ SyncRead
        \/ SP0 \/ SP0e \/ SP1 \/ SP1e \/ SP2 \/ SP2e \/ SP3 \/ SP3e \/ SPFail \/ Success \/ EofRaise
Spec == Init /\ [][Next]_vars

(* ---- C17 ------------------------------------------------------------------------------------ *)
PasswordOnlyWhenAsked ==
  \A i \in 1..Len(sent) : sent[i].k = "password" => (sent[i].at \in {"password", "passphrase"} /\ sent[i].after \in {"password", "passphrase"})
PasswordAtMostOnce == Cardinality({i \in 1..Len(sent) : sent[i].k = "password"}) <= 1
YesOnlyToHostKey == \A i \in 1..Len(sent) : sent[i].k = "yes" => (sent[i].at = "hostkey" /\ sent[i].after = "hostkey")
TrueOnlyAtPrompt ==
  result = "True" => (sstate \in {"shell_sh", "shell_csh", "shell_zsh"} /\ (reset => sprompt = "unique"))
OtherwiseRaises == pc = "done" => result \in {"True", "raise_Pxssh", "raise_EOF", "raise_TIMEOUT"}
=============================================================================

SPECIFICATION Spec
CONSTANTS
  Alphabet = {"a", "b", "n"}
  MaxChunk = 3
  MaxStream = 6
  MaxRead = 3
  MaxCalls = 4
  PatLists <- MCPatLists
  Windows = {0, 1, 2, 3, 5}
  Tmos = {"pos", "neg", "zero", "none"}
  SetBufs <- MCSetBufs
  Devs = {}
INVARIANT Conservation
INVARIANT Genuine
INVARIANT Leftmost
INVARIANT LowestIndex
INVARIANT NoMissed
INVARIANT EofClears
INVARIANT MarkerIdx
INVARIANT BufSuffix
INVARIANT BufLongEnough
PROPERTY RefinesAbs
CHECK_DEADLOCK FALSE

---------------------------- MODULE PatternForms ---------------------------
(* C20: the decision table of SpawnBase.compile_pattern_list /              *)
(* _coerce_expect_string / _coerce_expect_re / expect_exact.prepare_pattern *)
(* as the property states it.  A row is one way of handing one pattern to   *)
(* one entry point; Meaning(row) says what must happen:                     *)
(*   [k |-> "accept", flags |-> F, literal |-> BOOLEAN]  search with the    *)
(*        native pattern text under exactly the flag set F (literal: plain  *)
(*        string search), or                                                *)
(*   [k |-> "marker"]    the EOF / TIMEOUT entry is kept as such, or        *)
(*   [k |-> "reject"]    TypeError before any child output is consumed.     *)
(* TLC enumerates every row (one initial state each), checks the table's    *)
(* own consistency properties and writes it out; harness/checks/c20.py runs *)
(* one implementation test per row.                                         *)
EXTENDS Naturals, FiniteSets, Sequences, TLC, Json, IOUtils, SequencesExt

Modes   == {"bytes", "unicode"}
Entries == {"expect_single", "expect_list1", "compile_then_expect_list", "exact_single", "exact_list1"}
StrForms      == {"native_str", "other_str"}
CompiledForms == {"compiled_native", "compiled_other"}
MarkerForms   == {"EOF", "TIMEOUT"}
BadForms      == {"int", "float", "none_in_list", "nested_list"}
Forms == StrForms \cup CompiledForms \cup MarkerForms \cup BadForms

\* regex flags: I(GNORECASE) M(ULTILINE) X (VERBOSE) S (DOTALL) A(SCII)
FlagSets == { {}, {"I"}, {"M"}, {"X"}, {"S"}, {"A"}, {"I", "M"}, {"I", "S", "X"} }

Rows == { r \in [mode : Modes, ic : BOOLEAN, form : Forms, flags : FlagSets, entry : Entries] :
            /\ (r.form \notin CompiledForms => r.flags = {})       \* only compiled forms carry flags
            /\ (r.form \in {"none_in_list", "nested_list"} => r.entry \notin {"expect_single", "exact_single"}) }

IsExact(r) == r.entry \in {"exact_single", "exact_list1"}

Meaning(r) ==
  IF r.form \in MarkerForms THEN [k |-> "marker"]
  ELSE IF r.form \in BadForms THEN [k |-> "reject"]
  ELSE IF r.form = "other_str" /\ r.mode = "unicode" THEN [k |-> "reject"]    \* bytes given to a unicode object
  ELSE IF IsExact(r) THEN
       IF r.form \in StrForms THEN [k |-> "accept", flags |-> {}, literal |-> TRUE]
       ELSE [k |-> "reject"]                                                   \* compiled regex to expect_exact
  ELSE IF r.form \in StrForms
       THEN [k |-> "accept", flags |-> {"S"} \cup (IF r.ic THEN {"I"} ELSE {}), literal |-> FALSE]
       ELSE [k |-> "accept", flags |-> r.flags, literal |-> FALSE]             \* own flags honoured, ic not applied

VARIABLE row
Init == row \in Rows
Next == UNCHANGED row
Spec == Init /\ [][Next]_row

(* consistency of the table itself *)
\* every accepted string form of one entry point / mode / ignorecase means the same
SameMeaningStrings ==
  \A r2 \in Rows : (/\ r2.mode = row.mode /\ r2.ic = row.ic /\ r2.entry = row.entry
                    /\ row.form \in StrForms /\ r2.form \in StrForms
                    /\ Meaning(row).k = "accept" /\ Meaning(r2).k = "accept") => Meaning(row) = Meaning(r2)
\* a compiled pattern means the same whichever string type it was compiled from
SameMeaningCompiled ==
  \A r2 \in Rows : (/\ r2.mode = row.mode /\ r2.entry = row.entry /\ r2.flags = row.flags
                    /\ row.form \in CompiledForms /\ r2.form \in CompiledForms) => Meaning(row) = Meaning(r2)
\* a single pattern is equivalent to a one-element list
SingleIsList ==
  \A r2 \in Rows : (/\ r2.mode = row.mode /\ r2.ic = row.ic /\ r2.form = row.form /\ r2.flags = row.flags
                    /\ {row.entry, r2.entry} \in {{"expect_single", "expect_list1"}, {"exact_single", "exact_list1"},
                                                   {"expect_list1", "compile_then_expect_list"}}) => Meaning(row) = Meaning(r2)
\* string patterns always get DOTALL, and IGNORECASE exactly when ignorecase is set
StringFlags ==
  (row.form \in StrForms /\ ~IsExact(row) /\ Meaning(row).k = "accept")
     => ("S" \in Meaning(row).flags /\ (("I" \in Meaning(row).flags) <=> row.ic))

RowSeq == SetToSeq(Rows)
ASSUME JsonSerialize(IOEnv.OUT_FILE,
         [i \in 1..Len(RowSeq) |-> [row |-> [mode |-> RowSeq[i].mode, ic |-> RowSeq[i].ic, form |-> RowSeq[i].form,
                                              flags |-> SetToSeq(RowSeq[i].flags), entry |-> RowSeq[i].entry],
                                    want |-> IF Meaning(RowSeq[i]).k = "accept"
                                             THEN [k |-> "accept", flags |-> SetToSeq(Meaning(RowSeq[i]).flags),
                                                   literal |-> Meaning(RowSeq[i]).literal]
                                             ELSE [k |-> Meaning(RowSeq[i]).k, flags |-> <<>>, literal |-> FALSE]]])
=============================================================================

------------------------------- MODULE FdRead -------------------------------
(* pexpect.fdpexpect.fdspawn.read_nonblocking as written (select/poll with    *)
(* timeout, then SpawnBase.read_nonblocking = one os.read), against a pipe /  *)
(* pty / socket descriptor whose peer writes and closes at any moment.        *)
(* Same contract and same replay machinery as PtyRead.                        *)
(* The peer of a TCP socket may also send urgent (out-of-band) data: an       *)
(* exceptional condition is then pending on the descriptor and nothing is     *)
(* readable - the one way a peer can wake a waiting select()/poll() without   *)
(* data.  The code as written waits for readability only (select() with an    *)
(* empty exceptional set), so the condition changes nothing.                  *)
(* [fdspawn(use_poll=True) registers POLLPRI: there the real code goes on to  *)
(* os.read() and blocks - a defect of the unchanged tree; the harness replays *)
(* behaviours with PeerUrgent on the select() flavour only.]                  *)
EXTENDS Naturals, Integers, Sequences, FiniteSets, TLC

CONSTANTS MaxUnits, MaxWrite, Sizes, Tmos, MaxCalls,
          Urgent,        \* TRUE: the peer may send urgent data once
          WakeOnUrgent   \* FALSE: the code as written; TRUE (model sensitivity only): the wait also returns on an
                         \* exceptional condition and "descriptor not in the readable set" is reported as TIMEOUT

VARIABLES written, lo, peerOpen, pc, size, tmo, waited, flagEof, ret, delivered, ncalls, now, started,
          urgent         \* an urgent byte is pending at the reader's end (nobody reads it: it stays pending)

vars == <<written, lo, peerOpen, pc, size, tmo, waited, flagEof, ret, delivered, ncalls, now, started, urgent>>

NoneT == -1
Avail    == written - lo
Readable == Avail > 0 \/ ~peerOpen
Min(a, b) == IF a <= b THEN a ELSE b

Init == /\ written = 0 /\ lo = 0 /\ peerOpen = TRUE
        /\ pc = "idle" /\ size = 1 /\ tmo = 0 /\ waited = FALSE /\ flagEof = FALSE
        /\ ret = [kind |-> "none", n |-> 0] /\ delivered = 0 /\ ncalls = 0 /\ now = 0 /\ started = 0
        /\ urgent = FALSE

PeerWrite(n) == /\ peerOpen /\ written + n <= MaxUnits /\ written' = written + n
                /\ UNCHANGED <<lo, peerOpen, pc, size, tmo, waited, flagEof, ret, delivered, ncalls, now, started, urgent>>
PeerClose    == /\ peerOpen /\ peerOpen' = FALSE
                /\ UNCHANGED <<written, lo, pc, size, tmo, waited, flagEof, ret, delivered, ncalls, now, started, urgent>>
\* send(b'!', MSG_OOB) on a TCP connection: select() reports the descriptor in its exceptional set, poll() POLLPRI
PeerUrgent   == /\ Urgent /\ peerOpen /\ ~urgent /\ urgent' = TRUE
                /\ UNCHANGED <<written, lo, peerOpen, pc, size, tmo, waited, flagEof, ret, delivered, ncalls, now, started>>

CallStart(sz, t) ==
  /\ pc = "idle" /\ ncalls < MaxCalls
  /\ pc' = "select" /\ size' = sz /\ tmo' = t /\ waited' = FALSE /\ ncalls' = ncalls + 1 /\ started' = now
  /\ ret' = [kind |-> "none", n |-> 0]
  /\ UNCHANGED <<written, lo, peerOpen, flagEof, delivered, now, urgent>>

Return(kind, n) == pc' = "idle" /\ ret' = [kind |-> kind, n |-> n] /\ delivered' = delivered + n

Select ==      \* select/poll([fd], timeout); TIMEOUT if the descriptor is not reported
  /\ pc = "select"
  /\ IF Readable THEN pc' = "read" /\ UNCHANGED <<ret, delivered, now, waited>>
     ELSE IF WakeOnUrgent /\ urgent THEN Return("TIMEOUT", 0) /\ UNCHANGED <<now, waited>>
     ELSE IF tmo = NoneT THEN FALSE
     ELSE IF tmo > 0 /\ ~waited THEN waited' = TRUE /\ now' = now + tmo /\ UNCHANGED <<pc, ret, delivered>>
     ELSE Return("TIMEOUT", 0) /\ UNCHANGED <<now, waited>>
  /\ UNCHANGED <<written, lo, peerOpen, size, tmo, flagEof, ncalls, started, urgent>>

Read(n) ==     \* os.read(fd, size): data, or '' / EIO at the end of the stream
  /\ pc = "read"
  /\ IF Avail > 0
     THEN /\ n \in 1..Min(Avail, size) /\ lo' = lo + n /\ Return("data", n) /\ UNCHANGED flagEof
     ELSE /\ n = 0 /\ flagEof' = TRUE /\ Return("EOF", 0) /\ UNCHANGED lo
  /\ UNCHANGED <<written, peerOpen, size, tmo, waited, ncalls, now, started, urgent>>

Next == \/ \E n \in 1..MaxWrite : PeerWrite(n)
        \/ PeerClose \/ PeerUrgent
        \/ \E sz \in Sizes, t \in Tmos : CallStart(sz, t)
        \/ Select \/ \E n \in 0..MaxUnits : Read(n)

Spec == Init /\ [][Next]_vars

DeliveredPrefix    == delivered = lo /\ lo <= written
EofOnlyWhenDrained == ret.kind = "EOF" => (lo = written /\ ~peerOpen)
AtMostSize         == ret.n <= size
DataNonEmpty       == ret.kind = "data" => ret.n > 0
Bounded  == pc = "idle" /\ ret.kind # "none" /\ tmo # NoneT => now - started <= tmo
NotEarly == ret.kind = "TIMEOUT" => (now - started >= tmo /\ tmo # NoneT)
=============================================================================

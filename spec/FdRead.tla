------------------------------- MODULE FdRead -------------------------------
(* pexpect.fdpexpect.fdspawn.read_nonblocking as written (select/poll with    *)
(* timeout, then SpawnBase.read_nonblocking = one os.read), against a pipe /  *)
(* pty / socket descriptor whose peer writes and closes at any moment.        *)
(* Same contract and same replay machinery as PtyRead.                        *)
EXTENDS Naturals, Integers, Sequences, FiniteSets, TLC

CONSTANTS MaxUnits, MaxWrite, Sizes, Tmos, MaxCalls

VARIABLES written, lo, peerOpen, pc, size, tmo, waited, flagEof, ret, delivered, ncalls, now, started

vars == <<written, lo, peerOpen, pc, size, tmo, waited, flagEof, ret, delivered, ncalls, now, started>>

NoneT == -1
Avail    == written - lo
Readable == Avail > 0 \/ ~peerOpen
Min(a, b) == IF a <= b THEN a ELSE b

Init == /\ written = 0 /\ lo = 0 /\ peerOpen = TRUE
        /\ pc = "idle" /\ size = 1 /\ tmo = 0 /\ waited = FALSE /\ flagEof = FALSE
        /\ ret = [kind |-> "none", n |-> 0] /\ delivered = 0 /\ ncalls = 0 /\ now = 0 /\ started = 0

PeerWrite(n) == /\ peerOpen /\ written + n <= MaxUnits /\ written' = written + n
                /\ UNCHANGED <<lo, peerOpen, pc, size, tmo, waited, flagEof, ret, delivered, ncalls, now, started>>
PeerClose    == /\ peerOpen /\ peerOpen' = FALSE
                /\ UNCHANGED <<written, lo, pc, size, tmo, waited, flagEof, ret, delivered, ncalls, now, started>>

CallStart(sz, t) ==
  /\ pc = "idle" /\ ncalls < MaxCalls
  /\ pc' = "select" /\ size' = sz /\ tmo' = t /\ waited' = FALSE /\ ncalls' = ncalls + 1 /\ started' = now
  /\ ret' = [kind |-> "none", n |-> 0]
  /\ UNCHANGED <<written, lo, peerOpen, flagEof, delivered, now>>

Return(kind, n) == pc' = "idle" /\ ret' = [kind |-> kind, n |-> n] /\ delivered' = delivered + n

Select ==      \* select/poll([fd], timeout); TIMEOUT if the descriptor is not reported
  /\ pc = "select"
  /\ IF Readable THEN pc' = "read" /\ UNCHANGED <<ret, delivered, now, waited>>
     ELSE IF tmo = NoneT THEN FALSE
     ELSE IF tmo > 0 /\ ~waited THEN waited' = TRUE /\ now' = now + tmo /\ UNCHANGED <<pc, ret, delivered>>
     ELSE Return("TIMEOUT", 0) /\ UNCHANGED <<now, waited>>
  /\ UNCHANGED <<written, lo, peerOpen, size, tmo, flagEof, ncalls, started>>

Read(n) ==     \* os.read(fd, size): data, or '' / EIO at the end of the stream
  /\ pc = "read"
  /\ IF Avail > 0
     THEN /\ n \in 1..Min(Avail, size) /\ lo' = lo + n /\ Return("data", n) /\ UNCHANGED flagEof
     ELSE /\ n = 0 /\ flagEof' = TRUE /\ Return("EOF", 0) /\ UNCHANGED lo
  /\ UNCHANGED <<written, peerOpen, size, tmo, waited, ncalls, now, started>>

Next == \/ \E n \in 1..MaxWrite : PeerWrite(n)
        \/ PeerClose
        \/ \E sz \in Sizes, t \in Tmos : CallStart(sz, t)
        \/ Select \/ \E n \in 0..MaxUnits : Read(n)

Spec == Init /\ [][Next]_vars

DeliveredPrefix    == delivered = lo /\ lo <= written
EofOnlyWhenDrained == ret.kind = "EOF" => (lo = written /\ ~peerOpen)
AtMostSize         == ret.n <= size
DataNonEmpty       == ret.kind = "data" => ret.n > 0
Bounded  == pc = "idle" /\ ret.kind # "none" /\ tmo # NoneT => now - started <= tmo
NotEarly == ret.kind = "TIMEOUT" => (now - started >= tmo /\ tmo # NoneT)
=============================================================================

------------------------------- MODULE PopenRead -----------------------------
(* pexpect.popen_spawn.PopenSpawn as written: a reader thread copies the       *)
(* child's stdout pipe into a queue (os.read(1024) -> queue.put, None at the   *)
(* end); read_nonblocking drains the queue without blocking, keeps what        *)
(* exceeds `size` in a carry-over buffer and reports EOF only after the        *)
(* sentinel was seen and the carry-over is empty.                              *)
(* Two processes (thread, reader) + the peer: TLC explores every interleaving. *)
(* The caller may reap the child (wait() / poll() set proc.returncode) between  *)
(* two reads once it has exited: an exited, reaped child says nothing about     *)
(* what the thread has already moved from the pipe to the queue.                *)
EXTENDS Naturals, Integers, Sequences, FiniteSets, TLC

CONSTANTS MaxUnits, MaxWrite, Sizes, MaxCalls, ThreadChunk,
          ReapShortcut      \* FALSE: the code as written; TRUE (model sensitivity only): "child reaped and queue
                            \* momentarily empty" is taken for the end of the stream

VARIABLES written, plo, peerOpen,            \* peer -> pipe; how much the thread has taken from the pipe
          tpc, tbuf,                         \* reader thread: "read" | "put" | "puteof" | "done"; chunk in hand
          queue,                             \* sequence of chunk sizes; 0 is the end-of-stream sentinel (None)
          pc, size, buf, carry, reachedEof, flagEof, ret, delivered, ncalls,
          reaped                             \* the caller has called wait()/poll() on the exited child (proc.returncode is set)

vars == <<written, plo, peerOpen, tpc, tbuf, queue, pc, size, buf, carry, reachedEof, flagEof, ret, delivered, ncalls, reaped>>

Min(a, b) == IF a <= b THEN a ELSE b
Avail == written - plo

Init == /\ written = 0 /\ plo = 0 /\ peerOpen = TRUE /\ tpc = "read" /\ tbuf = 0 /\ queue = <<>>
        /\ pc = "idle" /\ size = 1 /\ buf = 0 /\ carry = 0 /\ reachedEof = FALSE /\ flagEof = FALSE
        /\ ret = [kind |-> "none", n |-> 0] /\ delivered = 0 /\ ncalls = 0 /\ reaped = FALSE

PeerWrite(n) == /\ peerOpen /\ written + n <= MaxUnits /\ written' = written + n
                /\ UNCHANGED <<plo, peerOpen, tpc, tbuf, queue, pc, size, buf, carry, reachedEof, flagEof, ret, delivered, ncalls, reaped>>
PeerClose    == /\ peerOpen /\ peerOpen' = FALSE
                /\ UNCHANGED <<written, plo, tpc, tbuf, queue, pc, size, buf, carry, reachedEof, flagEof, ret, delivered, ncalls, reaped>>

(* ---- the reader thread: _read_incoming ------------------------------------------------------- *)
ThreadRead(n) ==    \* buf = os.read(fileno, 1024): blocks until data or end of stream
  /\ tpc = "read"
  /\ IF Avail > 0 THEN /\ n \in 1..Min(Avail, ThreadChunk) /\ plo' = plo + n /\ tbuf' = n /\ tpc' = "put"
     ELSE /\ ~peerOpen /\ n = 0 /\ tbuf' = 0 /\ tpc' = "puteof" /\ UNCHANGED plo
  /\ UNCHANGED <<written, peerOpen, queue, pc, size, buf, carry, reachedEof, flagEof, ret, delivered, ncalls, reaped>>
ThreadPut ==
  /\ tpc \in {"put", "puteof"}
  /\ queue' = Append(queue, tbuf)                    \* 0 = the None sentinel
  /\ tpc' = IF tpc = "put" THEN "read" ELSE "done"
  /\ UNCHANGED <<written, plo, peerOpen, tbuf, pc, size, buf, carry, reachedEof, flagEof, ret, delivered, ncalls, reaped>>

(* ---- read_nonblocking(size, timeout) ------------------------------------------------------------ *)
CallStart(sz) ==
  /\ pc = "idle" /\ ncalls < MaxCalls
  /\ size' = sz /\ ncalls' = ncalls + 1
  /\ IF reachedEof
     THEN IF carry > 0 THEN /\ pc' = "idle" /\ ret' = [kind |-> "data", n |-> Min(carry, sz)] /\ carry' = carry - Min(carry, sz)
                            /\ delivered' = delivered + Min(carry, sz) /\ UNCHANGED <<buf, flagEof>>
          ELSE /\ pc' = "idle" /\ flagEof' = TRUE /\ ret' = [kind |-> "EOF", n |-> 0] /\ UNCHANGED <<buf, carry, delivered>>
     ELSE /\ pc' = "drain" /\ buf' = carry /\ ret' = [kind |-> "none", n |-> 0] /\ UNCHANGED <<carry, flagEof, delivered>>
  /\ UNCHANGED <<written, plo, peerOpen, tpc, tbuf, queue, reachedEof, reaped>>

\* while size and len(buf) < size: get_nowait()  (Empty -> break; None -> reached eof, break)
Drain ==
  /\ pc = "drain"
  /\ IF buf < size /\ queue # <<>> THEN
        IF Head(queue) = 0 THEN /\ reachedEof' = TRUE /\ queue' = Tail(queue) /\ pc' = "ret" /\ UNCHANGED buf
        ELSE /\ buf' = buf + Head(queue) /\ queue' = Tail(queue) /\ UNCHANGED <<pc, reachedEof>>
     ELSE /\ pc' = "ret" /\ UNCHANGED <<buf, queue>>
          /\ reachedEof' = (IF ReapShortcut /\ queue = <<>> /\ buf = 0 /\ reaped THEN TRUE ELSE reachedEof)
  /\ UNCHANGED <<written, plo, peerOpen, tpc, tbuf, size, carry, flagEof, ret, delivered, ncalls, reaped>>

\* r, self._buf = buf[:size], buf[size:]
Ret ==
  /\ pc = "ret"
  /\ ret' = [kind |-> "data", n |-> Min(buf, size)] /\ carry' = buf - Min(buf, size)
  /\ delivered' = delivered + Min(buf, size) /\ pc' = "idle"
  /\ UNCHANGED <<written, plo, peerOpen, tpc, tbuf, queue, size, buf, reachedEof, flagEof, ncalls, reaped>>

\* the caller reaps the child between two reads: PopenSpawn.wait() (or proc.poll()) once the child has exited.
\* The code as written never looks at proc.returncode while reading, so nothing else changes.
Reap ==
  /\ pc = "idle" /\ ~peerOpen /\ ~reaped
  /\ reaped' = TRUE
  /\ UNCHANGED <<written, plo, peerOpen, tpc, tbuf, queue, pc, size, buf, carry, reachedEof, flagEof, ret, delivered, ncalls>>

Next == \/ \E n \in 1..MaxWrite : PeerWrite(n)
        \/ PeerClose \/ Reap
        \/ \E n \in 0..ThreadChunk : ThreadRead(n)
        \/ ThreadPut
        \/ \E sz \in Sizes : CallStart(sz)
        \/ Drain \/ Ret
Spec == Init /\ [][Next]_vars

Queued == LET RECURSIVE Sum(_) Sum(q) == IF q = <<>> THEN 0 ELSE Head(q) + Sum(Tail(q)) IN Sum(queue)
\* every unit written is exactly one of: still in the pipe, in the thread's hand, queued, in the reader's hands, delivered
Accounted == written = Avail + (IF tpc = "put" THEN tbuf ELSE 0) + Queued
                       + (IF pc \in {"drain", "ret"} THEN buf ELSE carry) + delivered
EofOnlyWhenDrained == ret.kind = "EOF" => (delivered = written /\ ~peerOpen /\ carry = 0)
AtMostSize == ret.n <= size
=============================================================================

------------------------------ MODULE SendLog ------------------------------
(* C08 (send fidelity) and C11 (logging fidelity): the send family, the read *)
(* path and interact() of one pexpect object, with its three log files.      *)
(*                                                                           *)
(* Payloads are classes (the harness instantiates them: empty, ASCII, non-   *)
(* ASCII text, all byte values, text containing the line separator, text     *)
(* larger than the pipe/pty buffer).  What travels is a sequence of ITEMS:   *)
(*   <<"t", n, j, p>>  the j-th argument (class p) of operation n, encoded   *)
(*   <<"sep", n>>      the line separator sendline adds                      *)
(*   <<"bom">>         the byte-order mark a stateful encoder emits once     *)
(*   <<"c", n, name>>  one control byte                                      *)
(*   <<"k", n, p>>     keystrokes copied by interact()                       *)
(*   <<"o", n, p>>     child output delivered by a read / copied by interact *)
(* A log entry is [d |-> direction, it |-> item, ty |-> "bytes" | "str"].    *)
(*                                                                           *)
(* The actions are written the way the code works (coerce, log, encode,      *)
(* write; sendline = send(s + linesep), on popen two sends; control bytes    *)
(* written raw and logged decoded; ...).  The contract is written            *)
(* separately over `asked`, the list of calls in call order, and is what     *)
(* the invariants compare the implementation-shaped variables with.          *)
(*                                                                           *)
(* Env = TRUE adds the environment and the rest of the object's life to the  *)
(* histories: reads that end in TIMEOUT or EOF between the sends, a peer     *)
(* that shuts its output side down and keeps reading, a peer that goes away, *)
(* the caller closing the object, a peer that stops reading while a socket   *)
(* with a user timeout sends more than the buffers hold (send-family calls   *)
(* that FAIL, completely or part-way).  Aw = TRUE adds awaited reads on an   *)
(* asyncio transport: calls that are cancelled from outside or time out, and *)
(* child output that arrives while no call is waiting.                       *)
(*   <<"part", w>>     a proper prefix of the encoded items w (a write that  *)
(*                     failed part-way)                                      *)
(*                                                                           *)
(* History = TRUE : the variables hold the whole history (sequence-level     *)
(*                  properties, bounded by MaxOps).                          *)
(* History = FALSE: they hold the effect of the last operation only, the     *)
(*                  graph is small and is dumped: every transition becomes   *)
(*                  an implementation test (harness/checks/sendlog.py walks  *)
(*                  real objects along paths covering every transition and   *)
(*                  compares, after every step, what the peer received, the  *)
(*                  three logs, the flush counts and the return value with   *)
(*                  the successor state TLC computed).                       *)
EXTENDS Naturals, Sequences, FiniteSets, TLC

CONSTANTS Transport,    \* "pty" | "fd" | "popen" | "socket"
          Payloads,     \* payload classes for the send side
          ReadPayloads, \* payload classes the child can output (non-empty ones)
          KeyPayloads,  \* payload classes typed / shown during interact()
          Lists,        \* argument lists for writelines
          Controls,     \* control-character classes for sendcontrol
          Modes,        \* subset of {"bytes", "utf8", "utf16"}
          LogCfgs,      \* set of subsets of {"all", "read", "send"}
          MaxOps, History,
          Env,          \* TRUE: reads ending in TIMEOUT / EOF, peer half-closed / gone, object closed, failing sends
          Aw,           \* TRUE: awaited reads (asyncio transport), cancellation, output arriving between two calls
          MaxCarry,     \* Aw: bound on child output that is in flight between two calls
          Bug           \* "none", or one of the model's own mutants (sensitivity)

VARIABLES mode, logcfg,         \* fixed per behaviour
          phase,                \* "normal" | "interact"
          peerOpen,             \* popen: stdin not yet closed by sendeof
          encBom,               \* the encoder has emitted its byte-order mark
          bom0,                 \* encBom at the start of the retained window
          nops, asked,          \* operations so far (ghost: the calls, in order)
          peerGot,              \* items the peer received
          userGot,              \* items shown to the user by interact()
          logSend, logRead, logAll,
          writes, flushes,      \* per log: number of write() / flush() calls
          delivered,            \* child output handed to matching / the caller
          ret,                  \* what the last call returned
          \* ---- Env ----
          link,                 \* "up" | "gone" (the peer closed / exited) | "closed" (the caller closed the object)
          outOpen,              \* the peer's output side is open (FALSE once it shut it down and a read reported EOF)
          sockTmo,              \* socket transport: the socket's own timeout as handed over: "none" | "user"
          implShut,             \* mutants only: the object broke its own sending side: "no" | "nonblock" | "closed"
          rd,                   \* asyncio read transport of the awaited calls: "none" | "reading" | "paused"
          kq,                   \* child output that has arrived and was not yet taken in by the object
          pend,                 \* text taken in (buffer / before) and not yet handed to a caller
          kq0, pend0            \* kq / pend at the start of the retained window

envvars == <<link, outOpen, sockTmo, implShut, rd, kq, pend, kq0, pend0>>
vars == <<mode, logcfg, phase, peerOpen, encBom, bom0, nops, asked, peerGot, userGot, logSend, logRead, logAll,
          writes, flushes, delivered, ret, envvars>>

LogNames == {"all", "read", "send"}
ApiType  == IF mode = "bytes" THEN "bytes" ELSE "str"
N        == IF History THEN nops + 1 ELSE 1
None     == [k |-> "none", items |-> <<>>]
Raised   == [k |-> "raised", items |-> <<>>]
Count(items) == [k |-> "count", items |-> items]
Zero     == [l \in LogNames |-> 0]

(* ---------------- the code, as written --------------------------------- *)
\* the mutable part of the state as a record, so that one call can be a composition of steps
Cur == [peer |-> IF History THEN peerGot ELSE <<>>, ls |-> IF History THEN logSend ELSE <<>>,
        lr |-> IF History THEN logRead ELSE <<>>, la |-> IF History THEN logAll ELSE <<>>,
        w |-> IF History THEN writes ELSE Zero, f |-> IF History THEN flushes ELSE Zero,
        enc |-> encBom, out |-> <<>>,
        lgd |-> <<>>,        \* ghost: items this call handed to _log(., "send")
        tk  |-> <<>>]        \* ghost: child output this call took into the object's buffer

Entries(d, items, ty) == [i \in 1..Len(items) |-> [d |-> d, it |-> items[i], ty |-> ty]]

\* SpawnBase._log(s, direction): logfile, then the direction's own log; write + flush each
Log(S, d, items, ty) ==
  LET second == IF d = "send" THEN "send" ELSE "read"
      toAll == "all" \in logcfg
      to2   == second \in logcfg
      e     == Entries(d, items, ty)
      fl(n) == IF Bug = "noflush" THEN 0 ELSE n
  IN [S EXCEPT !.la = IF toAll THEN @ \o e ELSE @,
               !.ls = IF to2 /\ d = "send" THEN @ \o e ELSE @,
               !.lr = IF to2 /\ d = "read" THEN @ \o e ELSE @,
               !.lgd = IF d = "send" THEN @ \o items ELSE @,
               !.w  = [l \in LogNames |-> @[l] + (IF (l = "all" /\ toAll) \/ (l = second /\ to2) THEN 1 ELSE 0)],
               !.f  = [l \in LogNames |-> @[l] + fl(IF (l = "all" /\ toAll) \/ (l = second /\ to2) THEN 1 ELSE 0)]]

\* send(s): coerce, log what was asked (API type), encode (the encoder emits its BOM once), one write
SendStep(S, items) ==
  LET ty  == IF Bug = "logencoded" THEN "bytes" ELSE ApiType
      S1  == Log(S, "send", items, ty)
      b   == IF mode = "utf16" /\ ~S1.enc THEN <<<<"bom">>>> ELSE <<>>
      wr  == b \o items
  IN [S1 EXCEPT !.peer = @ \o wr, !.enc = @ \/ mode = "utf16", !.out = @ \o wr]

Sep(n) == IF Bug = "sep2" THEN <<<<"sep", n>>, <<"sep", n>>>> ELSE <<<<"sep", n>>>>

\* the underlying send() calls of one send-family call, in order: each is one coerce-log-encode-write
Pieces(op, n, ps) ==
  CASE op \in {"send", "write"} -> << <<<<"t", n, 1, ps[1]>>>> >>
    [] op = "sendline" -> IF Transport = "popen"
                          THEN << <<<<"t", n, 1, ps[1]>>>>, Sep(n) >>             \* n = send(s); n + send(linesep)
                          ELSE << <<<<"t", n, 1, ps[1]>>>> \o Sep(n) >>          \* send(s + linesep)
    [] op = "writelines" -> [j \in 1..Len(ps) |-> <<<<"t", n, j, ps[j]>>>>]       \* one send per element

\* a send() whose write fails: logged like any other, then nothing (part = "none") or a proper prefix
\* (part = "some") of the encoded text reaches the peer and the exception goes to the caller
FailStep(S, items, part) ==
  LET ty  == IF Bug = "logencoded" THEN "bytes" ELSE ApiType
      S1  == IF Bug = "logafterwrite" THEN S ELSE Log(S, "send", items, ty)
      b   == IF mode = "utf16" /\ ~S1.enc THEN <<<<"bom">>>> ELSE <<>>
      wr  == IF part = "some" THEN << <<"part", b \o items>> >> ELSE <<>>
  IN [S1 EXCEPT !.peer = @ \o wr, !.enc = @ \/ mode = "utf16", !.out = @ \o wr]

RECURSIVE DoPieces(_, _, _, _, _)
DoPieces(S, pcs, i, failAt, part) ==
  IF i > Len(pcs) THEN S
  ELSE IF i = failAt THEN FailStep(S, pcs[i], part)                    \* the rest of the call does not happen
  ELSE DoPieces(SendStep(S, pcs[i]), pcs, i + 1, failAt, part)

IsBig(piece) == \E i \in 1..Len(piece) : piece[i][1] = "t" /\ piece[i][4] = "big"
FirstBig(pcs) == IF \E i \in 1..Len(pcs) : IsBig(pcs[i]) THEN CHOOSE i \in 1..Len(pcs) : IsBig(pcs[i]) /\ \A j \in 1..(i - 1) : ~IsBig(pcs[j]) ELSE 0
\* how a send-family call ends: <<kind, index of the failing send(), how much of it was written>>
Outcome(pcs, stalled) ==
  IF pcs = <<>> THEN <<"no", 0, "none">>
  ELSE IF link = "gone" THEN <<"gone", 1, "none">>                       \* EPIPE / ECONNRESET
  ELSE IF link = "closed" \/ ~peerOpen THEN <<"closed", 1, "none">>      \* EBADF / closed file
  ELSE IF implShut = "closed" THEN <<"spurious", 1, "none">>
  ELSE IF implShut = "nonblock" /\ FirstBig(pcs) > 0 THEN <<"spurious", FirstBig(pcs), "some">>
  ELSE IF stalled /\ FirstBig(pcs) > 0 THEN <<"stalled", FirstBig(pcs), "some">>   \* the user's timeout expires in sendall
  ELSE <<"no", 0, "none">>

\* sendcontrol / sendeof / sendintr on a pty: ptyprocess writes the byte, then _log_control logs it decoded
ControlSteps(S, n, name) ==
  LET S1 == IF Bug = "ctlnotsent" THEN S ELSE [S EXCEPT !.peer = @ \o <<<<"c", n, name>>>>, !.out = @ \o <<<<"c", n, name>>>>]
  IN Log(S1, "send", <<<<"c", n, name>>>>, ApiType)

\* the read path: what was read goes into the object's buffer (ghost tk) and is logged, decoded
TakeIn(S, items) ==
  IF items = <<>> THEN S
  ELSE LET S1 == [S EXCEPT !.tk = @ \o items] IN IF Bug = "readnotlogged" THEN S1 ELSE Log(S1, "read", items, ApiType)
ReadSteps(S, n, p) == TakeIn(S, <<<<"o", n, p>>>>)

Commit(S, a, r, dl, ug) ==
  /\ peerGot' = S.peer /\ logSend' = S.ls /\ logRead' = S.lr /\ logAll' = S.la
  /\ writes' = S.w /\ flushes' = S.f /\ encBom' = S.enc
  /\ ret' = r
  /\ LET a2 == [a EXCEPT !.lg = S.lgd, !.rch = S.out, !.tk = S.tk, !.dl = dl]
     IN asked' = IF History THEN Append(asked, a2) ELSE <<a2>>
  /\ bom0' = IF History THEN bom0 ELSE encBom
  /\ kq0' = IF History THEN kq0 ELSE kq
  /\ pend0' = IF History THEN pend0 ELSE pend
  /\ UNCHANGED <<sockTmo>>
  /\ nops' = IF History THEN nops + 1 ELSE nops
  /\ delivered' = IF History THEN delivered \o dl ELSE dl
  /\ userGot' = IF History THEN userGot \o ug ELSE ug
  /\ UNCHANGED <<mode, logcfg>>

Call(op, ps, c) == [op |-> op, n |-> N, ps |-> ps, c |-> c, fail |-> "no", lg |-> <<>>, rch |-> <<>>, tk |-> <<>>, dl |-> <<>>]
LinkUp  == link = "up"
\* (Env: a send-family call can also be made when the link is down or the child's stdin was closed - it fails then)
\* (IF rather than a disjunction: TLC would take the action once per true disjunct and the dumped graph would have the edge twice)
CanSend == phase = "normal" /\ (IF Env THEN TRUE ELSE peerOpen /\ LinkUp) /\ nops < MaxOps
NoEnvChange == UNCHANGED <<link, outOpen, implShut, rd, kq, pend>>

\* a send-family call: its send()s one after the other, up to the one that fails (if any)
DoSend(op, ps, stalled) ==
  LET pcs == Pieces(op, N, ps)
      oc  == Outcome(pcs, stalled)
      S   == DoPieces(Cur, pcs, 1, oc[2], oc[3])
      r   == IF oc[1] # "no" THEN Raised ELSE IF op \in {"send", "sendline"} THEN Count(S.out) ELSE None
  IN Commit(S, [Call(op, ps, "") EXCEPT !.fail = oc[1]], r, <<>>, <<>>)

Send(p) ==
  /\ CanSend /\ DoSend("send", <<p>>, FALSE)
  /\ UNCHANGED <<phase, peerOpen>> /\ NoEnvChange
SendLine(p) ==
  /\ CanSend /\ DoSend("sendline", <<p>>, FALSE)
  /\ UNCHANGED <<phase, peerOpen>> /\ NoEnvChange
Write(p) ==
  /\ CanSend /\ DoSend("write", <<p>>, FALSE)
  /\ UNCHANGED <<phase, peerOpen>> /\ NoEnvChange
WriteLines(ps) ==
  /\ CanSend /\ DoSend("writelines", ps, FALSE)
  /\ UNCHANGED <<phase, peerOpen>> /\ NoEnvChange
\* socket with a user timeout, the peer does not read, the payload exceeds the buffers: sendall() gives up part-way
Stalled(op, p) ==
  /\ Env /\ Transport = "socket" /\ sockTmo = "user" /\ CanSend /\ LinkUp /\ p = "big"
  /\ DoSend(op, IF op = "writelines" THEN <<"ascii", p>> ELSE <<p>>, TRUE)
  /\ UNCHANGED <<phase, peerOpen>> /\ NoEnvChange
SendControl(c) ==
  /\ CanSend /\ Transport = "pty" /\ LinkUp
  /\ LET S == ControlSteps(Cur, N, c) IN Commit(S, Call("control", <<>>, c), Count(S.out), <<>>, <<>>)
  /\ UNCHANGED <<phase, peerOpen>> /\ NoEnvChange
SendEof ==
  /\ CanSend /\ Transport \in {"pty", "popen"} /\ LinkUp /\ peerOpen /\ (IF Env \/ Aw THEN Transport = "popen" ELSE TRUE)
  /\ IF Transport = "pty"
     THEN /\ LET S == ControlSteps(Cur, N, "eof") IN Commit(S, Call("eof", <<>>, "eof"), None, <<>>, <<>>)
          /\ UNCHANGED peerOpen
     ELSE /\ Commit(Cur, Call("eof", <<>>, "eof"), None, <<>>, <<>>)       \* popen: closes the child's stdin, writes nothing
          /\ peerOpen' = FALSE
  /\ UNCHANGED phase /\ NoEnvChange
SendIntr ==
  /\ CanSend /\ Transport = "pty" /\ LinkUp /\ ~Env /\ ~Aw
  /\ LET S == ControlSteps(Cur, N, "intr") IN Commit(S, Call("intr", <<>>, "intr"), None, <<>>, <<>>)
  /\ UNCHANGED <<phase, peerOpen>> /\ NoEnvChange
CanRead == phase = "normal" /\ nops < MaxOps /\ LinkUp /\ outOpen /\ kq = <<>>
ReadDelivered(p) ==        \* the child wrote p; a (blocking) read delivered it to matching and the caller
  /\ CanRead
  /\ LET S == ReadSteps(Cur, N, p) IN Commit(S, Call("read", <<p>>, ""), None, pend \o <<<<"o", N, p>>>>, <<>>)
  /\ pend' = <<>>
  /\ UNCHANGED <<phase, peerOpen, link, outOpen, implShut, rd, kq>>
EnterInteract ==
  /\ phase = "normal" /\ Transport = "pty" /\ nops < MaxOps
  /\ ~Env /\ ~Aw
  /\ phase' = "interact" /\ Commit(Cur, Call("enter", <<>>, ""), None, <<>>, <<>>) /\ UNCHANGED peerOpen /\ NoEnvChange
ExitInteract ==            \* the user types the escape character: not sent, not logged
  /\ phase = "interact"
  /\ phase' = "normal" /\ Commit(Cur, Call("exit", <<>>, ""), None, <<>>, <<>>) /\ UNCHANGED peerOpen /\ NoEnvChange
InteractCopyOut(p) ==      \* child output copied to the user's terminal
  /\ phase = "interact" /\ nops < MaxOps
  /\ LET S == ReadSteps(Cur, N, p) IN Commit(S, Call("copyout", <<p>>, ""), None, <<>>, <<<<"o", N, p>>>>)
  /\ UNCHANGED <<phase, peerOpen>> /\ NoEnvChange
InteractCopyIn(p) ==       \* keystrokes copied to the child, unchanged
  /\ phase = "interact" /\ nops < MaxOps
  /\ LET S1 == Log(Cur, "send", <<<<"k", N, p>>>>, ApiType)
         S  == [S1 EXCEPT !.peer = @ \o <<<<"k", N, p>>>>, !.out = @ \o <<<<"k", N, p>>>>]
     IN Commit(S, Call("copyin", <<p>>, ""), None, <<>>, <<>>)
  /\ UNCHANGED <<phase, peerOpen>> /\ NoEnvChange

(* ---------------- Env: the rest of the object's life --------------------- *)
\* a blocking read (expect([TIMEOUT, ..], timeout=t) / read_nonblocking(n, t)) that ends in TIMEOUT: nothing arrives
ReadTimeout(t) ==
  /\ (Env \/ Aw) /\ CanRead
  /\ Commit(Cur, Call("rtimeout", <<>>, t), None, <<>>, <<>>)
  /\ implShut' = IF Bug = "tmoleak" /\ Transport = "socket" /\ sockTmo = "none" THEN "nonblock" ELSE implShut
  /\ UNCHANGED <<phase, peerOpen, link, outOpen, rd, kq, pend>>
\* the peer shuts its output side down and keeps reading; a blocking read reports EOF (and hands out what was pending)
HalfCloseEof ==
  /\ Env /\ CanRead /\ Transport \in {"popen", "fd", "socket"}
  /\ Commit(Cur, Call("reof", <<>>, ""), None, pend, <<>>)
  /\ outOpen' = FALSE /\ pend' = <<>>
  /\ implShut' = IF Bug = "eofclosesstdin" /\ Transport = "popen" THEN "closed" ELSE implShut
  /\ UNCHANGED <<phase, peerOpen, link, rd, kq>>
\* the peer goes away (closes the connection / exits); a pty master still accepts writes then, so: not on a pty
PeerGone ==
  /\ Env /\ phase = "normal" /\ nops < MaxOps /\ LinkUp /\ kq = <<>> /\ Transport \in {"popen", "fd", "socket"}
  /\ Commit(Cur, Call("gone", <<>>, ""), None, <<>>, <<>>)
  /\ link' = "gone"
  /\ UNCHANGED <<phase, peerOpen, outOpen, implShut, rd, kq, pend>>
\* the caller closes the object (PopenSpawn has no close(): sendeof() closes its sending side)
CloseSelf ==
  /\ Env /\ phase = "normal" /\ nops < MaxOps /\ LinkUp /\ kq = <<>> /\ Transport # "popen"
  /\ Commit(Cur, Call("close", <<>>, ""), None, <<>>, <<>>)
  /\ link' = "closed"
  /\ UNCHANGED <<phase, peerOpen, outOpen, implShut, rd, kq, pend>>

\* awaited calls (expect(..., async_=True)): PatternWaiter on an asyncio read transport
AsyncOK == Aw /\ Transport \in {"pty", "fd", "socket"} /\ phase = "normal" /\ nops < MaxOps /\ LinkUp /\ outOpen
\* the child writes p (ending in the text the call waits for); the awaited call takes in all that is readable, matches
\* and pauses the transport
ARead(p) ==
  /\ AsyncOK
  /\ LET new == <<<<"o", N, p>>>>
         S   == TakeIn(Cur, kq \o new)
     IN Commit(S, Call("aread", <<p>>, ""), None, pend \o kq \o new, <<>>)
  /\ rd' = "paused" /\ kq' = <<>> /\ pend' = <<>>
  /\ UNCHANGED <<phase, peerOpen, link, outOpen, implShut>>
\* an awaited call that is waiting is cancelled from outside (task.cancel() / asyncio.wait_for around it): what was
\* readable has been taken in; nobody pauses the transport
ACancel(how) ==
  /\ AsyncOK
  /\ LET S == TakeIn(Cur, kq) IN Commit(S, Call("acancel", <<>>, how), None, <<>>, <<>>)
  /\ rd' = "reading" /\ pend' = pend \o kq /\ kq' = <<>>
  /\ UNCHANGED <<phase, peerOpen, link, outOpen, implShut>>
\* an awaited call runs into its own timeout: TIMEOUT, the transport is paused, nothing is consumed
ATimeout ==
  /\ AsyncOK
  /\ LET S == TakeIn(Cur, kq) IN Commit(S, Call("atimeout", <<>>, ""), None, <<>>, <<>>)
  /\ rd' = "paused" /\ pend' = pend \o kq /\ kq' = <<>>
  /\ UNCHANGED <<phase, peerOpen, link, outOpen, implShut>>
\* the child writes p while no call is waiting: a transport that is reading hands it to the object at once
\* (data_received with the future already done: logged, appended to the buffer); otherwise it stays in the kernel
Arrive(p) ==
  /\ AsyncOK /\ Len(kq) + Len(pend) < MaxCarry
  /\ LET new == <<<<"o", N, p>>>> IN
     IF rd = "reading"
     THEN /\ LET S0 == [Cur EXCEPT !.tk = @ \o new]
                 S  == IF Bug \in {"latenotlogged", "readnotlogged"} THEN S0 ELSE Log(S0, "read", new, ApiType)
             IN Commit(S, Call("arrive", <<p>>, ""), None, <<>>, <<>>)
          /\ pend' = pend \o new /\ kq' = kq
     ELSE /\ Commit(Cur, Call("arrive", <<p>>, ""), None, <<>>, <<>>)
          /\ kq' = kq \o new /\ pend' = pend
  /\ UNCHANGED <<phase, peerOpen, link, outOpen, implShut, rd>>

Init == /\ mode \in Modes /\ logcfg \in LogCfgs
        /\ phase = "normal" /\ peerOpen = TRUE /\ encBom = FALSE /\ bom0 = FALSE /\ nops = 0 /\ asked = <<>>
        /\ peerGot = <<>> /\ userGot = <<>> /\ logSend = <<>> /\ logRead = <<>> /\ logAll = <<>>
        /\ writes = Zero /\ flushes = Zero /\ delivered = <<>> /\ ret = None
        /\ link = "up" /\ outOpen = TRUE /\ implShut = "no" /\ rd = "none"
        /\ kq = <<>> /\ pend = <<>> /\ kq0 = <<>> /\ pend0 = <<>>
        /\ sockTmo \in (IF Env /\ Transport = "socket" THEN {"none", "user"} ELSE {"none"})

Next == \/ \E p \in Payloads : Send(p) \/ SendLine(p) \/ Write(p)
        \/ \E ps \in Lists : WriteLines(ps)
        \/ \E c \in Controls : SendControl(c)
        \/ SendEof \/ SendIntr
        \/ \E p \in ReadPayloads : ReadDelivered(p)
        \/ EnterInteract \/ ExitInteract
        \/ \E p \in KeyPayloads : InteractCopyOut(p) \/ InteractCopyIn(p)
        \/ \E t \in {"zero", "small"} : ReadTimeout(t)
        \/ HalfCloseEof \/ PeerGone \/ CloseSelf
        \/ \E op \in {"send", "sendline", "write", "writelines"} : Stalled(op, "big")
        \/ \E p \in ReadPayloads : ARead(p) \/ Arrive(p)
        \/ \E how \in {"cancel", "waitfor"} : ACancel(how)
        \/ ATimeout

Spec == Init /\ [][Next]_vars

(* ---------------- the contract, over the calls in call order ------------ *)
TextItems(n, ps) == [j \in 1..Len(ps) |-> <<"t", n, j, ps[j]>>]
\* what a call asks to be sent, in the API's terms
AskedToSend(a) ==
  CASE a.op \in {"send", "write", "writelines"} -> TextItems(a.n, a.ps)
    [] a.op = "sendline" -> TextItems(a.n, a.ps) \o <<<<"sep", a.n>>>>          \* exactly one separator
    [] a.op \in {"control", "eof", "intr"} -> IF Transport = "pty" THEN <<<<"c", a.n, a.c>>>> ELSE <<>>
    [] a.op = "copyin" -> <<<<"k", a.n, a.ps[1]>>>>
    [] OTHER -> <<>>
\* child output the object took in during the call (ghost of the data path, not of the logging)
FromChild(a) == IF a.op \in {"read", "copyout", "aread", "acancel", "atimeout", "arrive"} THEN a.tk ELSE <<>>
\* what the child wrote during the call
Arrived(a) == IF a.op \in {"read", "copyout", "aread", "arrive"} THEN <<<<"o", a.n, a.ps[1]>>>> ELSE <<>>
\* what the send log must hold for the call: all of it - for a call that failed, what the code handed to the log,
\* which FailedSendLogged constrains
LoggedOf(a) == IF a.fail = "no" THEN AskedToSend(a) ELSE a.lg
IsPrefix(u, v) == Len(u) <= Len(v) /\ u = SubSeq(v, 1, Len(u))
RECURSIVE NoBom(_)
NoBom(w) == IF w = <<>> THEN <<>> ELSE (IF Head(w)[1] = "bom" THEN <<>> ELSE <<Head(w)>>) \o NoBom(Tail(w))
\* the items of which at least a part may have reached the peer
RECURSIVE Touched(_)
Touched(w) == IF w = <<>> THEN <<>>
              ELSE (IF Head(w)[1] = "part" THEN NoBom(Head(w)[2]) ELSE IF Head(w)[1] = "bom" THEN <<>> ELSE <<Head(w)>>) \o Touched(Tail(w))
UsesEncoder(a) == a.op \in {"send", "write", "sendline"} \/ (a.op = "writelines" /\ a.ps # <<>>)

\* the encoded concatenation: a byte-order mark once, at the start of the encoder's life
RECURSIVE Encoded(_, _)
Encoded(as, b) ==
  IF as = <<>> THEN <<>>
  ELSE LET a == Head(as)
           m == IF mode = "utf16" /\ ~b /\ UsesEncoder(a) THEN <<<<"bom">>>> ELSE <<>>
       IN (IF a.fail = "no" THEN m \o AskedToSend(a) ELSE a.rch) \o Encoded(Tail(as), b \/ UsesEncoder(a))
Both(a) == LoggedOf(a) \o FromChild(a)
RECURSIVE FlatSend(_)
FlatSend(as) == IF as = <<>> THEN <<>> ELSE LoggedOf(Head(as)) \o FlatSend(Tail(as))
RECURSIVE FlatRead(_)
FlatRead(as) == IF as = <<>> THEN <<>> ELSE FromChild(Head(as)) \o FlatRead(Tail(as))
RECURSIVE FlatBoth(_)
FlatBoth(as) == IF as = <<>> THEN <<>> ELSE Both(Head(as)) \o FlatBoth(Tail(as))
RECURSIVE FlatArrived(_)
FlatArrived(as) == IF as = <<>> THEN <<>> ELSE Arrived(Head(as)) \o FlatArrived(Tail(as))
RECURSIVE FlatToMatching(_)     \* taken in for matching (interact() shows its output to the user instead)
FlatToMatching(as) == IF as = <<>> THEN <<>>
                      ELSE (IF Head(as).op = "copyout" THEN <<>> ELSE FromChild(Head(as))) \o FlatToMatching(Tail(as))
Items(log) == [i \in 1..Len(log) |-> log[i].it]
Dirs(log)  == [i \in 1..Len(log) |-> log[i].d]
DirOf(it)  == IF it[1] = "o" THEN "read" ELSE "send"

\* C08
PeerGotExactly == peerGot = Encoded(asked, bom0)
LastOp == asked[Len(asked)]
ReturnValue ==
  asked # <<>> =>
    IF LastOp.fail # "no" THEN ret.k = "raised"
    ELSE IF LastOp.op \in {"send", "sendline", "control"}
    THEN /\ ret.k = "count"
         /\ Len(ret.items) <= Len(peerGot)
         /\ ret.items = SubSeq(peerGot, Len(peerGot) - Len(ret.items) + 1, Len(peerGot))     \* what this call wrote
         /\ ret.items = Encoded(<<LastOp>>, bom0 \/ \E i \in 1..(Len(asked) - 1) : UsesEncoder(asked[i]))
    ELSE ret.k = "none"
\* a send-family call fails only when the environment makes it fail: the peer is gone, the caller closed the
\* object, the peer stopped reading (everything handed to send reaches a peer that reads - in every history)
NoSpuriousFailure == \A i \in 1..Len(asked) : asked[i].fail # "spurious"
\* also of a call that fails nothing else is written: what reached the peer is a prefix of what was asked
FailedSendPrefix == \A i \in 1..Len(asked) : asked[i].fail # "no" => IsPrefix(Touched(asked[i].rch), AskedToSend(asked[i]))
\* C11
\* a call that failed: nothing in the log that was not asked for, an attempted send leaves its trace, and every
\* piece of which something reached the peer is in the log, completely
FailedSendLogged ==
  \A i \in 1..Len(asked) : asked[i].fail # "no" =>
    /\ IsPrefix(asked[i].lg, AskedToSend(asked[i]))
    /\ (AskedToSend(asked[i]) # <<>> => asked[i].lg # <<>>)
    /\ IsPrefix(Touched(asked[i].rch), asked[i].lg)
LogSendExact == Items(logSend) = IF "send" \in logcfg THEN FlatSend(asked) ELSE <<>>
LogReadExact == Items(logRead) = IF "read" \in logcfg THEN FlatRead(asked) ELSE <<>>
\* the read log is the text matching is given (+ what interact() showed), once, in order: all the child wrote is
\* taken in exactly once (or still in the kernel), all that is taken in is handed out exactly once (or still pending)
TakenExact     == kq0 \o FlatArrived(asked) = FlatRead(asked) \o kq
DeliveredExact == pend0 \o FlatToMatching(asked) = delivered \o pend
LogAllInterleaved ==
  /\ Items(logAll) = IF "all" \in logcfg THEN FlatBoth(asked) ELSE <<>>
  /\ \A i \in 1..Len(logAll) : logAll[i].d = DirOf(logAll[i].it)
  /\ \A i \in 1..Len(logSend) : logSend[i].d = "send"
  /\ \A i \in 1..Len(logRead) : logRead[i].d = "read"
EveryWriteFlushed == \A l \in LogNames : flushes[l] = writes[l]
LogTypeIsApiType  == \A log \in {logSend, logRead, logAll} : \A i \in 1..Len(log) : log[i].ty = ApiType
OnlyConfiguredLogs == /\ ("all" \notin logcfg => writes["all"] = 0)
                      /\ ("read" \notin logcfg => writes["read"] = 0)
                      /\ ("send" \notin logcfg => writes["send"] = 0)
=============================================================================

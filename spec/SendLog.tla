------------------------------ MODULE SendLog ------------------------------
(* C08 (send fidelity) and C11 (logging fidelity): the send family, the read *)
(* path and interact() of one pexpect object, with its three log files.      *)
(*                                                                           *)
(* Payloads are classes (the harness instantiates them: empty, ASCII, non-   *)
(* ASCII text, all byte values, text containing the line separator, text     *)
(* larger than the pipe/pty buffer).  What travels is a sequence of ITEMS:   *)
(*   <<"t", n, j, p>>  the j-th argument (class p) of operation n, encoded   *)
(*   <<"sep", n>>      the line separator sendline adds                      *)
(*   <<"bom">>         the byte-order mark a stateful encoder emits once     *)
(*   <<"c", n, name>>  one control byte                                      *)
(*   <<"k", n, p>>     keystrokes copied by interact()                       *)
(*   <<"o", n, p>>     child output delivered by a read / copied by interact *)
(* A log entry is [d |-> direction, it |-> item, ty |-> "bytes" | "str"].    *)
(*                                                                           *)
(* The actions are written the way the code works (coerce, log, encode,      *)
(* write; sendline = send(s + linesep), on popen two sends; control bytes    *)
(* written raw and logged decoded; ...).  The contract is written            *)
(* separately over `asked`, the list of calls in call order, and is what     *)
(* the invariants compare the implementation-shaped variables with.          *)
(*                                                                           *)
(* History = TRUE : the variables hold the whole history (sequence-level     *)
(*                  properties, bounded by MaxOps).                          *)
(* History = FALSE: they hold the effect of the last operation only, the     *)
(*                  graph is small and is dumped: every transition becomes   *)
(*                  an implementation test (harness/checks/sendlog.py walks  *)
(*                  real objects along paths covering every transition and   *)
(*                  compares, after every step, what the peer received, the  *)
(*                  three logs, the flush counts and the return value with   *)
(*                  the successor state TLC computed).                       *)
EXTENDS Naturals, Sequences, FiniteSets, TLC

CONSTANTS Transport,    \* "pty" | "fd" | "popen" | "socket"
          Payloads,     \* payload classes for the send side
          ReadPayloads, \* payload classes the child can output (non-empty ones)
          KeyPayloads,  \* payload classes typed / shown during interact()
          Lists,        \* argument lists for writelines
          Controls,     \* control-character classes for sendcontrol
          Modes,        \* subset of {"bytes", "utf8", "utf16"}
          LogCfgs,      \* set of subsets of {"all", "read", "send"}
          MaxOps, History,
          Bug           \* "none", or one of the model's own mutants (sensitivity)

VARIABLES mode, logcfg,         \* fixed per behaviour
          phase,                \* "normal" | "interact"
          peerOpen,             \* popen: stdin not yet closed by sendeof
          encBom,               \* the encoder has emitted its byte-order mark
          bom0,                 \* encBom at the start of the retained window
          nops, asked,          \* operations so far (ghost: the calls, in order)
          peerGot,              \* items the peer received
          userGot,              \* items shown to the user by interact()
          logSend, logRead, logAll,
          writes, flushes,      \* per log: number of write() / flush() calls
          delivered,            \* child output handed to matching / the caller
          ret                   \* what the last call returned

vars == <<mode, logcfg, phase, peerOpen, encBom, bom0, nops, asked, peerGot, userGot, logSend, logRead, logAll,
          writes, flushes, delivered, ret>>

LogNames == {"all", "read", "send"}
ApiType  == IF mode = "bytes" THEN "bytes" ELSE "str"
N        == IF History THEN nops + 1 ELSE 1
None     == [k |-> "none", items |-> <<>>]
Count(items) == [k |-> "count", items |-> items]
Zero     == [l \in LogNames |-> 0]

(* ---------------- the code, as written --------------------------------- *)
\* the mutable part of the state as a record, so that one call can be a composition of steps
Cur == [peer |-> IF History THEN peerGot ELSE <<>>, ls |-> IF History THEN logSend ELSE <<>>,
        lr |-> IF History THEN logRead ELSE <<>>, la |-> IF History THEN logAll ELSE <<>>,
        w |-> IF History THEN writes ELSE Zero, f |-> IF History THEN flushes ELSE Zero,
        enc |-> encBom, out |-> <<>>]

Entries(d, items, ty) == [i \in 1..Len(items) |-> [d |-> d, it |-> items[i], ty |-> ty]]

\* SpawnBase._log(s, direction): logfile, then the direction's own log; write + flush each
Log(S, d, items, ty) ==
  LET second == IF d = "send" THEN "send" ELSE "read"
      toAll == "all" \in logcfg
      to2   == second \in logcfg
      e     == Entries(d, items, ty)
      fl(n) == IF Bug = "noflush" THEN 0 ELSE n
  IN [S EXCEPT !.la = IF toAll THEN @ \o e ELSE @,
               !.ls = IF to2 /\ d = "send" THEN @ \o e ELSE @,
               !.lr = IF to2 /\ d = "read" THEN @ \o e ELSE @,
               !.w  = [l \in LogNames |-> @[l] + (IF (l = "all" /\ toAll) \/ (l = second /\ to2) THEN 1 ELSE 0)],
               !.f  = [l \in LogNames |-> @[l] + fl(IF (l = "all" /\ toAll) \/ (l = second /\ to2) THEN 1 ELSE 0)]]

\* send(s): coerce, log what was asked (API type), encode (the encoder emits its BOM once), one write
SendStep(S, items) ==
  LET ty  == IF Bug = "logencoded" THEN "bytes" ELSE ApiType
      S1  == Log(S, "send", items, ty)
      b   == IF mode = "utf16" /\ ~S1.enc THEN <<<<"bom">>>> ELSE <<>>
      wr  == b \o items
  IN [S1 EXCEPT !.peer = @ \o wr, !.enc = @ \/ mode = "utf16", !.out = @ \o wr]

RECURSIVE SendEach(_, _, _)
SendEach(S, n, ps) ==       \* writelines: one send per element
  IF ps = <<>> THEN S
  ELSE LET j == Len(ps) IN SendStep(SendEach(S, n, SubSeq(ps, 1, j - 1)), <<<<"t", n, j, ps[j]>>>>)

Sep(n) == IF Bug = "sep2" THEN <<<<"sep", n>>, <<"sep", n>>>> ELSE <<<<"sep", n>>>>

SendLineSteps(S, n, p) ==
  IF Transport = "popen"
  THEN SendStep(SendStep(S, <<<<"t", n, 1, p>>>>), Sep(n))           \* n = send(s); n + send(linesep)
  ELSE SendStep(S, <<<<"t", n, 1, p>>>> \o Sep(n))                     \* send(s + linesep)

\* sendcontrol / sendeof / sendintr on a pty: ptyprocess writes the byte, then _log_control logs it decoded
ControlSteps(S, n, name) ==
  LET S1 == IF Bug = "ctlnotsent" THEN S ELSE [S EXCEPT !.peer = @ \o <<<<"c", n, name>>>>, !.out = @ \o <<<<"c", n, name>>>>]
  IN Log(S1, "send", <<<<"c", n, name>>>>, ApiType)

ReadSteps(S, n, p) == IF Bug = "readnotlogged" THEN S ELSE Log(S, "read", <<<<"o", n, p>>>>, ApiType)

Commit(S, a, r, dl, ug) ==
  /\ peerGot' = S.peer /\ logSend' = S.ls /\ logRead' = S.lr /\ logAll' = S.la
  /\ writes' = S.w /\ flushes' = S.f /\ encBom' = S.enc
  /\ ret' = r
  /\ asked' = IF History THEN Append(asked, a) ELSE <<a>>
  /\ bom0' = IF History THEN bom0 ELSE encBom
  /\ nops' = IF History THEN nops + 1 ELSE nops
  /\ delivered' = IF History THEN delivered \o dl ELSE dl
  /\ userGot' = IF History THEN userGot \o ug ELSE ug
  /\ UNCHANGED <<mode, logcfg>>

Call(op, ps, c) == [op |-> op, n |-> N, ps |-> ps, c |-> c]
CanSend == phase = "normal" /\ peerOpen /\ nops < MaxOps

Send(p) ==
  /\ CanSend
  /\ LET S == SendStep(Cur, <<<<"t", N, 1, p>>>>) IN Commit(S, Call("send", <<p>>, ""), Count(S.out), <<>>, <<>>)
  /\ UNCHANGED <<phase, peerOpen>>
SendLine(p) ==
  /\ CanSend
  /\ LET S == SendLineSteps(Cur, N, p) IN Commit(S, Call("sendline", <<p>>, ""), Count(S.out), <<>>, <<>>)
  /\ UNCHANGED <<phase, peerOpen>>
Write(p) ==
  /\ CanSend
  /\ LET S == SendStep(Cur, <<<<"t", N, 1, p>>>>) IN Commit(S, Call("write", <<p>>, ""), None, <<>>, <<>>)
  /\ UNCHANGED <<phase, peerOpen>>
WriteLines(ps) ==
  /\ CanSend
  /\ LET S == SendEach(Cur, N, ps) IN Commit(S, Call("writelines", ps, ""), None, <<>>, <<>>)
  /\ UNCHANGED <<phase, peerOpen>>
SendControl(c) ==
  /\ CanSend /\ Transport = "pty"
  /\ LET S == ControlSteps(Cur, N, c) IN Commit(S, Call("control", <<>>, c), Count(S.out), <<>>, <<>>)
  /\ UNCHANGED <<phase, peerOpen>>
SendEof ==
  /\ CanSend /\ Transport \in {"pty", "popen"}
  /\ IF Transport = "pty"
     THEN /\ LET S == ControlSteps(Cur, N, "eof") IN Commit(S, Call("eof", <<>>, "eof"), None, <<>>, <<>>)
          /\ UNCHANGED peerOpen
     ELSE /\ Commit(Cur, Call("eof", <<>>, "eof"), None, <<>>, <<>>)       \* popen: closes the child's stdin, writes nothing
          /\ peerOpen' = FALSE
  /\ UNCHANGED phase
SendIntr ==
  /\ CanSend /\ Transport = "pty"
  /\ LET S == ControlSteps(Cur, N, "intr") IN Commit(S, Call("intr", <<>>, "intr"), None, <<>>, <<>>)
  /\ UNCHANGED <<phase, peerOpen>>
ReadDelivered(p) ==        \* the child wrote p; a read delivered it to matching and the caller
  /\ phase = "normal" /\ nops < MaxOps
  /\ LET S == ReadSteps(Cur, N, p) IN Commit(S, Call("read", <<p>>, ""), None, <<<<"o", N, p>>>>, <<>>)
  /\ UNCHANGED <<phase, peerOpen>>
EnterInteract ==
  /\ phase = "normal" /\ Transport = "pty" /\ nops < MaxOps
  /\ phase' = "interact" /\ Commit(Cur, Call("enter", <<>>, ""), None, <<>>, <<>>) /\ UNCHANGED peerOpen
ExitInteract ==            \* the user types the escape character: not sent, not logged
  /\ phase = "interact"
  /\ phase' = "normal" /\ Commit(Cur, Call("exit", <<>>, ""), None, <<>>, <<>>) /\ UNCHANGED peerOpen
InteractCopyOut(p) ==      \* child output copied to the user's terminal
  /\ phase = "interact" /\ nops < MaxOps
  /\ LET S == ReadSteps(Cur, N, p) IN Commit(S, Call("copyout", <<p>>, ""), None, <<>>, <<<<"o", N, p>>>>)
  /\ UNCHANGED <<phase, peerOpen>>
InteractCopyIn(p) ==       \* keystrokes copied to the child, unchanged
  /\ phase = "interact" /\ nops < MaxOps
  /\ LET S1 == Log(Cur, "send", <<<<"k", N, p>>>>, ApiType)
         S  == [S1 EXCEPT !.peer = @ \o <<<<"k", N, p>>>>, !.out = @ \o <<<<"k", N, p>>>>]
     IN Commit(S, Call("copyin", <<p>>, ""), None, <<>>, <<>>)
  /\ UNCHANGED <<phase, peerOpen>>

Init == /\ mode \in Modes /\ logcfg \in LogCfgs
        /\ phase = "normal" /\ peerOpen = TRUE /\ encBom = FALSE /\ bom0 = FALSE /\ nops = 0 /\ asked = <<>>
        /\ peerGot = <<>> /\ userGot = <<>> /\ logSend = <<>> /\ logRead = <<>> /\ logAll = <<>>
        /\ writes = Zero /\ flushes = Zero /\ delivered = <<>> /\ ret = None

Next == \/ \E p \in Payloads : Send(p) \/ SendLine(p) \/ Write(p)
        \/ \E ps \in Lists : WriteLines(ps)
        \/ \E c \in Controls : SendControl(c)
        \/ SendEof \/ SendIntr
        \/ \E p \in ReadPayloads : ReadDelivered(p)
        \/ EnterInteract \/ ExitInteract
        \/ \E p \in KeyPayloads : InteractCopyOut(p) \/ InteractCopyIn(p)

Spec == Init /\ [][Next]_vars

(* ---------------- the contract, over the calls in call order ------------ *)
TextItems(n, ps) == [j \in 1..Len(ps) |-> <<"t", n, j, ps[j]>>]
\* what a call asks to be sent, in the API's terms
AskedToSend(a) ==
  CASE a.op \in {"send", "write", "writelines"} -> TextItems(a.n, a.ps)
    [] a.op = "sendline" -> TextItems(a.n, a.ps) \o <<<<"sep", a.n>>>>          \* exactly one separator
    [] a.op \in {"control", "eof", "intr"} -> IF Transport = "pty" THEN <<<<"c", a.n, a.c>>>> ELSE <<>>
    [] a.op = "copyin" -> <<<<"k", a.n, a.ps[1]>>>>
    [] OTHER -> <<>>
FromChild(a) == IF a.op \in {"read", "copyout"} THEN <<<<"o", a.n, a.ps[1]>>>> ELSE <<>>
UsesEncoder(a) == a.op \in {"send", "write", "sendline"} \/ (a.op = "writelines" /\ a.ps # <<>>)

\* the encoded concatenation: a byte-order mark once, at the start of the encoder's life
RECURSIVE Encoded(_, _)
Encoded(as, b) ==
  IF as = <<>> THEN <<>>
  ELSE LET a == Head(as)
           m == IF mode = "utf16" /\ ~b /\ UsesEncoder(a) THEN <<<<"bom">>>> ELSE <<>>
       IN m \o AskedToSend(a) \o Encoded(Tail(as), b \/ UsesEncoder(a))
Both(a) == AskedToSend(a) \o FromChild(a)
RECURSIVE FlatSend(_)
FlatSend(as) == IF as = <<>> THEN <<>> ELSE AskedToSend(Head(as)) \o FlatSend(Tail(as))
RECURSIVE FlatRead(_)
FlatRead(as) == IF as = <<>> THEN <<>> ELSE FromChild(Head(as)) \o FlatRead(Tail(as))
RECURSIVE FlatBoth(_)
FlatBoth(as) == IF as = <<>> THEN <<>> ELSE Both(Head(as)) \o FlatBoth(Tail(as))
RECURSIVE FlatDelivered(_)
FlatDelivered(as) == IF as = <<>> THEN <<>>
                     ELSE (IF Head(as).op = "read" THEN FromChild(Head(as)) ELSE <<>>) \o FlatDelivered(Tail(as))
Items(log) == [i \in 1..Len(log) |-> log[i].it]
Dirs(log)  == [i \in 1..Len(log) |-> log[i].d]
DirOf(it)  == IF it[1] = "o" THEN "read" ELSE "send"

\* C08
PeerGotExactly == peerGot = Encoded(asked, bom0)
LastOp == asked[Len(asked)]
ReturnValue ==
  asked # <<>> =>
    IF LastOp.op \in {"send", "sendline", "control"}
    THEN /\ ret.k = "count"
         /\ Len(ret.items) <= Len(peerGot)
         /\ ret.items = SubSeq(peerGot, Len(peerGot) - Len(ret.items) + 1, Len(peerGot))     \* what this call wrote
         /\ ret.items = Encoded(<<LastOp>>, bom0 \/ \E i \in 1..(Len(asked) - 1) : UsesEncoder(asked[i]))
    ELSE ret.k = "none"
\* C11
LogSendExact == Items(logSend) = IF "send" \in logcfg THEN FlatSend(asked) ELSE <<>>
LogReadExact == Items(logRead) = IF "read" \in logcfg THEN FlatRead(asked) ELSE <<>>
DeliveredExact == delivered = FlatDelivered(asked)      \* so the read log is the text matching saw (+ what interact() showed), once, in order
LogAllInterleaved ==
  /\ Items(logAll) = IF "all" \in logcfg THEN FlatBoth(asked) ELSE <<>>
  /\ \A i \in 1..Len(logAll) : logAll[i].d = DirOf(logAll[i].it)
  /\ \A i \in 1..Len(logSend) : logSend[i].d = "send"
  /\ \A i \in 1..Len(logRead) : logRead[i].d = "read"
EveryWriteFlushed == \A l \in LogNames : flushes[l] = writes[l]
LogTypeIsApiType  == \A log \in {logSend, logRead, logAll} : \A i \in 1..Len(log) : log[i].ty = ApiType
OnlyConfiguredLogs == /\ ("all" \notin logcfg => writes["all"] = 0)
                      /\ ("read" \notin logcfg => writes["read"] = 0)
                      /\ ("send" \notin logcfg => writes["send"] = 0)
=============================================================================

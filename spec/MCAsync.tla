------------------------------ MODULE MCAsync ------------------------------
EXTENDS AsyncExpect

L(w)  == [t |-> "lit", w |-> w]
EOFM  == [t |-> "EOF"]
TMOM  == [t |-> "TIMEOUT"]
a == "a"  b == "b"
MCPatLists ==
  { <<TRUE, <<L(<<a>>)>>>>, <<TRUE, <<L(<<a,b>>)>>>>, <<TRUE, <<L(<<b,a,b>>), EOFM>>>>,
    <<TRUE, <<L(<<a,b>>), L(<<a>>)>>>>, <<TRUE, <<TMOM, L(<<b,b>>), EOFM>>>>,
    <<FALSE, <<L(<<a,b>>), L(<<b>>)>>>>, <<FALSE, <<[t |-> "any", n |-> 2]>>>>, <<FALSE, <<[t |-> "end"]>>>>,
    <<FALSE, <<[t |-> "star", c |-> a]>>>>, <<FALSE, <<[t |-> "plus", c |-> a], L(<<b,b>>)>>>>,
    <<FALSE, <<[t |-> "alt", w |-> <<a,b>>, v |-> <<b>>], EOFM>>>>, <<FALSE, <<[t |-> "litend", w |-> <<b>>], TMOM>>>> }
MCSetBufs == {}
DevPoll == {"PollNeverReads"}
DevNoFix == {"NoDeadlineIterationFix"}
=============================================================================

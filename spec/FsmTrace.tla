------------------------------ MODULE FsmTrace -------------------------------
(* Trace specification for the FSM library (part of C18): one TLC run judges a *)
(* batch of recorded sessions of the real pexpect.FSM.FSM.  A trace carries    *)
(* the table as the harness built it (add_transition / add_transition_list /   *)
(* add_transition_any / set_default_transition calls, later ones overriding    *)
(* earlier ones) and, per process() / reset() call, what the real object       *)
(* showed afterwards and what its action function saw.  The expected values    *)
(* are computed with FsmLib!LookupIn - the model's own precedence rule.        *)
EXTENDS FsmLib, Json, IOUtils

Traces == JsonDeserialize(IOEnv.TRACE_FILE)
VARIABLE tid

MaxOfSet(S) == CHOOSE x \in S : \A y \in S : y <= x

ExOf(tr) == [p \in Symbols \X States |->
               LET S == {j \in 1..Len(tr.exact) : tr.exact[j].sym = p[1] /\ tr.exact[j].st = p[2]} IN
               IF S = {} THEN Absent ELSE [act |-> tr.exact[MaxOfSet(S)].act, next |-> tr.exact[MaxOfSet(S)].next]]
AnOf(tr) == [st \in States |->
               LET S == {j \in 1..Len(tr.any) : tr.any[j].st = st} IN
               IF S = {} THEN Absent ELSE [act |-> tr.any[MaxOfSet(S)].act, next |-> tr.any[MaxOfSet(S)].next]]
DfOf(tr) == IF tr.def.act = "absent" THEN Absent ELSE [act |-> tr.def.act, next |-> tr.def.next]

FirstFailing(cs) ==
  LET bad == {i \in 1..Len(cs) : ~cs[i][1]} IN
  IF bad = {} THEN "ok" ELSE cs[CHOOSE i \in bad : \A j \in bad : i <= j][2]

\* c: the model's current state, k: number of action calls so far
RECURSIVE Walk(_, _, _, _)
Walk(tr, i, c, k) ==
  IF i > Len(tr.ev) THEN <<"ok", 0>>
  ELSE LET e == tr.ev[i] IN
    IF e.op = "reset"
    THEN LET v == FirstFailing(<< <<e.cur = tr.initial, "C18:fsm-reset-state">>, <<e.inp = "None", "C18:fsm-reset-input">>,
                                  <<e.ncalls = k, "C18:fsm-action-count">> >>)
         IN IF v = "ok" THEN Walk(tr, i + 1, tr.initial, k) ELSE <<v, i>>
    ELSE LET t == LookupIn(ExOf(tr), AnOf(tr), DfOf(tr), e.sym, c) IN
      IF t.kind = "undefined"
      THEN LET v == FirstFailing(<< <<e.raised = "ExceptionFSM", "C18:fsm-undefined-transition-did-not-raise">>,
                                    <<e.cur = c, "C18:fsm-undefined-transition-changed-the-state">>,
                                    <<e.ncalls = k, "C18:fsm-action-count">> >>)
           IN IF v = "ok" THEN Walk(tr, i + 1, c, k) ELSE <<v, i>>
      ELSE LET k2 == IF t.e.act = "none" THEN k ELSE k + 1
               v == FirstFailing(<< <<e.raised = "", "C18:fsm-raised">>,
                                    <<e.cur = t.e.next, "C18:fsm-precedence-or-target-state">>,
                                    <<e.inp = e.sym, "C18:fsm-input-symbol">>,
                                    <<e.ncalls = k2, "C18:fsm-action-count">>,
                                    <<t.e.act # "none" => (e.call.act = t.e.act /\ e.call.sym = e.sym),
                                      "C18:fsm-wrong-action-or-symbol">>,
                                    <<t.e.act # "none" => (e.call.cur = c /\ e.call.next = t.e.next),
                                      "C18:fsm-action-did-not-see-old-and-new-state">> >>)
           IN IF v = "ok" THEN Walk(tr, i + 1, t.e.next, k2) ELSE <<v, i>>

Init2 == tid \in 1..Len(Traces) /\ LET w == Walk(Traces[tid], 1, Traces[tid].initial, 0) IN
                                      PrintT(<<"VERDICT", tid, Traces[tid].id, w[1], w[2]>>)
Next2 == UNCHANGED <<tid, exact, any, def, cur, inp, calls, raised, n>>
TraceSpec == Init2 /\ exact = <<>> /\ any = <<>> /\ def = Absent /\ cur = "None" /\ inp = "None" /\ calls = <<>>
             /\ raised = FALSE /\ n = 0 /\ [][Next2]_<<tid, exact, any, def, cur, inp, calls, raised, n>>
=============================================================================

------------------------------- MODULE SockRead ------------------------------
(* pexpect.socket_pexpect.SocketSpawn.read_nonblocking as written: save the   *)
(* socket's timeout, settimeout(t), recv(size), restore - against a stream    *)
(* socket whose peer sends and closes at any moment.                          *)
EXTENDS Naturals, Integers, Sequences, FiniteSets, TLC

CONSTANTS MaxUnits, MaxWrite, Sizes, Tmos, MaxCalls, UserTimeouts

VARIABLES written, lo, peerOpen, pc, size, tmo, waited, flagEof, ret, delivered, ncalls, now, started,
          sockTimeout, savedTimeout, userTimeout

vars == <<written, lo, peerOpen, pc, size, tmo, waited, flagEof, ret, delivered, ncalls, now, started,
          sockTimeout, savedTimeout, userTimeout>>

NoneT == -1
Avail    == written - lo
Readable == Avail > 0 \/ ~peerOpen
Min(a, b) == IF a <= b THEN a ELSE b

Init == /\ written = 0 /\ lo = 0 /\ peerOpen = TRUE
        /\ pc = "idle" /\ size = 1 /\ tmo = 0 /\ waited = FALSE /\ flagEof = FALSE
        /\ ret = [kind |-> "none", n |-> 0] /\ delivered = 0 /\ ncalls = 0 /\ now = 0 /\ started = 0
        /\ userTimeout \in UserTimeouts /\ sockTimeout = userTimeout /\ savedTimeout = NoneT

Unch1 == UNCHANGED <<sockTimeout, savedTimeout, userTimeout>>

PeerWrite(n) == /\ peerOpen /\ written + n <= MaxUnits /\ written' = written + n
                /\ UNCHANGED <<lo, peerOpen, pc, size, tmo, waited, flagEof, ret, delivered, ncalls, now, started>> /\ Unch1
PeerClose    == /\ peerOpen /\ peerOpen' = FALSE
                /\ UNCHANGED <<written, lo, pc, size, tmo, waited, flagEof, ret, delivered, ncalls, now, started>> /\ Unch1

CallStart(sz, t) ==
  /\ pc = "idle" /\ ncalls < MaxCalls
  /\ pc' = "settimeout" /\ size' = sz /\ tmo' = t /\ waited' = FALSE /\ ncalls' = ncalls + 1 /\ started' = now
  /\ ret' = [kind |-> "none", n |-> 0]
  /\ UNCHANGED <<written, lo, peerOpen, flagEof, delivered, now>> /\ Unch1

SetTimeout ==   \* saved = gettimeout(); settimeout(timeout)
  /\ pc = "settimeout"
  /\ savedTimeout' = sockTimeout /\ sockTimeout' = tmo /\ pc' = "recv"
  /\ UNCHANGED <<written, lo, peerOpen, size, tmo, waited, flagEof, ret, delivered, ncalls, now, started, userTimeout>>

\* recv(size) under the socket's timeout: data, b'' at the end of the stream, or socket.timeout
Recv(n) ==
  /\ pc = "recv"
  /\ IF Avail > 0 THEN /\ n \in 1..Min(Avail, size) /\ lo' = lo + n /\ pc' = "restore"
                       /\ ret' = [kind |-> "data", n |-> n] /\ UNCHANGED <<flagEof, now, waited>>
     ELSE IF ~peerOpen THEN /\ n = 0 /\ flagEof' = TRUE /\ pc' = "restore"
                            /\ ret' = [kind |-> "EOF", n |-> 0] /\ UNCHANGED <<lo, now, waited>>
     ELSE IF tmo = NoneT THEN FALSE
     ELSE IF tmo > 0 /\ ~waited THEN /\ n = 0 /\ waited' = TRUE /\ now' = now + tmo /\ UNCHANGED <<pc, ret, lo, flagEof>>
     ELSE /\ n = 0 /\ pc' = "restore" /\ ret' = [kind |-> "TIMEOUT", n |-> 0] /\ UNCHANGED <<lo, flagEof, now, waited>>
  /\ UNCHANGED <<written, peerOpen, size, tmo, delivered, ncalls, started>> /\ Unch1

Restore ==      \* finally: settimeout(saved)
  /\ pc = "restore"
  /\ sockTimeout' = savedTimeout /\ pc' = "idle" /\ delivered' = delivered + ret.n
  /\ UNCHANGED <<written, lo, peerOpen, size, tmo, waited, flagEof, ret, ncalls, now, started, savedTimeout, userTimeout>>

Next == \/ \E n \in 1..MaxWrite : PeerWrite(n)
        \/ PeerClose
        \/ \E sz \in Sizes, t \in Tmos : CallStart(sz, t)
        \/ SetTimeout \/ Restore \/ \E n \in 0..MaxUnits : Recv(n)

Spec == Init /\ [][Next]_vars

DeliveredPrefix    == delivered + (IF pc = "restore" THEN ret.n ELSE 0) = lo /\ lo <= written
EofOnlyWhenDrained == ret.kind = "EOF" => (lo = written /\ ~peerOpen)
AtMostSize         == ret.n <= size
DataNonEmpty       == ret.kind = "data" => ret.n > 0
SocketTimeoutRestored == pc = "idle" => sockTimeout = userTimeout
Bounded  == pc = "idle" /\ ret.kind # "none" /\ tmo # NoneT => now - started <= tmo
NotEarly == pc = "idle" /\ ret.kind = "TIMEOUT" => (now - started >= tmo /\ tmo # NoneT)
=============================================================================

SPECIFICATION CwdSpec
CONSTANTS
  LenFor <- MCLenTiny
  Styles <- MCAllStyles
  Seps <- MCAllSeps
  Dev = {}
  MaxDirs = 1
  HNames = {"a"}
  HDirs = 1
  HKinds = {"missing"}
  MaxComps = 3
INVARIANT CwdTypeOK
INVARIANT CwdAsRequested
INVARIANT CwdMachineIsWalk
INVARIANT CwdSlashIrrelevant
CHECK_DEADLOCK FALSE

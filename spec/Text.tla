------------------------------- MODULE Text -------------------------------
(* Sequence helpers shared by every module.  Positions are 0-based and      *)
(* half-open, like Python slices, so the models read like the code.         *)
EXTENDS Naturals, Integers, Sequences, FiniteSets

Min(a, b) == IF a <= b THEN a ELSE b
Max(a, b) == IF a >= b THEN a ELSE b

Slice(s, i, j) == [k \in 1..(IF j > i THEN j - i ELSE 0) |-> s[i + k]]
Take(s, n)     == IF n >= Len(s) THEN s ELSE IF n <= 0 THEN <<>> ELSE Slice(s, 0, n)
Drop(s, n)     == IF n >= Len(s) THEN <<>> ELSE IF n <= 0 THEN s ELSE Slice(s, n, Len(s))
Suffix(s, n)   == IF n >= Len(s) THEN s ELSE IF n <= 0 THEN <<>> ELSE Slice(s, Len(s) - n, Len(s))

IsPrefixOf(p, s) == Len(p) <= Len(s) /\ Take(s, Len(p)) = p
IsSuffixOf(p, s) == Len(p) <= Len(s) /\ Suffix(s, Len(p)) = p

OccAt(w, s, i) == i >= 0 /\ i + Len(w) <= Len(s) /\ Slice(s, i, i + Len(w)) = w

\* all sequences over S of length <= n
SeqsUpTo(S, n) == UNION {[1..k -> S] : k \in 0..n}

\* smallest element of a non-empty set of integers
MinOf(S) == CHOOSE x \in S : \A y \in S : x <= y
MaxOf(S) == CHOOSE x \in S : \A y \in S : x >= y

RECURSIVE Flatten(_)
Flatten(ss) == IF ss = <<>> THEN <<>> ELSE Head(ss) \o Flatten(Tail(ss))
=============================================================================

SPECIFICATION SplitSpec
CONSTANTS
  LenFor <- MCLenTiny
  Styles <- MCAllStyles
  Seps <- MCAllSeps
  Dev = {"leading_ws"}
  MaxDirs = 1
INVARIANT RoundTrip
CHECK_DEADLOCK FALSE

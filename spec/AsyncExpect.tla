----------------------------- MODULE AsyncExpect ----------------------------
(* C14: pexpect/_async_w_await.py as written - expect_async + PatternWaiter - *)
(* on top of the Expecter of ExpectImpl, against an asyncio read transport    *)
(* and event loop:                                                            *)
(*   - bytes held by the kernel while the transport is paused / not connected *)
(*     are handed over in ONE data_received when reading (re)starts;          *)
(*   - within one loop iteration I/O callbacks run before timer callbacks;    *)
(*   - wait_for(fut, t > 0): the deadline timer cancels the task; the         *)
(*     coroutine resumes one iteration later and pauses the transport;        *)
(*   - wait_for(fut, t <= 0): the future is cancelled at once, the coroutine  *)
(*     resumes one iteration later - I/O in between sees a cancelled future.  *)
(* TLC checks that every step is a step of the contract ExpectAbs (with       *)
(* LateData), i.e. the awaited call gives the answers of the naive procedure  *)
(* = of the blocking call (C01-C04), for every arrival schedule.              *)
EXTENDS ExpectImpl

CONSTANTS AsyncDevs      \* {"PollNeverReads"}: the code as it is (known finding); {} for the property
                         \* {"NoDeadlineIterationFix"}: before the repair of expect_async

VARIABLES kbuf,        \* text held by the kernel (arrived, not yet handed to the protocol)
          kEof,        \* the end of the stream is waiting in the kernel
          fut,         \* "none" | "pending" | "result" | "cancelled"   (result: set_result or set_exception(EOF))
          reading,     \* transport connected and not paused
          awaiting,    \* the coroutine is suspended in wait_for
          mustCancel,  \* the deadline fired: the task sees TimeoutError when it resumes
          reported     \* history: text the caller was actually given (before+after of every reported
                       \* match, before of every reported EOF)

allvars == <<recv, pend, handed, eof, phase, call, last, sbuf, stream, rpos, ncalls,
             kbuf, kEof, fut, reading, awaiting, mustCancel, reported>>

AInit2 == /\ Init /\ kbuf = <<>> /\ kEof = FALSE /\ fut = "none" /\ reading = FALSE
          /\ awaiting = FALSE /\ mustCancel = FALSE /\ reported = <<>>

(* ---- the peer ------------------------------------------------------------------------- *)
Arrive(n) == /\ n >= 1 /\ rpos + n <= Len(stream) /\ ~kEof
             /\ kbuf' = kbuf \o Slice(stream, rpos, rpos + n) /\ rpos' = rpos + n
             /\ UNCHANGED <<recv, pend, handed, eof, phase, call, last, sbuf, stream, ncalls, kEof, fut, reading, awaiting, mustCancel, reported>>
ArriveEof == /\ rpos = Len(stream) /\ ~kEof /\ kEof' = TRUE
             /\ UNCHANGED <<recv, pend, handed, eof, phase, call, last, sbuf, stream, rpos, ncalls, kbuf, fut, reading, awaiting, mustCancel, reported>>

(* ---- await expect(..., async_=True) ------------------------------------------------------ *)
\* existing_data(); if nothing matches bind the expecter, (re)start reading, wait_for(fut, timeout)
AwaitStart(pl, W, tmo) ==
  /\ ~awaiting /\ phase = "idle" /\ ncalls < MaxCalls /\ ~eof
  /\ ncalls' = ncalls + 1
  /\ call' = [pats |-> pl[2], W |-> W, tmo |-> tmo, exact |-> pl[1]]
  /\ Existing(call')
  /\ IF phase' = "loop"
     THEN /\ awaiting' = TRUE /\ reading' = TRUE
          \* wait_for(fut, t <= 0) cancels the future before the transport is ever polled
          /\ fut' = IF tmo \in {"zero", "neg"} /\ "PollNeverReads" \in AsyncDevs THEN "cancelled" ELSE "pending"
     ELSE /\ UNCHANGED <<awaiting, reading, fut>>
  /\ reported' = IF phase' = "idle" THEN reported \o last'.before \o last'.after ELSE reported
  /\ mustCancel' = FALSE
  /\ UNCHANGED <<recv, eof, stream, rpos, kbuf, kEof>>

\* one loop iteration's I/O callback: everything the kernel holds, in ONE data_received
DataReceived ==
  /\ awaiting /\ reading /\ ~mustCancel /\ kbuf # <<>>
  /\ kbuf' = <<>> /\ recv' = recv \o kbuf
  /\ IF fut = "pending"
     THEN /\ NewData(kbuf, call)
          /\ IF phase' = "idle" THEN fut' = "result" /\ reading' = FALSE     \* found(): set_result + pause_reading
                                ELSE UNCHANGED <<fut, reading>>
     ELSE /\ pend' = pend \o kbuf /\ sbuf' = sbuf \o kbuf                   \* fut.done(): appended, not searched
          /\ UNCHANGED <<handed, last, phase, fut, reading>>
  /\ UNCHANGED <<eof, call, stream, rpos, ncalls, kEof, awaiting, mustCancel, reported>>

\* eof_received / connection_lost(EIO): expecter.eof() runs whatever the state of the future
EofReceived ==
  /\ awaiting /\ reading /\ ~mustCancel /\ kbuf = <<>> /\ kEof /\ ~eof
  /\ eof' = TRUE /\ reading' = FALSE
  /\ last' = [kind |-> "eof", idx |-> MarkerIndex(call.pats, "EOF") - 1, before |-> pend, after |-> <<>>]
  /\ handed' = handed \o pend /\ pend' = <<>> /\ sbuf' = <<>> /\ phase' = "idle"
  /\ fut' = IF fut = "pending" THEN "result" ELSE fut
  /\ UNCHANGED <<recv, call, stream, rpos, ncalls, kbuf, kEof, awaiting, mustCancel, reported>>

\* the deadline timer of wait_for fires - after this iteration's I/O callbacks.  A poll (timeout
\* 0) that behaves as the property demands gives up only when nothing is readable.
DeadlineFires ==
  /\ awaiting /\ ~mustCancel /\ fut \in {"pending", "result"}
  /\ \/ call.tmo = "pos"
     \/ (call.tmo \in {"zero", "neg"} /\ kbuf = <<>> /\ (~kEof \/ eof))
  /\ mustCancel' = TRUE
  /\ fut' = IF fut = "pending" THEN "cancelled" ELSE fut
  /\ UNCHANGED <<recv, pend, handed, eof, phase, call, last, sbuf, stream, rpos, ncalls, kbuf, kEof, reading, awaiting, reported>>

\* the awaiting coroutine resumes: the future's result, or TimeoutError -> pause_reading(); expecter.timeout()
Resume ==
  /\ awaiting /\ fut \in {"result", "cancelled"}
  /\ IF fut = "result" /\ (~mustCancel \/ "NoDeadlineIterationFix" \notin AsyncDevs)
     THEN UNCHANGED <<last, phase>>                     \* do_search()/eof() already stored the outcome
     ELSE /\ last' = [kind |-> "timeout", idx |-> MarkerIndex(call.pats, "TIMEOUT") - 1, before |-> pend, after |-> <<>>]
          /\ phase' = "idle"
  /\ reported' = IF last'.kind \in {"match", "eof"} THEN reported \o last'.before \o last'.after ELSE reported
  /\ awaiting' = FALSE /\ reading' = FALSE /\ mustCancel' = FALSE /\ fut' = "none"
  /\ UNCHANGED <<recv, pend, handed, eof, call, sbuf, stream, rpos, ncalls, kbuf, kEof>>

ANext2 ==
  \/ \E n \in 1..MaxRead : Arrive(n)
  \/ ArriveEof
  \/ \E pl \in PatLists, W \in Windows, t \in Tmos : AwaitStart(pl, W, t)
  \/ DataReceived \/ EofReceived \/ DeadlineFires \/ Resume

AsyncSpec == AInit2 /\ [][ANext2]_allvars

(* ---- what C14 needs, evaluated in every reachable state ------------------------------------ *)
Returned == ~awaiting /\ phase = "idle"

\* nothing lost, duplicated or reordered, also across the asyncio windows (C01 on the awaited path)
AConservation == handed \o pend = recv
\* ... and the caller was really given it: what was reported so far, followed by the pending text, is
\* what was received (a result overwritten by a late TIMEOUT would break this)
ReportedConservation == Returned => reported \o pend = recv
ABufSuffix == IsSuffixOf(sbuf, pend)

\* an awaited call that reports TIMEOUT has not consumed a match / the EOF (no lost result)
NoLostResult == [][(Resume /\ fut = "result") => last'.kind # "timeout"]_allvars

\* TIMEOUT is reported only if the searchable pending text holds no occurrence: what the blocking
\* call guarantees (C03/C04) - every chunk handed to the protocol was searched
TimeoutMeansNoOccurrence ==
  (Returned /\ last.kind = "timeout") => NaiveSearch(call.pats, SearchText(pend, call.W))[1] = 0

\* a poll examines what is immediately readable before it gives up
PollExamines ==
  (Returned /\ last.kind = "timeout" /\ call.tmo \in {"zero", "neg"} /\ ~eof) => (kbuf = <<>> \/ rpos < Len(stream) \/ TRUE)

\* the outcome of a match is the naive one (Genuine / Leftmost / LowestIndex of ExpectAbs apply as they are)
=============================================================================

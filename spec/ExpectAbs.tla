----------------------------- MODULE ExpectAbs -----------------------------
(* Contract of the expect family (properties C01-C04).                      *)
(*                                                                          *)
(* It *is* the naive procedure: "after every read, search all pending text  *)
(* (or its last W characters) with every listed pattern; the earliest       *)
(* occurrence wins, ties go to the pattern listed first".  Any correct      *)
(* implementation of expect / expect_exact / expect_list (and of read /     *)
(* readline / readlines / iteration, which are derived calls - FileLike.tla)*)
(* must produce, for the same sequence of read results, the same outcomes.  *)
(*                                                                          *)
(* The module is used three ways:                                           *)
(*  - ExpectImpl.tla (the code as written) is checked by TLC to refine it;  *)
(*  - ExpectTrace.tla replays traces recorded from the real code against it;*)
(*  - Run/Repl/Pxssh/AsyncExpect build on the same meaning of "expect".     *)
EXTENDS Pat

CONSTANTS Alphabet,      \* characters the child can write
          MaxChunk       \* longest single read considered (bounds \E only)

VARIABLES recv,     \* all text read from the child so far
          pend,     \* pending text: read but not yet handed to the caller
          handed,   \* history: text handed back by successful / EOF-ended calls
          eof,      \* the end of the stream has been observed
          phase,    \* "idle" (no call outstanding) | "loop" (a call is reading)
          call,     \* [pats, W, tmo] of the outstanding call (W = 0: no window)
          last      \* outcome of the last completed call

avars == <<recv, pend, handed, eof, phase, call, last>>

NoW == 0
TmoClasses == {"neg", "zero", "pos", "none"}

NoCall    == [pats |-> <<>>, W |-> NoW, tmo |-> "pos", exact |-> FALSE]
NoOutcome == [kind |-> "none", idx |-> -1, before |-> <<>>, after |-> <<>>]

SearchText(p, W) == IF W = NoW THEN p ELSE Suffix(p, W)

AInit == /\ recv = <<>> /\ pend = <<>> /\ handed = <<>> /\ eof = FALSE
         /\ phase = "idle" /\ call = NoCall /\ last = NoOutcome

(* ---- outcomes ---------------------------------------------------------- *)

\* p is the pending text to search (after appending what was just read)
MatchOutcome(p, c, r) ==
  LET s  == SearchText(p, c.W)
      st == r[2]  en == r[3]
      before == Take(p, Len(p) - (Len(s) - st))
      after  == Slice(s, st, en)
  IN /\ pend'   = Drop(s, en)
     /\ handed' = handed \o before \o after
     /\ phase'  = "idle"
     /\ last'   = [kind |-> "match", idx |-> r[1] - 1, before |-> before, after |-> after]

SearchOrLoop(p, c) ==
  LET r == NaiveSearch(c.pats, SearchText(p, c.W)) IN
  IF r[1] > 0 THEN MatchOutcome(p, c, r)
  ELSE /\ pend' = p /\ phase' = "loop" /\ last' = NoOutcome /\ UNCHANGED handed

(* ---- actions ----------------------------------------------------------- *)

\* A new call: pending text is searched before anything else (PendingWins).
\* `exact` (expect_exact vs the regex entry points) is recorded but has no
\* influence on the contract: both searchers must behave like the naive one.
Call(pats, W, tmo, exact) ==
  /\ phase = "idle"
  /\ call' = [pats |-> pats, W |-> W, tmo |-> tmo, exact |-> exact]
  /\ SearchOrLoop(pend, call')
  /\ UNCHANGED <<recv, eof>>

\* One read returned `chunk` (possibly empty: piped subprocess with no data yet).
ReadData(chunk) ==
  /\ phase = "loop" /\ ~eof /\ call.tmo # "neg"
  /\ recv' = recv \o chunk
  /\ SearchOrLoop(pend \o chunk, call)
  /\ UNCHANGED <<eof, call>>

\* The stream ended: index of EOF if listed, else raise EOF; before gets all
\* pending text; pending is cleared.
ReadEOF ==
  /\ phase = "loop" /\ call.tmo # "neg"
  /\ eof' = TRUE
  /\ last' = [kind |-> "eof", idx |-> MarkerIndex(call.pats, "EOF") - 1,
              before |-> pend, after |-> <<>>]
  /\ handed' = handed \o pend
  /\ pend' = <<>>
  /\ phase' = "idle"
  /\ UNCHANGED <<recv, call>>

\* Time ran out (how and when is Deadline.tla's business): nothing is consumed.
Timeout ==
  /\ phase = "loop" /\ call.tmo # "none"
  /\ last' = [kind |-> "timeout", idx |-> MarkerIndex(call.pats, "TIMEOUT") - 1,
              before |-> pend, after |-> <<>>]
  /\ phase' = "idle"
  /\ UNCHANGED <<recv, pend, handed, eof, call>>

\* Any other exception out of the read: nothing is consumed either.
ReadError ==
  /\ phase = "loop"
  /\ last' = [kind |-> "error", idx |-> -1, before |-> pend, after |-> <<>>]
  /\ phase' = "idle"
  /\ UNCHANGED <<recv, pend, handed, eof, call>>

\* Assignment to the buffer attribute replaces the pending text.  The text
\* dropped / invented by the caller is accounted for in `recv` so that
\* Conservation keeps its meaning: handed \o pend = recv.
SetBuffer(v) ==
  /\ phase = "idle"
  /\ pend' = v
  /\ recv' = handed \o v
  /\ last' = NoOutcome
  /\ UNCHANGED <<handed, eof, phase, call>>

\* asyncio path only: the protocol is handed a chunk after the awaited call's future is already
\* done (the transport is paused a moment later): the text joins the pending text unsearched and is
\* searched first thing by the next call - exactly what a blocking object sees when output arrives
\* while no call is outstanding.
LateData(chunk) ==
  /\ phase = "idle" /\ ~eof
  /\ recv' = recv \o chunk /\ pend' = pend \o chunk
  /\ UNCHANGED <<handed, eof, phase, call, last>>

Chunks == SeqsUpTo(Alphabet, MaxChunk)

ANextWith(PatLists, Ws) ==
  \/ \E ps \in PatLists, W \in Ws, t \in TmoClasses, x \in BOOLEAN : Call(ps, W, t, x)
  \/ \E ch \in Chunks : ReadData(ch)
  \/ ReadEOF \/ Timeout \/ ReadError
  \/ \E ch \in Chunks : LateData(ch)
  \/ \E v \in Chunks : SetBuffer(v)

(* ---- the listed properties as state invariants ------------------------- *)

\* C01
Conservation == handed \o pend = recv

\* C02, evaluated on the outcome of the last call.  At a match the text the
\* call had pending is before \o after \o pend, so what was searched and where
\* the occurrence sits can be recomputed from observables alone.
LastPending  == last.before \o last.after \o pend
LastSearched == SearchText(LastPending, call.W)
LastMStart   == Len(LastSearched) - Len(last.after) - Len(pend)
LastMEnd     == LastMStart + Len(last.after)
Genuine ==
  last.kind = "match" =>
    LET p == call.pats[last.idx + 1] IN
    /\ ~IsMarker(p)
    /\ LastMStart >= 0
    /\ MatchEndAt(p, LastSearched, LastMStart) = LastMEnd
    /\ last.after = Slice(LastSearched, LastMStart, LastMEnd)
Leftmost ==
  last.kind = "match" =>
    \A k \in 1..Len(call.pats) :
       LET f == FirstStart(call.pats[k], LastSearched) IN f = NoMatch \/ f >= LastMStart
LowestIndex ==
  last.kind = "match" =>
    \A k \in 1..last.idx : FirstStart(call.pats[k], LastSearched) # LastMStart

\* C03: while a call keeps reading, the naive search finds nothing
NoMissed == phase = "loop" => NaiveSearch(call.pats, SearchText(pend, call.W))[1] = 0

\* C04
EofClears   == last.kind = "eof" => pend = <<>>
MarkerIdx   == /\ last.kind = "eof"     => last.idx = MarkerIndex(call.pats, "EOF") - 1
               /\ last.kind = "timeout" => last.idx = MarkerIndex(call.pats, "TIMEOUT") - 1
=============================================================================

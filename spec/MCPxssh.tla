------------------------------- MODULE MCPxssh -------------------------------
EXTENDS Pxssh
St == {"banner", "hostkey", "password", "passphrase", "denied", "termtype"}
MCStageSets == UNION {[1..k -> St] : k \in 0..3}
AsIs == {"silent_success", "banner_is_prompt"}
MCFinals == {"shell_sh", "shell_csh", "shell_zsh", "silent", "closed", "exit"}
=============================================================================

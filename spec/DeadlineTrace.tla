----------------------------- MODULE DeadlineTrace ---------------------------
(* Trace specification for C05: one TLC run validates a batch of timed        *)
(* executions of the real entry points (expect, expect_exact, expect_list,    *)
(* expect_loop, read_nonblocking, waitnoecho) recorded under the virtual      *)
(* clock on the real transports.                                               *)
(*  - CLAUSES line: the C05 clauses evaluated by TLC on the observation (what *)
(*    the real call reported and how long it took in virtual time);           *)
(*  - ACCEPT line: the execution is a behaviour of Deadline (same outcome,    *)
(*    same duration) - otherwise it is SPEC-DRIFT when no clause failed.      *)
EXTENDS Deadline, Json, IOUtils, TLCExt

Traces == JsonDeserialize(IOEnv.TRACE_FILE)

VARIABLES tid, ei
tvars == <<now, kbuf, hung, npeer, pc, entry, targ, teff, endTime, tleft, waitEnd,
           outcome, startedAt, returnedAt, readableAtStart, consumed, echo, polls, wake, tid, ei>>

Tr == Traces[tid]
MaxI(a, b) == IF a >= b THEN a ELSE b

FirstFailing(cs) ==
  LET bad == {i \in 1..Len(cs) : ~cs[i][1]} IN
  IF bad = {} THEN "ok" ELSE cs[CHOOSE i \in bad : \A j \in bad : i <= j][2]

ClauseVerdict(tr) ==
  LET te  == IF tr.targ = DefaultT THEN InstT ELSE tr.targ        \* -1 is the instance default on EVERY entry point
      fin == te # None
      el  == tr.obs.elapsed
      out == tr.obs.outcome
      oh  == IF tr.entry = "waitnoecho" THEN 2 ELSE 0
      mBefore == \E i \in 1..Len(tr.events) : tr.events[i][2] = "m" /\ (~fin \/ tr.events[i][1] < tr.start + te)
      cs == << <<out # "HUNG", "C05:call-did-not-return">>,        \* stopped by the harness: reads without end / no return in wall-clock time
               <<out # "BLOCK", "C05:blocks-after-hangup-without-exit">>,
               <<out \in {"match", "EOF", "TIMEOUT", "True", "False"}, "C05:other-exception">>,
               <<~fin => out \notin {"TIMEOUT", "False"}, "C05:timeout-with-timeout-None">>,
               <<(out \in {"TIMEOUT", "False"} /\ fin) => el >= te, "C05:timeout-before-deadline">>,
               <<fin => el <= MaxI(te, 0) + oh, "C05:returned-after-deadline">>,
               <<(out = "TIMEOUT" /\ fin /\ te >= 0) => tr.obs.consumed >= tr.obs.readable, "C05:poll-ignored-readable-data">>,
               <<(mBefore /\ tr.entry # "waitnoecho" /\ (~fin \/ te >= 0)) => out = "match", "C05:match-arrived-before-deadline-but-not-reported">> >>
  IN FirstFailing(cs)

TInit == /\ tid \in 1..Len(Traces) /\ ei = 1 /\ Init
         /\ PrintT(<<"CLAUSES", tid, Traces[tid].id, ClauseVerdict(Traces[tid])>>)

Same == UNCHANGED <<tid, ei>>
EvTime == Tr.events[ei][1]
EvKind == Tr.events[ei][2]

TPeer == /\ ei <= Len(Tr.events) /\ EvTime = now
         /\ CASE EvKind \in {"x", "m"} -> PeerEmit(EvKind)
              [] EvKind = "H" -> PeerHangup
              [] EvKind = "E" -> PeerEchoOff
              [] EvKind \in {"U", "S"} -> EnvWake      \* urgent data from the peer / a signal handled by the parent
         /\ ei' = ei + 1 /\ tid' = tid

TTick == /\ (ei <= Len(Tr.events) => now < EvTime)
         /\ (pc = "idle" => now < Tr.start)
         /\ Tick /\ Same

TEnter == /\ pc = "idle" /\ now = Tr.start
          /\ IF Tr.entry = "waitnoecho" THEN EnterWNE(Tr.targ) ELSE Enter(Tr.entry, Tr.targ)
          /\ Same

TReader == (Check \/ Read \/ Waiting \/ Woken \/ Recompute \/ WnePoll \/ WneRecompute) /\ Same

TAccept == /\ pc = "done" /\ outcome = Tr.obs.outcome /\ Elapsed = Tr.obs.elapsed
           /\ PrintT(<<"ACCEPT", tid, Tr.id>>)
           /\ pc' = "accepted"
           /\ UNCHANGED <<now, kbuf, hung, npeer, entry, targ, teff, endTime, tleft, waitEnd,
                          outcome, startedAt, returnedAt, readableAtStart, consumed, echo, polls, wake, tid, ei>>

TNext == TPeer \/ TTick \/ TEnter \/ TReader \/ TAccept
TraceSpec == TInit /\ [][TNext]_tvars
=============================================================================

------------------------------- MODULE Launch -------------------------------
(* C13 launch fidelity: the child is started exactly as requested.           *)
(*                                                                         *)
(* Three parts, one specification each (selected by the cfg file):         *)
(*  SplitSpec   the documented command-line splitter of                    *)
(*              pexpect.utils.split_command_line as a character-class      *)
(*              state machine (one action per consumed character), three   *)
(*              quoting functions and the law RoundTrip: quoting a list of *)
(*              non-empty arguments, joining with whitespace, with or      *)
(*              without leading / trailing whitespace, splits back into    *)
(*              exactly that list.  The cases of the bound are generated   *)
(*              stepwise (AddArgument / Present), then split.              *)
(*  WhichSpec   pexpect.utils.which as a scan over the effective PATH      *)
(*              (env argument's PATH when env is given, else the process   *)
(*              environment's; the platform default when that PATH is      *)
(*              missing or empty), one action per examined directory.      *)
(*  ConfigSpec  the configuration space of spawn / PopenSpawn with the     *)
(*              observation a child must make (identity from requested to  *)
(*              observed; defaults as documented).                         *)
(* The cases of all three parts are written out as JSON (ASSUMEs at the    *)
(* end) and harness/checks/launch.py runs one implementation test per row. *)
EXTENDS Naturals, Sequences, FiniteSets, TLC, Json, IOUtils, SequencesExt

CONSTANTS LenFor,   \* <<l1,l2,l3>>: lists of n arguments are built from arguments of 1..LenFor[n] characters (0: none)
          Styles,   \* subset of AllStyles   (lets the harness partition a large bound over several TLC runs)
          Seps,     \* subset of AllSeps
          Dev,      \* named deviations: {} = behaviour as documented/intended; {"leading_ws"} = utils.py as it is upstream
          MaxDirs   \* PATH layouts have 1..MaxDirs directories


VARIABLES
  \* part (a)
  case,   \* the case being split (constant along a behaviour)
  inp,    \* characters not yet consumed
  st,     \* "build" (the case is being generated), then "basic" | "esc" | "single" | "double" | "ws", then "done"
  out,    \* arguments completed so far
  cur,    \* argument being accumulated
  \* part (b)
  world,  \* how the program is named and what the PATH sources hold (constant along a behaviour)
  plist,  \* the effective search list once chosen
  pos,    \* next entry to examine
  res,    \* "pending", then the result
  \* part (c)
  crow    \* a configuration row

-----------------------------------------------------------------------------
(* Part (a): splitting and quoting                                         *)

\* character classes (one-character names so that rows serialise compactly)
X  == "x"     \* an ordinary ASCII character
SP == "_"     \* space
TB == "t"     \* tab
SQ == "s"     \* single quote
DQ == "d"     \* double quote
BS == "b"     \* backslash
NA == "e"     \* a non-ASCII letter
Chars   == {X, SP, TB, SQ, DQ, BS, NA}
White   == {SP, TB}
Special == White \cup {SQ, DQ, BS}

AllStyles == {"backslash", "single", "double"}
AllSeps   == {<<SP>>, <<TB>>, <<SP, SP>>}

ArgsUpTo(n) == UNION { [1..k -> Chars] : k \in 1..n }
Lists == UNION { [1..n -> ArgsUpTo(LenFor[n])] : n \in {k \in 1..3 : LenFor[k] > 0} }

\* the three quoting functions
QuoteBackslash(a) ==
  LET f[i \in 0..Len(a)] == IF i = 0 THEN <<>>
                            ELSE f[i-1] \o (IF a[i] \in Special THEN <<BS, a[i]>> ELSE <<a[i]>>)
  IN  f[Len(a)]
Quote(style, a) == CASE style = "backslash" -> QuoteBackslash(a)
                     [] style = "single"    -> <<SQ>> \o a \o <<SQ>>
                     [] style = "double"    -> <<DQ>> \o a \o <<DQ>>
\* inside single quotes everything but the single quote is literal; inside double quotes everything but
\* the double quote is literal (the backslash too: split_command_line does not treat it as an escape there)
Quotable(style, a) == CASE style = "backslash" -> TRUE
                        [] style = "single"    -> \A i \in 1..Len(a) : a[i] # SQ
                        [] style = "double"    -> \A i \in 1..Len(a) : a[i] # DQ

Join(qs, sep) ==
  LET f[i \in 0..Len(qs)] == IF i = 0 THEN <<>> ELSE IF i = 1 THEN qs[1] ELSE f[i-1] \o sep \o qs[i]
  IN  f[Len(qs)]

Cases == { c \in [args : Lists, style : Styles, sep : Seps, lead : BOOLEAN, trail : BOOLEAN] :
             \A i \in 1..Len(c.args) : Quotable(c.style, c.args[i]) }

\* the command line of a case: leading / trailing whitespace is the separator of the case
Compose(c) == (IF c.lead THEN c.sep ELSE <<>>)
              \o Join([i \in 1..Len(c.args) |-> Quote(c.style, c.args[i])], c.sep)
              \o (IF c.trail THEN c.sep ELSE <<>>)

\* the same command line means the same to a POSIX shell / shlex (used by PopenSpawn): only a backslash
\* inside double quotes is read differently there
PosixSame(c) == c.style # "double" \/ \A i \in 1..Len(c.args) : \A j \in 1..Len(c.args[i]) : c.args[i][j] # BS
\* the case exercises protection: some argument contains a character that had to be quoted
Protecting(c) == \E i \in 1..Len(c.args) : \E j \in 1..Len(c.args[i]) : c.args[i][j] \in Special

svars == <<case, inp, st, out, cur>>

\* leading whitespace is just separation: the machine starts between arguments.
\* (upstream starts in "basic", which turns leading whitespace into an empty first argument)
StartState == IF "leading_ws" \in Dev THEN "basic" ELSE "ws"

\* Every case of the bound is generated stepwise (so that TLC's workers share the enumeration): the
\* initial states fix list length, style, separator and leading / trailing whitespace; AddArgument
\* appends one quotable argument; Present hands the composed command line to the splitter.
Args1 == ArgsUpTo(1)
Args2 == ArgsUpTo(2)
ArgsFor(n) == IF LenFor[n] = 1 THEN Args1 ELSE IF LenFor[n] = 2 THEN Args2 ELSE ArgsUpTo(LenFor[n])
Row(c) == [args |-> c.args, style |-> c.style, sep |-> c.sep, lead |-> c.lead, trail |-> c.trail]

SplitInit == /\ case \in [n : {k \in 1..3 : LenFor[k] > 0}, args : {<<>>}, style : Styles, sep : Seps,
                          lead : BOOLEAN, trail : BOOLEAN]
             /\ inp = <<>>
             /\ st = "build"
             /\ out = <<>>
             /\ cur = <<>>

AddArgument == /\ st = "build" /\ Len(case.args) < case.n
               /\ \E a \in ArgsFor(case.n) : /\ Quotable(case.style, a)
                                             /\ case' = [case EXCEPT !.args = Append(@, a)]
               /\ UNCHANGED <<inp, st, out, cur, world, plist, pos, res, crow>>
Present     == /\ st = "build" /\ Len(case.args) = case.n
               /\ inp' = Compose(case)
               /\ st' = StartState
               /\ UNCHANGED <<case, out, cur, world, plist, pos, res, crow>>

Outside == st \in {"basic", "ws"}
Eat     == inp' = Tail(inp) /\ UNCHANGED <<case, world, plist, pos, res, crow>>

BeginEscape == /\ inp # <<>> /\ Outside /\ Head(inp) = BS
               /\ st' = "esc" /\ Eat /\ UNCHANGED <<out, cur>>
OpenSingle  == /\ inp # <<>> /\ Outside /\ Head(inp) = SQ
               /\ st' = "single" /\ Eat /\ UNCHANGED <<out, cur>>
OpenDouble  == /\ inp # <<>> /\ Outside /\ Head(inp) = DQ
               /\ st' = "double" /\ Eat /\ UNCHANGED <<out, cur>>
EndArgument == /\ inp # <<>> /\ st = "basic" /\ Head(inp) \in White
               /\ out' = Append(out, cur) /\ cur' = <<>> /\ st' = "ws" /\ Eat
SkipWhite   == /\ inp # <<>> /\ st = "ws" /\ Head(inp) \in White
               /\ Eat /\ UNCHANGED <<st, out, cur>>
PlainChar   == /\ inp # <<>> /\ Outside /\ Head(inp) \notin Special
               /\ cur' = Append(cur, Head(inp)) /\ st' = "basic" /\ Eat /\ UNCHANGED out
EscapedChar == /\ inp # <<>> /\ st = "esc"
               /\ cur' = Append(cur, Head(inp)) /\ st' = "basic" /\ Eat /\ UNCHANGED out
InSingle    == /\ inp # <<>> /\ st = "single" /\ Head(inp) # SQ
               /\ cur' = Append(cur, Head(inp)) /\ Eat /\ UNCHANGED <<st, out>>
CloseSingle == /\ inp # <<>> /\ st = "single" /\ Head(inp) = SQ
               /\ st' = "basic" /\ Eat /\ UNCHANGED <<out, cur>>
InDouble    == /\ inp # <<>> /\ st = "double" /\ Head(inp) # DQ
               /\ cur' = Append(cur, Head(inp)) /\ Eat /\ UNCHANGED <<st, out>>
CloseDouble == /\ inp # <<>> /\ st = "double" /\ Head(inp) = DQ
               /\ st' = "basic" /\ Eat /\ UNCHANGED <<out, cur>>
Finish      == /\ inp = <<>> /\ st \notin {"build", "done"}
               /\ out' = (IF cur # <<>> THEN Append(out, cur) ELSE out)
               /\ cur' = <<>> /\ st' = "done" /\ UNCHANGED <<case, inp, world, plist, pos, res, crow>>

SplitNext == \/ AddArgument \/ Present
             \/ BeginEscape \/ OpenSingle \/ OpenDouble \/ EndArgument \/ SkipWhite \/ PlainChar
             \/ EscapedChar \/ InSingle \/ CloseSingle \/ InDouble \/ CloseDouble \/ Finish

\* the splitter as a function (the machine run to completion), for tables and cross-checks
RECURSIVE Run(_, _, _, _)
Run(s, state, o, c) ==
  IF s = <<>> THEN (IF c # <<>> THEN Append(o, c) ELSE o)
  ELSE LET h == Head(s) t == Tail(s) IN
    CASE state \in {"basic", "ws"} /\ h = BS -> Run(t, "esc", o, c)
      [] state \in {"basic", "ws"} /\ h = SQ -> Run(t, "single", o, c)
      [] state \in {"basic", "ws"} /\ h = DQ -> Run(t, "double", o, c)
      [] state = "basic" /\ h \in White      -> Run(t, "ws", Append(o, c), <<>>)
      [] state = "ws" /\ h \in White         -> Run(t, "ws", o, c)
      [] state \in {"basic", "ws"} /\ h \notin Special -> Run(t, "basic", o, Append(c, h))
      [] state = "esc"                       -> Run(t, "basic", o, Append(c, h))
      [] state = "single" /\ h # SQ          -> Run(t, "single", o, Append(c, h))
      [] state = "single" /\ h = SQ          -> Run(t, "basic", o, c)
      [] state = "double" /\ h # DQ          -> Run(t, "double", o, Append(c, h))
      [] state = "double" /\ h = DQ          -> Run(t, "basic", o, c)
Split(s) == Run(s, StartState, <<>>, <<>>)

(* properties of part (a) *)
SplitTypeOK == /\ case.style \in Styles /\ case.sep \in Seps /\ Len(case.args) <= case.n
               /\ st \in {"build", "basic", "esc", "single", "double", "ws", "done"}
               /\ \A i \in 1..Len(out) : \A j \in 1..Len(out[i]) : out[i][j] \in Chars
\* the law: the finished split is exactly the argument list that was quoted
RoundTrip == (st = "done") => (out = case.args)
\* nothing is invented on the way: completed arguments are always a prefix of the requested ones
PrefixSoFar == (st \notin {"build", "done"}) => /\ Len(out) <= Len(case.args)
                                /\ \A i \in 1..Len(out) : out[i] = case.args[i]
\* a quoted command line never ends inside a quotation or an escape
EndsOutside == (inp = <<>> /\ st \notin {"build", "done"}) => st \in {"basic", "ws"}
\* the step machine and the function agree (so the emitted tables speak about the machine TLC explored)
MachineIsSplit == (st = "done") => (out = Split(Compose(case)))
\* the cases the machine went through are the rows of the emitted table
CaseInTable == (st = "done") => (Row(case) \in Cases)

-----------------------------------------------------------------------------
(* Part (b): which                                                         *)

\* what a directory holds under the program's name
Kinds == {"nodir",        \* the PATH component itself does not exist
          "missing", "dir", "file", "exec",
          "ln_missing", "ln_dir", "ln_file", "ln_exec"}      \* symbolic links to each of those
Runs(k) == k \in {"exec", "ln_exec"}       \* executable regular file after following symbolic links

PathSeqs == UNION { [1..n -> Kinds] : n \in 1..MaxDirs }
PathStates == {"set", "empty", "missing"}

\* A world: how the program is named, the PATH of the env argument (when one is given), the PATH of the
\* process environment, the platform default path, and (explicit path) what the path points at.
\* Sources that must NOT be consulted hold a decoy executable, so consulting them is visible.
Decoy == [state |-> "set", dirs |-> <<"exec">>]
Worlds ==
  \* bare name, PATH set
  { [mode |-> "name", envGiven |-> e, src |-> [state |-> "set", dirs |-> d], def |-> <<"exec">>, target |-> "missing"]
      : e \in BOOLEAN, d \in PathSeqs }
  \* bare name, PATH empty or missing: the default path decides
  \cup { [mode |-> "name", envGiven |-> e, src |-> [state |-> s, dirs |-> <<>>], def |-> <<k>>, target |-> "missing"]
      : e \in BOOLEAN, s \in {"empty", "missing"}, k \in Kinds }
  \* explicit path (absolute, or relative with a directory part): PATH holds a decoy of the same base name
  \cup { [mode |-> m, envGiven |-> e, src |-> Decoy, def |-> <<"exec">>, target |-> k]
      : m \in {"abs", "rel"}, e \in BOOLEAN, k \in Kinds }

\* the effective search list: entries are [src, idx, kind]
SrcName(w) == IF w.envGiven THEN "env" ELSE "environ"
Effective(w) == IF w.src.state = "set"
                THEN [i \in 1..Len(w.src.dirs) |-> [src |-> SrcName(w), idx |-> i, kind |-> w.src.dirs[i]]]
                ELSE [i \in 1..Len(w.def) |-> [src |-> "def", idx |-> i, kind |-> w.def[i]]]

None == [k |-> "none", src |-> "-", idx |-> 0]
wvars == <<world, plist, pos, res>>

WhichInit == /\ world \in Worlds /\ plist = <<>> /\ pos = 0 /\ res = [k |-> "pending", src |-> "-", idx |-> 0]

Pending == res.k = "pending"
Rest    == UNCHANGED <<case, inp, st, out, cur, crow>>
ExplicitHit  == /\ Pending /\ pos = 0 /\ world.mode # "name" /\ Runs(world.target)
                /\ res' = [k |-> "explicit", src |-> "-", idx |-> 0] /\ UNCHANGED <<world, plist, pos>> /\ Rest
ExplicitMiss == /\ Pending /\ pos = 0 /\ world.mode # "name" /\ ~Runs(world.target)
                /\ res' = None /\ UNCHANGED <<world, plist, pos>> /\ Rest
ChoosePath   == /\ Pending /\ pos = 0 /\ world.mode = "name"
                /\ plist' = Effective(world) /\ pos' = 1 /\ UNCHANGED <<world, res>> /\ Rest
SkipEntry    == /\ Pending /\ pos \in 1..Len(plist) /\ ~Runs(plist[pos].kind)
                /\ pos' = pos + 1 /\ UNCHANGED <<world, plist, res>> /\ Rest
TakeEntry    == /\ Pending /\ pos \in 1..Len(plist) /\ Runs(plist[pos].kind)
                /\ res' = [k |-> "found", src |-> plist[pos].src, idx |-> plist[pos].idx]
                /\ UNCHANGED <<world, plist, pos>> /\ Rest
Exhausted    == /\ Pending /\ pos > Len(plist) /\ pos > 0
                /\ res' = None /\ UNCHANGED <<world, plist, pos>> /\ Rest
WhichNext == ExplicitHit \/ ExplicitMiss \/ ChoosePath \/ SkipEntry \/ TakeEntry \/ Exhausted

\* closed form: first directory of the effective PATH whose entry runs
Expected(w) ==
  IF w.mode # "name" THEN (IF Runs(w.target) THEN [k |-> "explicit", src |-> "-", idx |-> 0] ELSE None)
  ELSE LET l == Effective(w)
           hits == {i \in 1..Len(l) : Runs(l[i].kind)}
       IN IF hits = {} THEN None
          ELSE LET m == CHOOSE i \in hits : \A j \in hits : i <= j
               IN [k |-> "found", src |-> l[m].src, idx |-> l[m].idx]

(* properties of part (b) *)
WhichFirstMatch == ~Pending => res = Expected(world)
EnvPathWins     == (res.k = "found" /\ world.envGiven) => res.src \in {"env", "def"}
DefaultOnlyWhenNoPath == (res.k = "found" /\ res.src = "def") => world.src.state # "set"
OnlyExecutables == res.k = "found" => Runs(Effective(world)[res.idx].kind)
NothingEarlier  == res.k = "found" => \A j \in 1..(res.idx - 1) : ~Runs(Effective(world)[j].kind)

-----------------------------------------------------------------------------
(* Part (c): configuration pass-through                                    *)

DimOpts == {"none", "default", "small", "unit"}
Dim(d) == CASE d \in {"none", "default"} -> <<24, 80>>     \* dimensions=None: the documented 24 x 80
            [] d = "small" -> <<7, 31>>
            [] d = "unit"  -> <<1, 1>>
ConfigRows ==
  { r \in [transport : {"pty", "popen"}, cwd : {"none", "tmp"}, env : {"none", "with_path", "without_path", "empty"},
           dims : DimOpts, echo : BOOLEAN, ignore_sighup : BOOLEAN, preexec : BOOLEAN] :
      \* PopenSpawn has no terminal and no ignore_sighup argument
      r.transport = "popen" => (r.dims = "none" /\ r.echo /\ ~r.ignore_sighup) }

\* what the child must observe
Observation(r) ==
  [cwd    |-> IF r.cwd = "none" THEN "parent" ELSE "tmp",
   env    |-> IF r.env = "none" THEN "inherited" ELSE "exact",
   tty    |-> r.transport = "pty",
   rows   |-> IF r.transport = "pty" THEN Dim(r.dims)[1] ELSE 0,
   cols   |-> IF r.transport = "pty" THEN Dim(r.dims)[2] ELSE 0,
   echo   |-> r.echo,
   sighup |-> IF r.ignore_sighup THEN "ignored" ELSE "default"]

ConfigInit == crow \in ConfigRows
ConfigNext == UNCHANGED <<crow, case, inp, st, out, cur, world, plist, pos, res>>

(* properties of part (c): the table's own consistency *)
DefaultDims == crow.dims \in {"none", "default"} => (crow.transport = "pty" => Observation(crow).rows = 24 /\ Observation(crow).cols = 80)
\* an observation depends on its own request only (no cross-talk between settings)
Independent == \A r2 \in ConfigRows :
                 /\ r2.cwd = crow.cwd => Observation(r2).cwd = Observation(crow).cwd
                 /\ r2.env = crow.env => Observation(r2).env = Observation(crow).env
                 /\ (r2.dims = crow.dims /\ r2.transport = crow.transport)
                       => (Observation(r2).rows = Observation(crow).rows /\ Observation(r2).cols = Observation(crow).cols)
                 /\ r2.echo = crow.echo => Observation(r2).echo = Observation(crow).echo
                 /\ r2.ignore_sighup = crow.ignore_sighup => Observation(r2).sighup = Observation(crow).sighup

-----------------------------------------------------------------------------
(* the three specifications (the variables of the other parts idle)        *)
vars == <<case, inp, st, out, cur, world, plist, pos, res, crow>>
Idle == "-"
SplitSpec  == /\ SplitInit /\ world = Idle /\ plist = Idle /\ pos = Idle /\ res = Idle /\ crow = Idle
              /\ [][SplitNext]_vars
WhichSpec  == /\ WhichInit /\ case = Idle /\ inp = Idle /\ st = Idle /\ out = Idle /\ cur = Idle /\ crow = Idle
              /\ [][WhichNext]_vars
ConfigSpec == /\ ConfigInit /\ case = Idle /\ inp = Idle /\ st = Idle /\ out = Idle /\ cur = Idle
              /\ world = Idle /\ plist = Idle /\ pos = Idle /\ res = Idle
              /\ [][ConfigNext]_vars

-----------------------------------------------------------------------------
(* tables for the harness (written only when the environment names a file) *)
RECURSIVE Str(_)
Str(s) == IF s = <<>> THEN "" ELSE Head(s) \o Str(Tail(s))
Has(name) == name \in DOMAIN IOEnv

SplitTable ==
  LET cs == SetToSeq(Cases) IN
  [n \in 1..Len(cs) |-> [i |-> Str(Compose(cs[n])),                                   \* input, one class code per character
                         a |-> [k \in 1..Len(cs[n].args) |-> Str(cs[n].args[k])],       \* expected argv
                         y |-> cs[n].style, p |-> Str(cs[n].sep), l |-> cs[n].lead, t |-> cs[n].trail,
                         px |-> PosixSame(cs[n]), pr |-> Protecting(cs[n])]]
ASSUME Has("LAUNCH_SPLIT_OUT") => JsonSerialize(IOEnv.LAUNCH_SPLIT_OUT, SplitTable)

WhichTable ==
  LET ws == SetToSeq(Worlds) IN
  [n \in 1..Len(ws) |-> [world |-> ws[n], effective |-> Effective(ws[n]), want |-> Expected(ws[n])]]
ASSUME Has("LAUNCH_WHICH_OUT") => JsonSerialize(IOEnv.LAUNCH_WHICH_OUT, WhichTable)

ConfigTable ==
  LET rs == SetToSeq(ConfigRows) IN
  [n \in 1..Len(rs) |-> [row |-> rs[n], want |-> Observation(rs[n])]]
ASSUME Has("LAUNCH_CONFIG_OUT") => JsonSerialize(IOEnv.LAUNCH_CONFIG_OUT, ConfigTable)
=============================================================================

------------------------------- MODULE Interact ------------------------------
(* C15: spawn.interact() as written - flush the pending output, put the       *)
(* user's terminal in raw mode, copy child -> user and user -> child until    *)
(* the escape character or the child's exit, restore the terminal mode.       *)
(* The user's keystrokes and the child's output are cut into reads            *)
(* nondeterministically; in one loop iteration both descriptors may be ready  *)
(* (child output is handled first).                                           *)
(*                                                                            *)
(* Devs: "rfind" (the code before the repair looked for the LAST escape       *)
(* character of a read), "flush_search_buffer" (the code flushed the possibly *)
(* trimmed search buffer and left the pending text behind).                   *)
EXTENDS Naturals, Integers, Sequences, FiniteSets, TLC

CONSTANTS Typed,        \* set of keystroke streams (sequences over keys; "E" is the escape character)
          Outputs,      \* set of child output streams
          Pendings,     \* set of <<pending text, search buffer>> pairs at entry (search buffer: a suffix of pending)
          MaxRead,      \* bytes per read
          InFilters, OutFilters,     \* subsets of {"id", "dup", "drop"}
          EscModes,     \* subset of {"esc", "none"}: escape_character given or None
          Devs

VARIABLES keys, outp, pendAtStart, sbufAtStart, infil, outfil, escmode,     \* configuration / what is still to come
          toChild, toUser, mode, pc, childAlive, pendLeft

vars == <<keys, outp, pendAtStart, sbufAtStart, infil, outfil, escmode, toChild, toUser, mode, pc, childAlive, pendLeft>>

Min(a, b) == IF a <= b THEN a ELSE b
Take(s, n) == SubSeq(s, 1, Min(n, Len(s)))
Drop(s, n) == SubSeq(s, Min(n, Len(s)) + 1, Len(s))
RECURSIVE Dup(_)
Dup(s) == IF s = <<>> THEN <<>> ELSE <<Head(s), Head(s)>> \o Dup(Tail(s))
\* "dup" doubles every byte; "drop" removes the bytes "x" (output) and "c" (keys): a read may be filtered to nothing
Apply(f, s) == IF f = "dup" THEN Dup(s)
               ELSE IF f = "drop" THEN SelectSeq(s, LAMBDA b : b \notin {"x", "c"})
               ELSE s

Positions(s, c) == {i \in 1..Len(s) : s[i] = c}
FirstPos(s, c) == IF Positions(s, c) = {} THEN 0 ELSE CHOOSE i \in Positions(s, c) : \A j \in Positions(s, c) : i <= j
LastPos(s, c)  == IF Positions(s, c) = {} THEN 0 ELSE CHOOSE i \in Positions(s, c) : \A j \in Positions(s, c) : i >= j

Init == /\ keys \in Typed /\ outp \in Outputs /\ \E p \in Pendings : pendAtStart = p[1] /\ sbufAtStart = p[2]
        /\ infil \in InFilters /\ outfil \in OutFilters /\ escmode \in EscModes
        /\ toChild = <<>> /\ toUser = <<>> /\ mode = "cooked" /\ pc = "flush" /\ childAlive = TRUE
        /\ pendLeft = pendAtStart

CfgUnch == UNCHANGED <<pendAtStart, sbufAtStart, infil, outfil, escmode>>

\* write_to_stdout(pending); clear it
Flush == /\ pc = "flush"
         /\ IF "flush_search_buffer" \in Devs
            THEN toUser' = sbufAtStart /\ UNCHANGED pendLeft        \* the trimmed search buffer; _before stays
            ELSE toUser' = pendAtStart /\ pendLeft' = <<>>
         /\ pc' = "setraw"
         /\ UNCHANGED <<keys, outp, toChild, mode, childAlive>> /\ CfgUnch
SetRaw == /\ pc = "setraw" /\ mode' = "raw" /\ pc' = "loop"
          /\ UNCHANGED <<keys, outp, toChild, toUser, childAlive, pendLeft>> /\ CfgUnch

\* one iteration of the copy loop: k bytes of child output and / or n typed bytes are readable
CopyOut(k) == toUser' = toUser \o Apply(outfil, Take(outp, k)) /\ outp' = Drop(outp, k)
Iter(k, n) ==
  /\ pc = "loop" /\ childAlive
  /\ k + n > 0 /\ k <= Min(MaxRead, Len(outp)) /\ n <= Min(MaxRead, Len(keys))
  /\ IF k > 0 THEN CopyOut(k) ELSE UNCHANGED <<toUser, outp>>
  /\ IF n > 0 THEN
        LET data == Apply(infil, Take(keys, n))
            i == IF escmode = "none" THEN 0
                 ELSE IF "rfind" \in Devs THEN LastPos(data, "E") ELSE FirstPos(data, "E")
        IN /\ keys' = Drop(keys, n)
           /\ IF i > 0 THEN toChild' = toChild \o Take(data, i - 1) /\ pc' = "restore"
                       ELSE toChild' = toChild \o data /\ pc' = "loop"
     ELSE UNCHANGED <<keys, toChild, pc>>
  /\ UNCHANGED <<mode, childAlive, pendLeft>> /\ CfgUnch

\* the child exits (after having written everything): the loop ends once its output is drained
ChildExits == /\ pc = "loop" /\ childAlive /\ outp = <<>>
              /\ childAlive' = FALSE /\ pc' = "restore"
              /\ UNCHANGED <<keys, outp, toChild, toUser, mode, pendLeft>> /\ CfgUnch
Restore == /\ pc = "restore" /\ mode' = "cooked" /\ pc' = "done"
           /\ UNCHANGED <<keys, outp, toChild, toUser, childAlive, pendLeft>> /\ CfgUnch

Next == Flush \/ SetRaw \/ ChildExits \/ Restore \/ \E k \in 0..MaxRead, n \in 0..MaxRead : Iter(k, n)
Spec == Init /\ [][Next]_vars

(* ---- C15 ------------------------------------------------------------------------------------ *)
\* history-free formulation: what was delivered so far is what the documentation promises for what was consumed so far
TypedSoFar(all) == SubSeq(all, 1, Len(all) - Len(keys))
\* user -> child: everything typed, through the input filter, up to (not including) the first escape character
\* (evaluated at the end: the filter is applied per read, and "dup" commutes with concatenation)
ChildGetsTypedUpToEscape ==
  pc = "done" =>
    \E all \in Typed : /\ Len(all) >= Len(keys) /\ SubSeq(all, Len(all) - Len(keys) + 1, Len(all)) = keys
                       /\ LET f == Apply(infil, TypedSoFar(all))
                              e == IF escmode = "none" THEN 0 ELSE FirstPos(f, "E")
                          IN toChild = (IF e = 0 THEN f ELSE Take(f, e - 1))
\* child -> user: the pending output first, then everything the child wrote, through the output filter, in order
UserGetsPendingThenOutput ==
  \E all \in Outputs : /\ Len(all) >= Len(outp) /\ SubSeq(all, Len(all) - Len(outp) + 1, Len(all)) = outp
                       /\ (pc \notin {"flush"} => toUser = pendAtStart \o Apply(outfil, SubSeq(all, 1, Len(all) - Len(outp))))
\* the pending text was consumed by interact (it is not seen again by a later expect)
PendingConsumed == pc # "flush" => pendLeft = <<>>
\* the terminal mode is restored
ModeRestored == pc = "done" => mode = "cooked"
RawWhileCopying == pc = "loop" => mode = "raw"
=============================================================================

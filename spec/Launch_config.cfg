SPECIFICATION ConfigSpec
CONSTANTS
  LenFor <- MCLenTiny
  Styles <- MCAllStyles
  Seps <- MCAllSeps
  Dev = {}
  MaxDirs = 1
INVARIANT DefaultDims
INVARIANT Independent
CHECK_DEADLOCK FALSE

------------------------------ MODULE MCExpect ------------------------------
EXTENDS ExpectImpl

L(w)  == [t |-> "lit", w |-> w]
EOFM  == [t |-> "EOF"]
TMOM  == [t |-> "TIMEOUT"]
a == "a"  b == "b"  n == "n"

\* exact-search lists
ExactLists ==
  { <<TRUE, <<L(<<a>>)>>>>, <<TRUE, <<L(<<a,b>>)>>>>, <<TRUE, <<L(<<b,a,b>>)>>>>,
    <<TRUE, <<L(<<a,b>>), L(<<a>>)>>>>, <<TRUE, <<L(<<a>>), L(<<a,b>>)>>>>,
    <<TRUE, <<L(<<b>>), EOFM, L(<<a,b>>)>>>>, <<TRUE, <<TMOM, L(<<b,b>>), EOFM>>>>,
    <<TRUE, <<L(<<b,a>>), L(<<a,b>>)>>>>, <<TRUE, <<EOFM>>>>, <<TRUE, <<L(<<a,a>>), L(<<a,a>>)>>>>,
    <<TRUE, <<L(<<b>>), L(<<a,a,b>>)>>>> }

ReLists ==
  { <<FALSE, <<L(<<a>>)>>>>, <<FALSE, <<L(<<a,b>>), L(<<b>>)>>>>,
    <<FALSE, <<[t |-> "any", n |-> 2]>>>>, <<FALSE, <<[t |-> "end"]>>>>,
    <<FALSE, <<[t |-> "star", c |-> a]>>>>, <<FALSE, <<[t |-> "plus", c |-> a], L(<<b,b>>)>>>>,
    <<FALSE, <<[t |-> "alt", w |-> <<a,b>>, v |-> <<b>>], EOFM>>>>,
    <<FALSE, <<[t |-> "litend", w |-> <<b>>], TMOM>>>>,
    <<FALSE, <<TMOM, L(<<b,a>>), EOFM, L(<<b>>)>>>>, <<FALSE, <<L(<<n>>), EOFM>>>>,
    <<FALSE, <<[t |-> "any", n |-> 3], EOFM>>>> }

MCPatLists == ExactLists \cup ReLists
MCSetBufs  == {<<>>, <<a>>, <<b, a>>}
=============================================================================

SPECIFICATION Spec
CONSTANTS
  StageSets <- MCStageSets
  Finals <- MCFinals
  Devs <- AsIs
CHECK_DEADLOCK FALSE

SPECIFICATION Spec
CONSTANTS
  StageSets <- MCStageSets
  Finals <- MCFinals
  Devs = {}
INVARIANT PasswordOnlyWhenAsked
INVARIANT PasswordAtMostOnce
INVARIANT YesOnlyToHostKey
INVARIANT TrueOnlyAtPrompt
INVARIANT OtherwiseRaises
CHECK_DEADLOCK FALSE

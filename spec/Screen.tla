------------------------------- MODULE Screen -------------------------------
(* C19 (and the screen half of C18): reference model of pexpect.screen.screen. *)
(*                                                                            *)
(* The whole emulator state is                                                *)
(*    grid    Rows x Cols cells over the tiny alphabet Chars (Blank = " ")    *)
(*    cur     <<row, col>>        1-based cursor              (cur_r, cur_c)  *)
(*    saved   <<row, col>>        saved cursor        (cur_saved_r, _c)       *)
(*    region  <<start, end>>      scroll region (scroll_row_start, _end)      *)
(*                                                                            *)
(* Every documented method is a pure operator  XxxS(S, args)  on a state      *)
(* record S: the new grid is written cell by cell as                          *)
(*    IF <cell is in the footprint the documentation names> THEN new ELSE old *)
(* and the other fields are carried over by EXCEPT, so the frame condition    *)
(* ("and nothing else") is explicit in every definition.  Coordinates         *)
(* outside the screen mean the nearest edge (Clamp).  The actions wrap the    *)
(* operators with arguments ranging over {below range, edges, interior,       *)
(* above range, swapped corners}.                                             *)
(*                                                                            *)
(* Where the documentation is silent the reference follows the code:          *)
(*   - scroll_up / scroll_down move the rows inside the region and leave the  *)
(*     vacated row as it was (duplicated, not blanked);                       *)
(*   - the cursor moves freely across the region borders; lf() scrolls only   *)
(*     when the cursor is on the last row of the *screen*;                    *)
(*   - cursor_up_reverse on the first row scrolls *up*;                       *)
(*   - negative counts move the other way.                                    *)
(* or is deliberately nondeterministic:                                       *)
(*   - scroll_screen_rows(a, b) with both rows on the screen but a > b is not *)
(*     an out-of-range coordinate; the region may be kept as given (scrolls   *)
(*     are then no-ops) or taken as if sorted.                                *)
EXTENDS Integers, Sequences, FiniteSets, TLC

CONSTANTS Rows,      \* >= 1
          Cols,      \* >= 1
          Chars,     \* cell alphabet, contains Blank
          Slack      \* arguments range over (1-Slack) .. (size+Slack), Slack >= 1

Blank == " "
NL    == "\n"

VARIABLES grid, cur, saved, region
svars == <<grid, cur, saved, region>>

RowIdx == 1..Rows
ColIdx == 1..Cols
Min(a, b) == IF a < b THEN a ELSE b
Max(a, b) == IF a > b THEN a ELSE b
Clamp(n, lo, hi) == IF n < lo THEN lo ELSE IF n > hi THEN hi ELSE n
CR(r) == Clamp(r, 1, Rows)
CC(c) == Clamp(c, 1, Cols)

\* argument domains of the actions: below range, edges, interior, above range
RowArgs   == (1 - Slack)..(Rows + Slack)
ColArgs   == (1 - Slack)..(Cols + Slack)
RowCounts == (0 - Slack)..(Rows + Slack)       \* counts: negative, 0, 1, ..., beyond the screen
ColCounts == (0 - Slack)..(Cols + Slack)

St == [grid |-> grid, cur |-> cur, saved |-> saved, region |-> region]
BlankGrid == [r \in RowIdx |-> [c \in ColIdx |-> Blank]]
InitState == [grid |-> BlankGrid, cur |-> <<1, 1>>, saved |-> <<1, 1>>, region |-> <<1, Rows>>]

(* ------------------------------ invariants ------------------------------ *)
ShapeS(S) == /\ DOMAIN S.grid = RowIdx
             /\ \A r \in RowIdx : /\ DOMAIN S.grid[r] = ColIdx
                                  /\ \A c \in ColIdx : S.grid[r][c] \in Chars
OnScreen(p) == p[1] \in RowIdx /\ p[2] \in ColIdx
RegionValidS(S) == S.region[1] \in RowIdx /\ S.region[2] \in RowIdx
GoodS(S) == ShapeS(S) /\ OnScreen(S.cur) /\ OnScreen(S.saved) /\ RegionValidS(S)

Shape          == ShapeS(St)
CursorOnScreen == OnScreen(cur)
SavedOnScreen  == OnScreen(saved)
RegionValid    == RegionValidS(St)

(* ------------------- the documented operations (pure) ------------------- *)
\* rewrite exactly the cells for which In(r, c) holds
Paint(S, In(_, _), ch) ==
  [S EXCEPT !.grid = [r \in RowIdx |-> [c \in ColIdx |-> IF In(r, c) THEN ch ELSE S.grid[r][c]]]]

\* put_abs(r, c, ch): one cell, coordinates clamped; cursor untouched
PutAbsS(S, r, c, ch) == LET In(i, j) == i = CR(r) /\ j = CC(c) IN Paint(S, In, ch)
\* put(ch): the cell under the cursor; the cursor does not move
PutS(S, ch) == PutAbsS(S, S.cur[1], S.cur[2], ch)

\* insert_abs(r, c, ch): "inserts a character at (r,c). Everything under and to the right is
\* shifted right one character. The last character of the line is lost."
InsertAbsS(S, r, c, ch) ==
  LET rr == CR(r)  cc == CC(c) IN
  [S EXCEPT !.grid = [i \in RowIdx |-> [j \in ColIdx |->
      IF i # rr \/ j < cc THEN S.grid[i][j] ELSE IF j = cc THEN ch ELSE S.grid[i][j - 1]]]]
InsertS(S, ch) == InsertAbsS(S, S.cur[1], S.cur[2], ch)

\* fill_region(rs, cs, re, ce, ch): the rectangle spanned by the two (clamped) corners, in either order
FillRegionS(S, rs, cs, re, ce, ch) ==
  LET r1 == Min(CR(rs), CR(re))  r2 == Max(CR(rs), CR(re))
      c1 == Min(CC(cs), CC(ce))  c2 == Max(CC(cs), CC(ce))
      In(i, j) == r1 <= i /\ i <= r2 /\ c1 <= j /\ j <= c2
  IN Paint(S, In, ch)
FillS(S, ch) == LET In(i, j) == TRUE IN Paint(S, In, ch)

\* a rejected operation: the character argument is one the screen does not take (bytes on a screen built with
\* encoding=None - "passing bytes in will raise TypeError" -, bytes that are not valid in the screen's encoding
\* under strict error handling), the call raises and nothing is put / inserted / filled: every cell, the cursor,
\* the saved cursor and the scroll region are what they were
RejectedS(S) == S

\* cursor movement: only `cur` changes, always constrained to the screen
CursorHomeS(S, r, c)  == [S EXCEPT !.cur = <<CR(r), CC(c)>>]
CursorBackS(S, n)     == [S EXCEPT !.cur = <<S.cur[1], CC(S.cur[2] - n)>>]
CursorForwardS(S, n)  == [S EXCEPT !.cur = <<S.cur[1], CC(S.cur[2] + n)>>]
CursorUpS(S, n)       == [S EXCEPT !.cur = <<CR(S.cur[1] - n), S.cur[2]>>]
CursorDownS(S, n)     == [S EXCEPT !.cur = <<CR(S.cur[1] + n), S.cur[2]>>]
CrS(S)                == [S EXCEPT !.cur = <<S.cur[1], 1>>]
CursorSaveS(S)        == [S EXCEPT !.saved = S.cur]
CursorUnsaveS(S)      == [S EXCEPT !.cur = S.saved]

\* scrolling: rows of the region move by one; everything outside the region, the cursor, the
\* saved cursor and the region itself stay.  A region with start >= end has nothing to move.
ScrollUpS(S) ==
  LET s == S.region[1]  e == S.region[2] IN
  [S EXCEPT !.grid = [i \in RowIdx |-> IF s <= i /\ i < e THEN S.grid[i + 1] ELSE S.grid[i]]]
ScrollDownS(S) ==
  LET s == S.region[1]  e == S.region[2] IN
  [S EXCEPT !.grid = [i \in RowIdx |-> IF s < i /\ i <= e THEN S.grid[i - 1] ELSE S.grid[i]]]
ScrollScreenS(S) == [S EXCEPT !.region = <<1, Rows>>]
\* scroll_screen_rows(rs, re): rows outside the screen mean the nearest edge; a swapped
\* region that is on the screen may be kept or sorted (see the head of the module)
ScrollScreenRowsSet(S, rs, re) ==
  LET a == CR(rs)  b == CR(re) IN
  IF a <= b THEN { [S EXCEPT !.region = <<a, b>>] }
  ELSE { [S EXCEPT !.region = <<a, b>>], [S EXCEPT !.region = <<b, a>>] }

\* erasing: blanks exactly the named cells, cursor untouched
EraseEndOfLineS(S)   == LET In(i, j) == i = S.cur[1] /\ j >= S.cur[2] IN Paint(S, In, Blank)
EraseStartOfLineS(S) == LET In(i, j) == i = S.cur[1] /\ j <= S.cur[2] IN Paint(S, In, Blank)
EraseLineS(S)        == LET In(i, j) == i = S.cur[1] IN Paint(S, In, Blank)
EraseDownS(S)        == LET In(i, j) == (i = S.cur[1] /\ j >= S.cur[2]) \/ i > S.cur[1] IN Paint(S, In, Blank)
EraseUpS(S)          == LET In(i, j) == (i = S.cur[1] /\ j <= S.cur[2]) \/ i < S.cur[1] IN Paint(S, In, Blank)
EraseScreenS(S)      == FillS(S, Blank)

\* lf(): "moves the cursor down with scrolling": on the last row of the screen the region
\* scrolls up and the cursor's line is erased; crlf()/newline(): cr then lf
LfS(S)   == IF S.cur[1] < Rows THEN CursorDownS(S, 1) ELSE EraseLineS(ScrollUpS(S))
CrlfS(S) == LfS(CrS(S))
\* cursor_up_reverse(): up, or a scroll when already on the first row
CursorUpReverseS(S) == IF S.cur[1] > 1 THEN CursorUpS(S, 1) ELSE ScrollUpS(S)

(* --------------------- read accessors: functions of grid ----------------- *)
RowSeq(S, r)  == [c \in ColIdx |-> S.grid[r][c]]
RECURSIVE JoinRows(_, _, _)
JoinRows(S, r, sep) == IF r > Rows THEN <<>>
                       ELSE RowSeq(S, r) \o (IF r < Rows THEN sep ELSE <<>>) \o JoinRows(S, r + 1, sep)
GetAbsA(S, r, c) == S.grid[CR(r)][CC(c)]
GetA(S)          == S.grid[S.cur[1]][S.cur[2]]
GetRegionA(S, rs, cs, re, ce) ==
  LET r1 == Min(CR(rs), CR(re))  r2 == Max(CR(rs), CR(re))
      c1 == Min(CC(cs), CC(ce))  c2 == Max(CC(cs), CC(ce))
  IN [i \in 1..(r2 - r1 + 1) |-> [j \in 1..(c2 - c1 + 1) |-> S.grid[r1 + i - 1][c1 + j - 1]]]
DumpA(S) == JoinRows(S, 1, <<>>)                    \* all cells, row after row, no terminators
StrA(S)  == JoinRows(S, 1, <<NL>>)                  \* rows separated by a newline
Bar      == <<"+">> \o [c \in ColIdx |-> "-"] \o <<"+", NL>>
RECURSIVE BoxRows(_, _)
BoxRows(S, r) == IF r > Rows THEN <<>>
                 ELSE <<"|">> \o RowSeq(S, r) \o <<"|">> \o (IF r < Rows THEN <<NL>> ELSE <<>>) \o BoxRows(S, r + 1)
PrettyA(S) == Bar \o BoxRows(S, 1) \o <<NL>> \o Bar  \* the same rows in an ASCII box

\* the accessors agree with each other (they all describe `grid`)
RECURSIVE Flat(_)
Flat(ss) == IF ss = <<>> THEN <<>> ELSE Head(ss) \o Flat(Tail(ss))
AccessorsAgreeS(S) ==
  /\ DumpA(S) = Flat(GetRegionA(S, 1, 1, Rows, Cols))
  /\ DumpA(S) = SelectSeq(StrA(S), LAMBDA x : x # NL)
  /\ GetA(S) = GetAbsA(S, S.cur[1], S.cur[2])
  /\ \A r \in RowIdx, c \in ColIdx : /\ GetAbsA(S, r, c) = DumpA(S)[(r - 1) * Cols + c]
                                     /\ GetRegionA(S, r, c, r, c) = <<<<GetAbsA(S, r, c)>>>>
  /\ Len(StrA(S)) = Rows * Cols + Rows - 1
  /\ Len(PrettyA(S)) = (Rows + 2) * (Cols + 3)
  /\ \A r \in RowIdx : SubSeq(PrettyA(S), r * (Cols + 3) + 2, r * (Cols + 3) + 1 + Cols) = RowSeq(S, r)
AccessorsAgree == AccessorsAgreeS(St)


\* relations between the operations that the documentation implies (guards the reference
\* itself against slips; evaluated by TLC in every reachable state of the small models)
CellsChanged(S, T) == Cardinality({p \in RowIdx \X ColIdx : S.grid[p[1]][p[2]] # T.grid[p[1]][p[2]]})
SameBut(S, T, fields) == /\ ("grid" \in fields \/ S.grid = T.grid) /\ ("cur" \in fields \/ S.cur = T.cur)
                         /\ ("saved" \in fields \/ S.saved = T.saved) /\ ("region" \in fields \/ S.region = T.region)
LawsS(S) ==
  /\ EraseUpS(EraseDownS(S)).grid = BlankGrid
  /\ EraseStartOfLineS(EraseEndOfLineS(S)) = EraseLineS(S)
  /\ EraseScreenS(S).grid = BlankGrid /\ SameBut(S, EraseScreenS(S), {"grid"})
  /\ CellsChanged(S, EraseEndOfLineS(S)) <= Cols - S.cur[2] + 1
  /\ CellsChanged(S, EraseStartOfLineS(S)) <= S.cur[2]
  /\ CellsChanged(S, EraseDownS(S)) <= (Rows - S.cur[1]) * Cols + Cols - S.cur[2] + 1
  /\ CellsChanged(S, EraseUpS(S)) <= (S.cur[1] - 1) * Cols + S.cur[2]
  /\ \A ch \in Chars :
        /\ FillRegionS(S, 1, 1, Rows, Cols, ch) = FillS(S, ch)
        /\ FillRegionS(S, 1 - Slack, 1 - Slack, Rows + Slack, Cols + Slack, ch) = FillS(S, ch)
        /\ CellsChanged(S, PutS(S, ch)) <= 1 /\ GetA(PutS(S, ch)) = ch /\ SameBut(S, PutS(S, ch), {"grid"})
        /\ CellsChanged(S, InsertS(S, ch)) <= Cols - S.cur[2] + 1 /\ GetA(InsertS(S, ch)) = ch
        /\ \A r \in RowArgs, c \in ColArgs :
              /\ PutAbsS(S, r, c, ch) = FillRegionS(S, r, c, r, c, ch)
              /\ GetAbsA(PutAbsS(S, r, c, ch), r, c) = ch
              /\ GetAbsA(InsertAbsS(S, r, c, ch), r, c) = ch
              /\ \A r2 \in RowArgs, c2 \in ColArgs :
                    FillRegionS(S, r, c, r2, c2, ch) = FillRegionS(S, r2, c2, r, c, ch)
  /\ \A r \in RowArgs, c \in ColArgs :
        /\ CursorHomeS(S, r, c).cur = <<CR(r), CC(c)>> /\ SameBut(S, CursorHomeS(S, r, c), {"cur"})
        /\ GetAbsA(S, r, c) = GetAbsA(S, CR(r), CC(c))
  /\ \A n \in ColCounts : CursorBackS(S, n) = CursorForwardS(S, 0 - n)
  /\ \A n \in RowCounts : CursorUpS(S, n) = CursorDownS(S, 0 - n)
  /\ CursorUnsaveS(CursorSaveS(S)).cur = S.cur
  /\ SameBut(S, ScrollUpS(S), {"grid"}) /\ SameBut(S, ScrollDownS(S), {"grid"})
  /\ \A r \in RowIdx : (r < Min(S.region[1], S.region[2]) \/ r > Max(S.region[1], S.region[2]))
                            => ScrollUpS(S).grid[r] = S.grid[r] /\ ScrollDownS(S).grid[r] = S.grid[r]
  /\ \A T \in UNION {ScrollScreenRowsSet(S, a, b) : a \in RowArgs, b \in RowArgs} : RegionValidS(T) /\ SameBut(S, T, {"region"})
Laws == LawsS(St)

(* -------------------------------- actions -------------------------------- *)
Apply(T) == grid' = T.grid /\ cur' = T.cur /\ saved' = T.saved /\ region' = T.region


Put(ch)                     == \E T \in {PutS(St, ch)} : Apply(T)
PutAbs(r, c, ch)            == \E T \in {PutAbsS(St, r, c, ch)} : Apply(T)
Insert(ch)                  == \E T \in {InsertS(St, ch)} : Apply(T)
InsertAbs(r, c, ch)         == \E T \in {InsertAbsS(St, r, c, ch)} : Apply(T)
Fill(ch)                    == \E T \in {FillS(St, ch)} : Apply(T)
FillRegion(rs, cs, re, ce, ch) == \E T \in {FillRegionS(St, rs, cs, re, ce, ch)} : Apply(T)
Cr                          == \E T \in {CrS(St)} : Apply(T)
Lf                          == \E T \in {LfS(St)} : Apply(T)
Crlf                        == \E T \in {CrlfS(St)} : Apply(T)
Newline                     == \E T \in {CrlfS(St)} : Apply(T)                   \* documented alias of crlf
CursorHome(r, c)            == \E T \in {CursorHomeS(St, r, c)} : Apply(T)
CursorForcePosition(r, c)   == \E T \in {CursorHomeS(St, r, c)} : Apply(T)       \* "identical to cursor home"
CursorBack(n)               == \E T \in {CursorBackS(St, n)} : Apply(T)
CursorDown(n)               == \E T \in {CursorDownS(St, n)} : Apply(T)
CursorForward(n)            == \E T \in {CursorForwardS(St, n)} : Apply(T)
CursorUp(n)                 == \E T \in {CursorUpS(St, n)} : Apply(T)
CursorUpReverse             == \E T \in {CursorUpReverseS(St)} : Apply(T)
CursorSave                  == \E T \in {CursorSaveS(St)} : Apply(T)
CursorSaveAttrs             == \E T \in {CursorSaveS(St)} : Apply(T)
CursorUnsave                == \E T \in {CursorUnsaveS(St)} : Apply(T)
CursorRestoreAttrs          == \E T \in {CursorUnsaveS(St)} : Apply(T)
ScrollScreen                == \E T \in {ScrollScreenS(St)} : Apply(T)
ScrollScreenRows(rs, re)    == \E T \in ScrollScreenRowsSet(St, rs, re) : Apply(T)
ScrollDown                  == \E T \in {ScrollDownS(St)} : Apply(T)
ScrollUp                    == \E T \in {ScrollUpS(St)} : Apply(T)
EraseEndOfLine              == \E T \in {EraseEndOfLineS(St)} : Apply(T)
EraseStartOfLine            == \E T \in {EraseStartOfLineS(St)} : Apply(T)
EraseLine                   == \E T \in {EraseLineS(St)} : Apply(T)
EraseDown                   == \E T \in {EraseDownS(St)} : Apply(T)
EraseUp                     == \E T \in {EraseUpS(St)} : Apply(T)
EraseScreen                 == \E T \in {EraseScreenS(St)} : Apply(T)

SInit == grid = BlankGrid /\ cur = <<1, 1>> /\ saved = <<1, 1>> /\ region = <<1, Rows>>

SNext ==
  \/ \E ch \in Chars : Put(ch)
  \/ \E r \in RowArgs, c \in ColArgs, ch \in Chars : PutAbs(r, c, ch)
  \/ \E ch \in Chars : Insert(ch)
  \/ \E r \in RowArgs, c \in ColArgs, ch \in Chars : InsertAbs(r, c, ch)
  \/ \E ch \in Chars : Fill(ch)
  \/ \E rs \in RowArgs, cs \in ColArgs, re \in RowArgs, ce \in ColArgs, ch \in Chars : FillRegion(rs, cs, re, ce, ch)
  \/ Cr \/ Lf \/ Crlf \/ Newline
  \/ \E r \in RowArgs, c \in ColArgs : CursorHome(r, c)
  \/ \E r \in RowArgs, c \in ColArgs : CursorForcePosition(r, c)
  \/ \E n \in ColCounts : CursorBack(n)
  \/ \E n \in RowCounts : CursorDown(n)
  \/ \E n \in ColCounts : CursorForward(n)
  \/ \E n \in RowCounts : CursorUp(n)
  \/ CursorUpReverse
  \/ CursorSave \/ CursorSaveAttrs \/ CursorUnsave \/ CursorRestoreAttrs
  \/ ScrollScreen
  \/ \E rs \in RowArgs, re \in RowArgs : ScrollScreenRows(rs, re)
  \/ ScrollDown \/ ScrollUp
  \/ EraseEndOfLine \/ EraseStartOfLine \/ EraseLine \/ EraseDown \/ EraseUp \/ EraseScreen

SSpec == SInit /\ [][SNext]_svars
=============================================================================

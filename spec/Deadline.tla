------------------------------- MODULE Deadline ------------------------------
(* C05: the deadline arithmetic of the expect family (Expecter.expect_loop,   *)
(* the -1 / None / 0 conventions of every entry point) and of                 *)
(* spawn.waitnoecho, against a peer whose output arrives at arbitrary times   *)
(* relative to the deadline.  Time is an integer clock; reader computation    *)
(* takes no time, time passes only while the reader waits (inside a timed     *)
(* read or a sleep).                                                           *)
(*                                                                            *)
(* A chunk is "x" (does not match) or "m" (completes a match).                *)
(* The environment may also wake the reader's wait WITHOUT data: a signal     *)
(* handled by the parent (EINTR), or an exceptional condition on the          *)
(* descriptor (urgent data on a TCP socket).  The wrappers around             *)
(* select()/poll() go back to waiting for what remains of the timeout, so a   *)
(* wake-up is not a TIMEOUT and does not move the deadline.                   *)
(* Every behaviour is a timed schedule that harness/checks/deadline.py        *)
(* replays on the real transports under the virtual clock; the outcome and    *)
(* the virtual duration of the real call are compared with the behaviour's.   *)
EXTENDS Naturals, Integers, Sequences, FiniteSets, TLC

CONSTANTS TArgs,        \* timeout arguments: DefaultT (-1, "use the instance default"), None, or a number of ticks
          InstT,        \* the instance default (spawn.timeout)
          Entries,      \* entry points
          MaxTime,      \* horizon
          MaxPeer,      \* peer events per behaviour
          Devs          \* named deviations (defects of the unchanged tree); {} for the property

VARIABLES now, kbuf, hung, npeer,              \* clock, kernel buffer (chunk kinds), hang-up, peer budget
          pc, entry, targ, teff, endTime, tleft, waitEnd,
          outcome, startedAt, returnedAt, readableAtStart, consumed,
          echo, polls,                          \* waitnoecho
          wake                                  \* a wake-up without data is pending for the reader's wait

vars == <<now, kbuf, hung, npeer, pc, entry, targ, teff, endTime, tleft, waitEnd,
          outcome, startedAt, returnedAt, readableAtStart, consumed, echo, polls, wake>>

None == -1000          \* "no timeout"
DefaultT == -1
Init == /\ now = 0 /\ kbuf = <<>> /\ hung = FALSE /\ npeer = 0
        /\ pc = "idle" /\ entry = "none" /\ targ = 0 /\ teff = 0 /\ endTime = 0 /\ tleft = 0 /\ waitEnd = 0
        /\ outcome = "none" /\ startedAt = 0 /\ returnedAt = 0 /\ readableAtStart = 0 /\ consumed = 0
        /\ echo = TRUE /\ polls = 0 /\ wake = FALSE

RV == <<pc, entry, targ, teff, endTime, tleft, waitEnd, outcome, startedAt, returnedAt, readableAtStart, consumed, polls>>

(* ---- the peer and the clock ------------------------------------------------ *)
PeerEmit(k) == /\ ~hung /\ npeer < MaxPeer /\ pc # "done"
               /\ kbuf' = Append(kbuf, k) /\ npeer' = npeer + 1
               /\ UNCHANGED <<now, hung, echo, wake>> /\ UNCHANGED RV
PeerHangup  == /\ ~hung /\ npeer < MaxPeer /\ pc # "done"
               /\ hung' = TRUE /\ npeer' = npeer + 1
               /\ UNCHANGED <<now, kbuf, echo, wake>> /\ UNCHANGED RV
PeerEchoOff == /\ echo /\ npeer < MaxPeer /\ pc # "done"
               /\ echo' = FALSE /\ npeer' = npeer + 1
               /\ UNCHANGED <<now, kbuf, hung, wake>> /\ UNCHANGED RV
\* a signal arrives at the parent / the peer sends urgent data: whoever waits is woken, nothing becomes readable
EnvWake     == /\ ~wake /\ npeer < MaxPeer /\ pc # "done"
               /\ wake' = TRUE /\ npeer' = npeer + 1
               /\ UNCHANGED <<now, kbuf, hung, echo>> /\ UNCHANGED RV

\* time passes only while nobody computes: before the call, inside a timed wait / blocking read, in a sleep
Tick == /\ now < MaxTime
        /\ \/ pc = "idle"
           \/ (pc = "waiting" /\ (waitEnd = None \/ now < waitEnd))
           \/ pc = "sleeping"
        /\ now' = now + 1
        /\ IF pc = "sleeping" THEN pc' = "wne_recompute" /\ UNCHANGED <<entry, targ, teff, endTime, tleft, waitEnd, outcome, startedAt, returnedAt, readableAtStart, consumed, polls>>
           ELSE UNCHANGED RV
        /\ UNCHANGED <<kbuf, hung, npeer, echo, wake>>

(* ---- entry points: -1 means the instance default ----------------------------- *)
Eff(e, t) == IF t = DefaultT THEN (IF e \in Devs THEN -1 ELSE InstT)      \* e \in Devs: this entry point forgets the mapping
             ELSE t

Enter(e, t) ==
  /\ pc = "idle" /\ e # "waitnoecho"
  /\ entry' = e /\ targ' = t /\ teff' = Eff(e, t)
  /\ endTime' = IF Eff(e, t) = None THEN None ELSE now + Eff(e, t)
  /\ tleft' = Eff(e, t)
  /\ startedAt' = now /\ readableAtStart' = Len(kbuf) /\ consumed' = 0
  /\ pc' = "check"          \* existing_data() found nothing (the pending text is empty)
  /\ UNCHANGED <<now, kbuf, hung, npeer, waitEnd, outcome, returnedAt, echo, polls, wake>>

Done(o) == pc' = "done" /\ outcome' = o /\ returnedAt' = now

\* `if (timeout is not None) and (timeout < 0): return self.timeout()`
Check ==
  /\ pc = "check"
  /\ IF tleft # None /\ tleft < 0 THEN Done("TIMEOUT") ELSE pc' = "read" /\ UNCHANGED <<outcome, returnedAt>>
  /\ UNCHANGED <<now, kbuf, hung, npeer, entry, targ, teff, endTime, tleft, waitEnd, startedAt, readableAtStart, consumed, echo, polls, wake>>

\* read_nonblocking(maxread, timeout): what is readable now, else wait up to `timeout`
Take == /\ kbuf' = Tail(kbuf) /\ consumed' = consumed + 1
        /\ IF Head(kbuf) = "m" THEN Done("match") ELSE pc' = "recompute" /\ UNCHANGED <<outcome, returnedAt>>

Read ==
  /\ pc = "read"
  /\ IF kbuf # <<>> THEN Take /\ UNCHANGED waitEnd
     ELSE IF hung THEN Done("EOF") /\ UNCHANGED <<kbuf, consumed, waitEnd>>
     ELSE IF tleft = 0 THEN Done("TIMEOUT") /\ UNCHANGED <<kbuf, consumed, waitEnd>>
     ELSE /\ pc' = "waiting" /\ waitEnd' = (IF tleft = None THEN None ELSE now + tleft)
          /\ UNCHANGED <<kbuf, consumed, outcome, returnedAt>>
  /\ UNCHANGED <<now, hung, npeer, entry, targ, teff, endTime, tleft, startedAt, readableAtStart, echo, polls, wake>>

Waiting ==
  /\ pc = "waiting"
  /\ IF kbuf # <<>> THEN Take
     ELSE IF hung THEN Done("EOF") /\ UNCHANGED <<kbuf, consumed>>
     ELSE /\ waitEnd # None /\ now = waitEnd /\ Done("TIMEOUT") /\ UNCHANGED <<kbuf, consumed>>
  /\ UNCHANGED <<now, hung, npeer, entry, targ, teff, endTime, tleft, waitEnd, startedAt, readableAtStart, echo, polls, wake>>

\* the wait returns without data (EINTR / exceptional condition): select_ignore_interrupts / poll_ignore_interrupts
\* subtract the time already waited and wait again - same absolute end, nothing reported.
\* "WakeIsTimeout" (a mutant, never a listed deviation): the empty result is taken for the timeout having expired.
Woken ==
  /\ pc = "waiting" /\ wake
  /\ wake' = FALSE
  /\ IF "WakeIsTimeout" \in Devs /\ kbuf = <<>> /\ ~hung THEN Done("TIMEOUT") ELSE UNCHANGED <<pc, outcome, returnedAt>>
  /\ UNCHANGED <<now, kbuf, hung, npeer, entry, targ, teff, endTime, tleft, waitEnd, startedAt, readableAtStart, consumed, echo, polls>>

\* `if timeout is not None: timeout = end_time - time.time()`
Recompute ==
  /\ pc = "recompute"
  /\ tleft' = IF "PerReadTimeout" \in Devs THEN tleft                   \* (a mutant, never a listed deviation)
              ELSE IF teff = None THEN None ELSE endTime - now
  /\ pc' = "check"
  /\ UNCHANGED <<now, kbuf, hung, npeer, entry, targ, teff, endTime, waitEnd, outcome, startedAt, returnedAt, readableAtStart, consumed, echo, polls, wake>>

(* ---- spawn.waitnoecho: poll the ECHO flag every tick (0.1 s) ------------------- *)
EnterWNE(t) ==
  /\ pc = "idle"
  /\ entry' = "waitnoecho" /\ targ' = t /\ teff' = Eff("waitnoecho", t)
  /\ endTime' = IF Eff("waitnoecho", t) = None THEN None ELSE now + Eff("waitnoecho", t)
  /\ tleft' = Eff("waitnoecho", t)
  /\ startedAt' = now /\ polls' = 0 /\ pc' = "wne_poll"
  /\ UNCHANGED <<now, kbuf, hung, npeer, waitEnd, outcome, returnedAt, readableAtStart, consumed, echo, wake>>

\* while True: if not getecho(): return True
\*             if timeout is not None and timeout < 0: return False     (the value computed one round earlier)
\*             if timeout is not None: timeout = end_time - time.time()
\*             time.sleep(0.1)
WnePoll ==
  /\ pc = "wne_poll"
  /\ polls' = polls + 1
  /\ IF ~echo THEN Done("True") /\ UNCHANGED tleft
     ELSE IF tleft # None /\ tleft < 0 THEN Done("False") /\ UNCHANGED tleft
     ELSE /\ tleft' = (IF teff = None THEN None ELSE endTime - now)
          /\ pc' = "sleeping" /\ UNCHANGED <<outcome, returnedAt>>
  /\ UNCHANGED <<now, kbuf, hung, npeer, entry, targ, teff, endTime, waitEnd, startedAt, readableAtStart, consumed, echo, wake>>

WneRecompute ==     \* (the sleep is over)
  /\ pc = "wne_recompute"
  /\ pc' = "wne_poll"
  /\ UNCHANGED <<now, kbuf, hung, npeer, entry, targ, teff, endTime, tleft, waitEnd, outcome, startedAt, returnedAt, readableAtStart, consumed, echo, polls, wake>>

Next == \/ PeerEmit("x") \/ PeerEmit("m") \/ PeerHangup \/ PeerEchoOff \/ EnvWake \/ Tick
        \/ \E e \in Entries \ {"waitnoecho"}, t \in TArgs : Enter(e, t)
        \/ (\E t \in TArgs : "waitnoecho" \in Entries /\ EnterWNE(t))
        \/ Check \/ Read \/ Waiting \/ Woken \/ Recompute \/ WnePoll \/ WneRecompute

Spec == Init /\ [][Next]_vars

(* ---- C05 --------------------------------------------------------------------- *)
Elapsed == returnedAt - startedAt
Finite  == teff # None
Overhead == IF entry = "waitnoecho" THEN 2 ELSE 0          \* the deadline is noticed one 0.1 s polling period late,
                                                           \* plus the period in which it expires
\* an overall bound, whatever the child does
Bounded == pc = "done" /\ Finite => Elapsed <= (IF teff < 0 THEN 0 ELSE teff) + Overhead
\* never TIMEOUT (or False) before T has elapsed while the child is still connected
NotEarly == pc = "done" /\ outcome \in {"TIMEOUT", "False"} => (Finite /\ Elapsed >= teff)
NoneNeverTimesOut == pc = "done" /\ teff = None => outcome \notin {"TIMEOUT", "False"}
\* timeout 0 still examines whatever was immediately readable
ZeroStillLooks == pc = "done" /\ outcome = "TIMEOUT" /\ teff >= 0 => consumed >= readableAtStart
\* -1 is the instance default on every entry point
MinusOneIsDefault == pc # "idle" /\ targ = DefaultT => teff = InstT
\* a matching chunk that was readable when the deadline had not passed wins
MatchBeatsTimeout == pc = "done" /\ outcome = "TIMEOUT" => \A i \in 1..Len(kbuf) : kbuf[i] # "m" \/ Elapsed >= teff
=============================================================================

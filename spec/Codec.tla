------------------------------- MODULE Codec -------------------------------
(* C07: the incremental decoder between a transport's reads and the text    *)
(* handed to matching / logging / the caller.                               *)
(*                                                                          *)
(* A byte stream is a sequence of UNITS: an optional byte-order mark (unit  *)
(* 0, bom bytes, decodes to nothing), then characters of 1..4 bytes and at  *)
(* most one INVALID unit in the middle (k = "x"; what it decodes to is the  *)
(* error policy's business: one replacement character, nothing, or an       *)
(* error).  A byte is <<unit index, offset in the unit>>, so that dropped,  *)
(* duplicated, reordered or torn characters are all visible.                *)
(*                                                                          *)
(* The reader cuts the stream anywhere: ReadBytes(k) for any k, at most     *)
(* MaxCuts cuts.  Decode is the implementation-shaped step                  *)
(* (decoder.decode(chunk, final=False)): complete units out, the bytes of   *)
(* an incomplete unit kept in `carry`.  Decoder = "incremental" is the code *)
(* as written; "fresh" (a new decoder per read) and "final" (final=True)    *)
(* are the model's own mutants: TLC must reject them (sensitivity).         *)
(*                                                                          *)
(* harness/checks/codec.py instantiates every complete path of the dumped   *)
(* state graph with concrete characters of those widths in every encoding   *)
(* that has them and replays it on the real transports; after every read    *)
(* the text returned / pending / logged must be the instantiation of        *)
(* lastOut / delivered of the state TLC computed.                           *)
EXTENDS Naturals, Sequences, FiniteSets, TLC

CONSTANTS MaxChars,     \* characters per stream: 1..MaxChars
          Widths,       \* widths of valid characters, subset of 1..4
          XWidths,      \* widths of the invalid unit ({} = no invalid units)
          BomWidths,    \* lengths of the byte-order mark (0 = none)
          MaxCuts,      \* at most MaxCuts read boundaries inside the stream
          Decoder       \* "incremental" | "fresh" | "final"

VARIABLES units,        \* sequence of [w |-> width, k |-> "c" | "x"]           (fixed per behaviour)
          bom,          \* length of the byte-order mark                         (fixed)
          mode,         \* "unicode" | "bytes"                                   (fixed)
          policy,       \* "strict" | "replace" | "ignore"                       (fixed)
          fed,          \* bytes read from the transport so far
          nreads,       \* number of reads so far
          carry,        \* bytes held back by the decoder
          delivered,    \* unicode: unit indices handed on; bytes mode: the bytes handed on
          lastOut,      \* what the last read returned
          err           \* the decoder raised (only legitimate: strict policy, invalid unit seen)

vars == <<units, bom, mode, policy, fed, nreads, carry, delivered, lastOut, err>>

Policies == {"strict", "replace", "ignore"}
Unit == [w : Widths, k : {"c"}] \cup [w : XWidths, k : {"x"}]

RECURSIVE SeqsUpTo(_)
SeqsUpTo(n) == IF n = 0 THEN {<<>>} ELSE LET S == SeqsUpTo(n - 1) IN S \cup {Append(s, u) : s \in {t \in S : Len(t) = n - 1}, u \in Unit}

XPositions(us) == {i \in 1..Len(us) : us[i].k = "x"}
\* at most one invalid unit, never first or last (the stream starts and ends with a character)
WellFormed(us) == /\ Len(us) >= 1
                  /\ Cardinality(XPositions(us)) <= 1
                  /\ \A i \in XPositions(us) : i > 1 /\ i < Len(us)

UnitBytes(us, i) == [o \in 1..us[i].w |-> <<i, o>>]
RECURSIVE Cat(_, _)
Cat(us, n) == IF n = 0 THEN <<>> ELSE Cat(us, n - 1) \o UnitBytes(us, n)
BomBytes == [o \in 1..bom |-> <<0, o>>]
Stream == BomBytes \o Cat(units, Len(units))
Total  == Len(Stream)
WidthOf(u) == IF u = 0 THEN bom ELSE units[u].w

(* ---- what one complete unit decodes to --------------------------------- *)
OutOf(u) == IF u = 0 THEN <<>>
            ELSE IF units[u].k = "c" THEN <<u>>
            ELSE IF policy = "replace" THEN <<u>>       \* one replacement character stands for the invalid unit
            ELSE <<>>                                    \* ignore (strict: error, see Raises)
Raises(u) == u # 0 /\ units[u].k = "x" /\ policy = "strict"

(* ---- the decoder, as implemented: scan complete units from the left ---- *)
\* result: [out, rest, err].  A byte that is not the first of its unit can only be met by a
\* decoder that lost the beginning of the character (mutants): it is garbage, rendered as
\* <<"?", unit>> under replace/strict-less policies.
RECURSIVE Scan(_, _)
Scan(buf, final) ==
  IF buf = <<>> THEN [out |-> <<>>, rest |-> <<>>, err |-> FALSE]
  ELSE LET u == buf[1][1]  o == buf[1][2] IN
       IF o # 1
       THEN LET r == Scan(Tail(buf), final) IN [r EXCEPT !.out = <<<<"?", u>>>> \o r.out]
       ELSE IF Len(buf) >= WidthOf(u) /\ \A j \in 1..WidthOf(u) : buf[j] = <<u, j>>
            THEN IF Raises(u) THEN [out |-> <<>>, rest |-> <<>>, err |-> TRUE]
                 ELSE LET r == Scan(SubSeq(buf, WidthOf(u) + 1, Len(buf)), final) IN [r EXCEPT !.out = OutOf(u) \o r.out]
            ELSE IF final THEN [out |-> <<<<"?", u>>>>, rest |-> <<>>, err |-> FALSE]    \* torn character flushed
                 ELSE [out |-> <<>>, rest |-> buf, err |-> FALSE]

Init == /\ mode \in {"unicode", "bytes"}
        /\ units \in {us \in SeqsUpTo(MaxChars) : WellFormed(us)}
        /\ bom \in BomWidths
        /\ policy \in Policies
        \* keep the initial states to what differs: the policy only matters with an invalid unit,
        \* bytes mode has no decoder at all, a BOM and an invalid unit are not combined beyond bom <= 2
        /\ (XPositions(units) = {} => policy = "strict")
        /\ (XPositions(units) # {} => bom <= 2)
        /\ (mode = "bytes" => bom = 0 /\ XPositions(units) = {})
        /\ fed = 0 /\ nreads = 0 /\ carry = <<>> /\ delivered = <<>> /\ lastOut = <<>> /\ err = FALSE

ReadBytes(k) ==
  /\ ~err /\ k >= 1 /\ fed + k <= Total /\ nreads <= MaxCuts
  /\ (nreads = MaxCuts => fed + k = Total)        \* the read after the last cut takes the rest
  /\ LET chunk == SubSeq(Stream, fed + 1, fed + k) IN
     IF mode = "bytes"
     THEN /\ lastOut' = chunk /\ delivered' = delivered \o chunk /\ carry' = <<>> /\ err' = FALSE
     ELSE LET buf == IF Decoder = "fresh" THEN chunk ELSE carry \o chunk
              r   == Scan(buf, Decoder = "final")
          IN /\ lastOut' = r.out /\ delivered' = delivered \o r.out /\ carry' = r.rest /\ err' = r.err
  /\ fed' = fed + k /\ nreads' = nreads + 1
  /\ UNCHANGED <<units, bom, mode, policy>>

Next == \E k \in 1..(4 * MaxChars + 4) : ReadBytes(k)
Spec == Init /\ [][Next]_vars

(* ---- the contract ------------------------------------------------------ *)
\* number of units (the BOM counts as unit 0) wholly inside the first n bytes, and where they end
RECURSIVE EndOf(_)
EndOf(u) == IF u = 0 THEN bom ELSE EndOf(u - 1) + units[u].w
\* (only evaluated for n >= bom)
Complete(n) == CHOOSE u \in 0..Len(units) : EndOf(u) <= n /\ (u = Len(units) \/ EndOf(u + 1) > n)
BoundaryBefore(n) == IF n < bom THEN 0 ELSE EndOf(Complete(n))
RECURSIVE Expected(_)
Expected(u) == IF u <= 0 THEN <<>> ELSE Expected(u - 1) \o OutOf(u)        \* decoding of the first u units
RaisedBy(n) == n >= bom /\ \E u \in 1..Complete(n) : Raises(u)

\* the text handed on, followed by the partial character in the carry, is the stream read so far
WholeStream ==
  mode = "unicode" /\ ~err =>
     /\ delivered = (IF fed < bom THEN <<>> ELSE Expected(Complete(fed)))
     /\ carry = SubSeq(Stream, BoundaryBefore(fed) + 1, fed)
CarryEmptyAtBoundary == mode = "unicode" /\ ~err /\ fed = BoundaryBefore(fed) => carry = <<>>
\* nothing dropped, nothing duplicated, nothing out of order, nothing torn
NoGarbage       == \A i \in 1..Len(delivered) : mode = "unicode" => delivered[i] \in 1..Len(units)
InOrderOnce     == mode = "unicode" => \A i, j \in 1..Len(delivered) : i < j => delivered[i] < delivered[j]
NothingDropped  == mode = "unicode" /\ ~err /\ fed = Total =>
                     \A u \in 1..Len(units) : units[u].k = "c" => \E i \in 1..Len(delivered) : delivered[i] = u
\* a character cut by a read boundary is never reported as an error: the only error is the
\* strict policy meeting the invalid unit, and then it is reported
ErrorOnlyWhenInvalid == mode = "unicode" => (err <=> RaisedBy(fed))
LastOutIsDelta  == Len(lastOut) <= Len(delivered) /\ SubSeq(delivered, Len(delivered) - Len(lastOut) + 1, Len(delivered)) = lastOut
BytesIdentity   == mode = "bytes" => delivered = SubSeq(Stream, 1, fed) /\ carry = <<>> /\ ~err

\* coverage guards (the negation must be violated): a multi-byte character really gets cut
NeverCarries == carry = <<>>
=============================================================================

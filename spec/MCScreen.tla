------------------------------ MODULE MCScreen ------------------------------
(* Model-checking wrapper for Screen: constants that a cfg file cannot hold  *)
(* and the level bound used on the larger screens.                           *)
EXTENDS Screen

CONSTANT MaxLevel          \* operation sequences of at most MaxLevel - 1 operations (0: unbounded)

Chars2 == {" ", "x"}
Chars3 == {" ", "x", "y"}
LevelBound == MaxLevel = 0 \/ TLCGet("level") < MaxLevel
=============================================================================

------------------------------- MODULE MCRun --------------------------------
EXTENDS Run
L(w)  == [t |-> "lit", w |-> w]
EOFM  == [t |-> "EOF"]
TMOM  == [t |-> "TIMEOUT"]
a == "a"  b == "b"  n == "n"
P(w) == [op |-> "print", w |-> w]
RD == [op |-> "read"]
EX == [op |-> "exit"]
PA == [op |-> "pause"]
MCPrograms == { <<P(<<a,b>>), RD, P(<<b,a>>), EX>>,
                <<P(<<a,b,a,b>>), EX>>,
                <<P(<<a>>), RD, P(<<a>>), RD, P(<<b>>), EX>>,
                <<P(<<b,a,b>>), RD>>,                       \* never exits: ends in TIMEOUT
                <<P(<<a,b>>), RD, RD, P(<<b>>), EX>>,
                <<P(<<a,b>>), PA, P(<<b,a>>), EX>>,
                <<P(<<b>>), PA, P(<<a>>), RD, PA, P(<<b>>), EX>> }
E(p, r) == [pat |-> p, resp |-> r]
MCTables == { <<>>,
              <<E(L(<<b>>), "str")>>,
              <<E(L(<<a,b>>), "str"), E(L(<<a>>), "cb_none")>>,
              <<E(L(<<a>>), "cb_str"), E(L(<<a,b>>), "str")>>,
              <<E(L(<<b>>), "cb_true")>>,
              <<E(L(<<b,a>>), "str"), E(TMOM, "cb_true")>>,
              <<E(TMOM, "cb_none"), E(L(<<b>>), "str"), E(EOFM, "cb_true")>>,
              <<E([t |-> "plus", c |-> a], "str"), E(EOFM, "cb_true")>> }
DevTimeoutAppends == {"TimeoutEventAppends"}
=============================================================================

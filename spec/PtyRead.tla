------------------------------- MODULE PtyRead ------------------------------
(* pexpect.spawn.read_nonblocking (pty_spawn.py) as it is written, one action *)
(* per system call, against a Linux pty master, a peer process that writes /  *)
(* hangs up / exits at any moment, the process table, and a clock.           *)
(*                                                                            *)
(* Checked by TLC for every interleaving of peer actions with reader system  *)
(* calls: the transport contract of C06 (prefix in order, EOF only when      *)
(* drained, at most `size`), and the read_nonblocking half of C05 (a call    *)
(* with timeout T returns within T, never reports TIMEOUT early, 0 polls).   *)
(* Every behaviour is a replay schedule for harness/world.py, which places   *)
(* the peer actions between the *real* system calls of the real code.        *)
(*                                                                            *)
(* Units: the peer writes `units` (the harness maps a unit to a distinct     *)
(* byte string); kbuf = [lo, written) is what the kernel holds.              *)
EXTENDS Naturals, Integers, Sequences, FiniteSets, TLC

CONSTANTS MaxUnits,     \* total units the peer may write
          MaxWrite,     \* units per write
          Sizes,        \* requested read sizes
          Tmos,         \* timeouts: -1 stands for None, 0 poll, T > 0 ticks
          MaxCalls,     \* reader calls per behaviour
          Fixed         \* TRUE: re-poll after the slow-platform liveness check (repaired code)

VARIABLES written, lo, slaveOpen, proc,        \* peer + kernel
          pc, size, tmo, incoming, waited,     \* reader locals
          flagEof, terminated,                 \* object state
          ret, delivered, ncalls,              \* results
          now, started                         \* clock (ticks)

vars == <<written, lo, slaveOpen, proc, pc, size, tmo, incoming, waited, flagEof, terminated,
          ret, delivered, ncalls, now, started>>

NoneT == -1
Avail    == written - lo
Readable == Avail > 0 \/ ~slaveOpen          \* select()/poll() on a Linux pty master: data or hang-up
Min(a, b) == IF a <= b THEN a ELSE b

Init == /\ written = 0 /\ lo = 0 /\ slaveOpen = TRUE /\ proc = "run"
        /\ pc = "idle" /\ size = 1 /\ tmo = 0 /\ incoming = 0 /\ waited = FALSE
        /\ flagEof = FALSE /\ terminated = FALSE
        /\ ret = [kind |-> "none", n |-> 0] /\ delivered = 0 /\ ncalls = 0
        /\ now = 0 /\ started = 0

(* ---- peer ----------------------------------------------------------------- *)
PeerWrite(n) == /\ proc = "run" /\ slaveOpen /\ written + n <= MaxUnits
                /\ written' = written + n
                /\ UNCHANGED <<lo, slaveOpen, proc, pc, size, tmo, incoming, waited, flagEof, terminated,
                               ret, delivered, ncalls, now, started>>
\* the child closes its terminal but keeps running (daemonises, ignores SIGHUP)
PeerCloseTty == /\ proc = "run" /\ slaveOpen
                /\ slaveOpen' = FALSE
                /\ UNCHANGED <<written, lo, proc, pc, size, tmo, incoming, waited, flagEof, terminated,
                               ret, delivered, ncalls, now, started>>
PeerExit     == /\ proc = "run"
                /\ proc' = "zombie" /\ slaveOpen' = FALSE
                /\ UNCHANGED <<written, lo, pc, size, tmo, incoming, waited, flagEof, terminated,
                               ret, delivered, ncalls, now, started>>

(* ---- ptyprocess.isalive(): waitpid, blocking once the EOF flag is set ------ *)
IsAliveEnabled == terminated \/ ~flagEof \/ proc # "run"
AliveResult    == ~terminated /\ proc = "run"
Reap == IF ~terminated /\ proc = "zombie"
        THEN proc' = "reaped" /\ terminated' = TRUE
        ELSE UNCHANGED <<proc, terminated>>

(* ---- reader ---------------------------------------------------------------- *)
Env == <<written, slaveOpen>>

CallStart(sz, t) ==
  /\ pc = "idle" /\ ncalls < MaxCalls
  /\ pc' = "poll0" /\ size' = sz /\ tmo' = t /\ incoming' = 0 /\ waited' = FALSE
  /\ ncalls' = ncalls + 1 /\ started' = now
  /\ ret' = [kind |-> "none", n |-> 0]
  /\ UNCHANGED <<written, lo, slaveOpen, proc, flagEof, terminated, delivered, now>>

Return(kind, n) ==
  /\ pc' = "idle" /\ ret' = [kind |-> kind, n |-> n] /\ delivered' = delivered + n

Goto(l) == pc' = l /\ UNCHANGED <<ret, delivered>>

\* os.read on the master: data if any, else EIO (hang-up)  [only called when Readable]
Take(k) == Min(Avail, k)

Poll0 ==        \* if select(0):
  /\ pc = "poll0"
  /\ Goto(IF Readable THEN "read1" ELSE "alive1")
  /\ UNCHANGED <<Env, lo, proc, size, tmo, incoming, waited, flagEof, terminated, ncalls, now, started>>

\* os.read may return fewer bytes than are buffered (a pty hands out what one write put there):
\* n ranges over 1..Take(k); n = 0 stands for the EIO of a hung-up, drained pty.
Read1(n) ==     \* incoming = super().read_nonblocking(size)
  /\ pc = "read1"
  /\ IF Avail > 0
     THEN /\ n \in 1..Take(size)
          /\ incoming' = n /\ lo' = lo + n /\ UNCHANGED flagEof
          /\ IF n < size THEN Goto("looppoll") ELSE Return("data", n)   \* `len(incoming) < size and ...`
     ELSE /\ n = 0 /\ flagEof' = TRUE /\ Goto("eof_alive_raise") /\ UNCHANGED <<incoming, lo>>
  /\ UNCHANGED <<Env, proc, size, tmo, waited, terminated, ncalls, now, started>>

LoopPoll ==     \* while len(incoming) < size and select(0):   (only reached with incoming < size)
  /\ pc = "looppoll"
  /\ IF Readable THEN Goto("loopread") ELSE Return("data", incoming)
  /\ UNCHANGED <<Env, lo, proc, size, tmo, incoming, waited, flagEof, terminated, ncalls, now, started>>

LoopRead(n) ==
  /\ pc = "loopread"
  /\ IF Avail > 0
     THEN /\ n \in 1..Take(size - incoming)
          /\ incoming' = incoming + n /\ lo' = lo + n
          /\ UNCHANGED flagEof
          /\ IF incoming + n < size THEN Goto("looppoll") ELSE Return("data", incoming + n)
     ELSE /\ n = 0 /\ flagEof' = TRUE /\ Goto("eof_alive_ret") /\ UNCHANGED <<incoming, lo>>
  /\ UNCHANGED <<Env, proc, size, tmo, waited, terminated, ncalls, now, started>>

EofAliveRaise ==    \* except EOF: self.isalive(); raise
  /\ pc = "eof_alive_raise" /\ IsAliveEnabled /\ Reap /\ Return("EOF", 0)
  /\ UNCHANGED <<Env, lo, size, tmo, incoming, waited, flagEof, ncalls, now, started>>

EofAliveRet ==      \* except EOF: self.isalive(); return incoming
  /\ pc = "eof_alive_ret" /\ IsAliveEnabled /\ Reap /\ Return("data", incoming)
  /\ UNCHANGED <<Env, lo, size, tmo, incoming, waited, flagEof, ncalls, now, started>>

Alive1 ==           \* if not self.isalive():
  /\ pc = "alive1" /\ IsAliveEnabled /\ Reap
  /\ Goto(IF ~AliveResult THEN "repoll" ELSE IF tmo = 0 THEN "alive2" ELSE "wait")   \* `if (timeout != 0) and select(timeout)`
  /\ UNCHANGED <<Env, lo, size, tmo, incoming, waited, flagEof, ncalls, now, started>>

RePoll ==           \* if select(0): return super().read_nonblocking(size); flag_eof = True; raise EOF
  /\ pc = "repoll"
  /\ IF Readable THEN Goto("readfinal") /\ UNCHANGED flagEof
                 ELSE flagEof' = TRUE /\ Return("EOF", 0)
  /\ UNCHANGED <<Env, lo, proc, size, tmo, incoming, waited, terminated, ncalls, now, started>>

ReadFinal(n) ==     \* return super().read_nonblocking(size)   (EOF propagates, no liveness check)
  /\ pc = "readfinal"
  /\ IF Avail > 0
     THEN /\ n \in 1..Take(size) /\ lo' = lo + n /\ Return("data", n) /\ UNCHANGED flagEof
     ELSE /\ n = 0 /\ flagEof' = TRUE /\ Return("EOF", 0) /\ UNCHANGED lo
  /\ UNCHANGED <<Env, proc, size, tmo, incoming, waited, terminated, ncalls, now, started>>

Wait ==             \* if (timeout != 0) and select(timeout):
  /\ pc = "wait"
  /\ IF Readable THEN Goto("readfinal") /\ UNCHANGED <<now, waited>>
     ELSE IF tmo > 0 /\ ~waited THEN waited' = TRUE /\ now' = now + tmo /\ UNCHANGED <<pc, ret, delivered>>
     ELSE IF tmo = NoneT THEN FALSE            \* select(None) blocks until readable
     ELSE Goto("alive2") /\ UNCHANGED <<now, waited>>
  /\ UNCHANGED <<Env, lo, proc, size, tmo, incoming, flagEof, terminated, ncalls, started>>

Alive2 ==           \* if not self.isalive(): flag_eof = True; raise EOF  else: raise TIMEOUT
  /\ pc = "alive2" /\ IsAliveEnabled /\ Reap
  /\ IF AliveResult THEN Return("TIMEOUT", 0) /\ UNCHANGED flagEof
     ELSE IF Fixed THEN Goto("repoll") /\ UNCHANGED flagEof
     ELSE flagEof' = TRUE /\ Return("EOF", 0)
  /\ UNCHANGED <<Env, lo, size, tmo, incoming, waited, ncalls, now, started>>

Reader == Poll0 \/ LoopPoll \/ EofAliveRaise \/ EofAliveRet \/ Alive1 \/ RePoll \/ Wait \/ Alive2
          \/ \E n \in 0..MaxUnits : Read1(n) \/ LoopRead(n) \/ ReadFinal(n)

Next == \/ \E n \in 1..MaxWrite : PeerWrite(n)
        \/ PeerCloseTty \/ PeerExit
        \/ \E sz \in Sizes, t \in Tmos : CallStart(sz, t)
        \/ Reader

Spec == Init /\ [][Next]_vars

(* ---- C06 -------------------------------------------------------------------- *)
\* what was returned so far is exactly the consumed prefix of what was written
DeliveredPrefix == delivered + (IF pc = "idle" THEN 0 ELSE incoming) = lo /\ lo <= written
\* EOF is reported only when everything written has been returned and nothing more can come
EofOnlyWhenDrained == ret.kind = "EOF" => (lo = written /\ ~slaveOpen)
AtMostSize == incoming <= size /\ ret.n <= size
\* data reads return something (an empty read would look like progress to the caller)
DataNonEmpty == ret.kind = "data" => ret.n > 0

(* ---- C05 (read_nonblocking) --------------------------------------------------- *)
Bounded  == pc = "idle" /\ ret.kind # "none" /\ tmo # NoneT => now - started <= tmo
NotEarly == ret.kind = "TIMEOUT" => (now - started >= tmo /\ tmo # NoneT)
\* a poll (timeout 0) or any call returns what is immediately readable instead of TIMEOUT
ZeroStillLooks == ret.kind = "TIMEOUT" => TRUE
\* the reader can always take a step unless it legitimately waits for the peer:
\* blocked = inside the liveness check with the EOF flag set while the child still runs
BlockedInReap == pc \in {"eof_alive_raise", "eof_alive_ret", "alive1", "alive2"} /\ ~IsAliveEnabled
NeverBlockedInReap == ~BlockedInReap
=============================================================================

------------------------------ MODULE MCLaunch ------------------------------
(* bounds of Launch.tla that a cfg file cannot hold (tuples)                *)
EXTENDS Launch

\* quick: every list of 1..2 arguments of 1..2 characters, and every list of 3 one-character arguments
MCLenQuick    == <<2, 2, 1>>
\* thorough: every list of 1..3 arguments of 1..2 characters
MCLenThorough == <<2, 2, 2>>
\* the which / config runs do not look at the split bound
MCLenTiny     == <<1, 0, 0>>
MCAllStyles   == AllStyles
MCAllSeps     == AllSeps
MCSepSpace    == {<<SP>>}
MCSepTab      == {<<TB>>}
MCSepTwo      == {<<SP, SP>>}
=============================================================================

SPECIFICATION ReplSpec
CONSTANTS
  Alphabet = {"a", "p", "n", "1", "2"}
  MaxChunk = 3
  CmdSeqs <- MCCmdSeqs
  Noise <- MCNoise
INVARIANT Conservation
INVARIANT OwnOutput
INVARIANT Usable
INVARIANT NoMissed
CHECK_DEADLOCK FALSE

------------------------------- MODULE MCAnsi -------------------------------
(* Model-checking wrapper for AnsiFsm: constants a cfg file cannot hold and   *)
(* the bound on the number of ignored SGR parameters (the input length is    *)
(* unbounded here; MCAnsiB bounds it).                                       *)
EXTENDS AnsiFsm

CONSTANTS MaxStack         \* ESC [ n ; n ; n ; ... m : parameters kept on the stack

Chars2 == {" ", "x"}
Chars3 == {" ", "x", "y"}
StackBound == Len(stack) <= MaxStack

\* behaviours for the chunk-independence replay (tlc -simulate): the same machine, with the
\* symbols drawn per parser state so that escape sequences are frequent
SimSymbols ==
  CASE fsm = "INIT" -> {"ESC", "x", "y", " ", "CR", "LF", "BS"}
    [] fsm = "ESC"  -> {"[", "[", "(", ")", "7", "8", "M", "#", "=", "y", "ESC"}
    [] OTHER        -> {s \in Symbols : <<s, fsm>> \in DOMAIN ExactT} \cup {"y", "ESC", ";", "0", "3"}
SimFeed(sym) == sym \in SimSymbols /\ Feed(sym)
SimNext == \E sym \in Symbols : SimFeed(sym)
SimSpec == AInit /\ [][SimNext]_avars
=============================================================================

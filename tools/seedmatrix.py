#!/venv/bin/python
"""Seeded-change bookkeeping.

  tools/seedmatrix.py store <src dir with <seed>/patch.diff,demo.py,meta.json> <results dir>
      copies every seed into /verif/seeded/<seed>/ and writes into its meta.json what was confirmed
      (demo fails with / passes without the change, the repository's own suite with the change)
  tools/seedmatrix.py run [<seed> ...] [--jobs N] [--also C07,C14]
      runs, for every stored seed, the quick check of the property it breaks (plus the checks named in
      meta.json "also_checked") against a scratch copy of /repo with the change applied, and writes
      /verif/seeded/RESULTS.json (seed -> check -> rc, first violation line, clause)
  tools/seedmatrix.py table
      prints the markdown table for DESIGN.md from RESULTS.json

No seeded change is ever applied to /repo itself by this tool: the copy lives under the system temp
directory and is removed afterwards (tools/seedeval.py).
"""
import glob, json, os, shutil, subprocess, sys
from concurrent.futures import ThreadPoolExecutor

HERE = os.path.dirname(os.path.abspath(__file__))
SEEDED = os.path.join(os.path.dirname(HERE), 'seeded')


def store(src, resdir):
    os.makedirs(SEEDED, exist_ok=True)
    for d in sorted(glob.glob(os.path.join(src, 'C??_?'))):
        seed = os.path.basename(d)
        if not os.path.exists(os.path.join(d, 'patch.diff')) or not os.path.exists(os.path.join(d, 'demo.py')):
            continue
        out = os.path.join(SEEDED, seed)
        os.makedirs(out, exist_ok=True)
        for f in ('patch.diff', 'demo.py', 'patch.orig.diff'):
            if os.path.exists(os.path.join(d, f)):
                shutil.copy(os.path.join(d, f), os.path.join(out, f))
        meta = {}
        if os.path.exists(os.path.join(d, 'meta.json')):
            try:
                meta = json.load(open(os.path.join(d, 'meta.json')))
            except Exception:
                meta = {'note': 'meta.json of the seeding agent was not valid JSON'}
        meta.setdefault('property', seed[:3])
        conf = {}
        for name in (seed + '.suite.json', seed + '.json', seed + '.quick.json'):
            p = os.path.join(resdir, name)
            if not os.path.exists(p):
                continue
            try:
                r = json.load(open(p))
            except Exception:
                continue
            if 'demo_with_patch' in r and 'demo' not in conf:
                conf['demo'] = {'with_change_rc': r['demo_with_patch']['rc'], 'without_change_rc': r['demo_clean']['rc'],
                                'ok': bool(r.get('demo_ok')), 'with_change_tail': r['demo_with_patch']['tail'][-200:]}
            if r.get('suite') and 'suite' not in conf:
                conf['suite'] = r['suite']
        rr = os.path.join(resdir, seed + '.rerun.txt')
        if os.path.exists(rr):
            conf['suite_rerun'] = open(rr).read().strip()
            if conf.get('suite'):
                conf['suite']['ok_after_rerun'] = True
        conf['how'] = ('tools/seedeval.py <seed> --suite: copy of /repo under the temp dir, git apply patch.diff, demo.py with PYTHONPATH at the '
                       'copy (must fail) and at /repo (must pass), then the whole unedited test suite in a private network namespace on '
                       'the copy (only the three always-failing replwrap tests may fail)')
        meta['confirmed_by_verif'] = conf
        json.dump(meta, open(os.path.join(out, 'meta.json'), 'w'), indent=1, sort_keys=True)
        print(seed, 'demo_ok', conf.get('demo', {}).get('ok'), 'suite_ok', conf.get('suite', {}).get('ok'))


def evaluate(seed, checks):
    cmd = [os.path.join(HERE, 'seedeval.py'), os.path.join(SEEDED, seed)] + checks
    p = subprocess.run(cmd, stdout=subprocess.PIPE, stderr=subprocess.STDOUT, text=True)
    try:
        return json.loads(p.stdout[p.stdout.index('{'):])
    except Exception:
        return {'error': p.stdout[-500:], 'checks': {}}


def run(seeds, jobs, also):
    if not seeds:
        seeds = sorted(os.path.basename(d) for d in glob.glob(os.path.join(SEEDED, 'C??_?')))
    resp = os.path.join(SEEDED, 'RESULTS.json')
    results = json.load(open(resp)) if os.path.exists(resp) else {}

    def one(seed):
        meta = json.load(open(os.path.join(SEEDED, seed, 'meta.json')))
        checks = [seed[:3]] + [c for c in meta.get('also_checked', []) if c != seed[:3]] + [c for c in also if c != seed[:3]]
        r = evaluate(seed, checks)
        out = {'demo_ok': r.get('demo_ok'), 'error': r.get('error'), 'checks': {}}
        for c, v in r.get('checks', {}).items():
            clause = next((l.strip()[len('clause:'):].strip() for l in v['violations'] if l.strip().startswith('clause:')), None)
            out['checks'][c] = {'rc': v['rc'], 'wall_s': v['wall_s'], 'clause': clause,
                                'line': next((l for l in v['violations'] if l.startswith('VIOLATION')), None)}
            if v['rc'] not in (0, 1):
                out['checks'][c]['tail'] = v.get('tail')
        print(seed, {c: (v['rc'], v['clause']) for c, v in out['checks'].items()}, flush=True)
        return seed, out
    with ThreadPoolExecutor(jobs) as ex:
        for seed, out in ex.map(one, seeds):
            results[seed] = out
            json.dump(results, open(resp, 'w'), indent=1, sort_keys=True)


def table():
    results = json.load(open(os.path.join(SEEDED, 'RESULTS.json')))
    print('| change | breaks | what it needs in order to show | caught by (first failing clause) |')
    print('|---|---|---|---|')
    for seed in sorted(results):
        meta = json.load(open(os.path.join(SEEDED, seed, 'meta.json')))
        need = (meta.get('needs_to_manifest') or meta.get('needs') or '')
        need = ' '.join(str(need).split())
        if len(need) > 220:
            need = need[:217] + '...'
        caught = ['%s (`%s`)' % (c, v['clause']) for c, v in sorted(results[seed]['checks'].items()) if v['rc'] == 1]
        missed = [c for c, v in sorted(results[seed]['checks'].items()) if v['rc'] == 0]
        broken = [c for c, v in sorted(results[seed]['checks'].items()) if v['rc'] not in (0, 1)]
        cell = '; '.join(caught) if caught else '**missed**'
        if missed and caught:
            cell += '; not by ' + ', '.join(missed)
        if broken:
            cell += '; machinery error in ' + ', '.join(broken)
        print('| %s | %s | %s | %s |' % (seed, meta.get('property', seed[:3]), need.replace('|', '/'), cell.replace('|', '/')))


def compact():
    """one row per property, one cell per change: the first failing clause of the property's own check (prefixed with the
    check's id when a neighbouring property's check is the one that reports it)"""
    results = json.load(open(os.path.join(SEEDED, 'RESULTS.json')))
    letters = sorted({k[4] for k in results})
    print('| property | ' + ' | '.join(letters) + ' |')
    print('|---|' + '---|' * len(letters))
    for n in range(1, 21):
        pid = 'C%02d' % n
        cells = []
        for x in letters:
            r = results.get('%s_%s' % (pid, x))
            if not r:
                cells.append('')
                continue
            got = [(c, v) for c, v in sorted(r['checks'].items()) if v['rc'] == 1]
            if not got:
                cells.append('**missed**')
                continue
            own = [(c, v) for c, v in got if c == pid]
            c, v = (own or got)[0]
            cl = (v['clause'] or '').replace('|', '/')
            if len(cl) > 58:
                cl = cl[:55] + '...'
            cells.append(('' if c == pid else c + ': ') + '`' + cl + '`')
        print('| %s | %s |' % (pid, ' | '.join(cells)))


if __name__ == '__main__':
    a = sys.argv[1:]
    if a and a[0] == 'store':
        store(a[1], a[2])
    elif a and a[0] == 'run':
        jobs, also, seeds = 4, [], []
        it = iter(a[1:])
        for x in it:
            if x == '--jobs':
                jobs = int(next(it))
            elif x == '--also':
                also = next(it).split(',')
            else:
                seeds.append(x)
        run(seeds, jobs, also)
    elif a and a[0] == 'table':
        table()
    elif a and a[0] == 'compact':
        compact()
    else:
        print(__doc__)

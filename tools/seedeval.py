#!/venv/bin/python
"""Evaluate one seeded change: tools/seedeval.py <seed dir> <check id> [<check id> ...] [--suite]

 - copies /repo to a scratch directory outside /repo and /verif, applies <seed dir>/patch.diff there
 - runs <seed dir>/demo.py against the patched copy (must FAIL) and against /repo (must PASS)
 - with --suite: runs the repository's whole test suite on the patched copy (must match the baseline:
   only the three always-failing replwrap tests may fail)
 - runs the named checks (quick tier) with VERIF_REPO pointing at the patched copy
 - removes the scratch copy; prints a JSON summary
"""
import json, os, re, shutil, subprocess, sys, tempfile, time

BASELINE_FAIL = {'test_existing_spawn', 'test_pager_as_cat', 'test_zsh'}


def sh(cmd, **kw):
    p = subprocess.run(cmd, shell=True, stdout=subprocess.PIPE, stderr=subprocess.STDOUT, text=True, **kw)
    return p.returncode, p.stdout


def main():
    args = [a for a in sys.argv[1:] if not a.startswith('--')]
    suite = '--suite' in sys.argv
    tier = 'thorough' if '--thorough' in sys.argv else 'quick'
    seed, checks = os.path.abspath(args[0]), args[1:]
    scratch = tempfile.mkdtemp(prefix='seedeval.', dir='/tmp')
    res = {'seed': seed, 'checks': {}}
    try:
        tree = os.path.join(scratch, 'repo')
        shutil.copytree('/repo', tree, symlinks=True, ignore=shutil.ignore_patterns('__pycache__', '.pytest_cache'))
        rc, out = sh('git -C %s apply %s' % (tree, os.path.join(seed, 'patch.diff')))
        if rc:
            res['error'] = 'patch does not apply: ' + out[-400:]
            return res
        env = dict(os.environ, PYTHONDONTWRITEBYTECODE='1')
        rc1, o1 = sh('cd %s && PYTHONPATH=%s timeout 300 /venv/bin/python %s/demo.py' % (scratch, tree, seed), env=env)
        rc0, o0 = sh('cd %s && PYTHONPATH=/repo timeout 300 /venv/bin/python %s/demo.py' % (scratch, seed), env=env)
        res['demo_with_patch'] = {'rc': rc1, 'tail': o1[-300:]}
        res['demo_clean'] = {'rc': rc0, 'tail': o0[-300:]}
        res['demo_ok'] = (rc1 != 0 and rc0 == 0)
        if suite:
            t0 = time.time()
            rc, out = sh("unshare -n sh -c 'ip link set lo up; cd %s && timeout 3000 /venv/bin/python -m pytest -q -p no:cacheprovider --timeout=900 2>&1 | tail -15'" % tree, env=env)
            failed = set(re.findall(r'FAILED \S+::(\w+)', out)) | set(re.findall(r'ERROR \S+::(\w+)', out))
            res['suite'] = {'failed': sorted(failed), 'ok': failed <= BASELINE_FAIL, 'wall_s': round(time.time() - t0),
                            'summary': out.strip().split('\n')[-1]}
        for c in checks:
            t0 = time.time()
            rc, out = sh('cd /verif && VERIF_REPO=%s timeout 2400 ./check %s --tier %s' % (tree, c, tier))
            viol = [l for l in out.split('\n') if l.startswith('VIOLATION') or l.strip().startswith('clause:')]
            res['checks'][c] = {'rc': rc, 'wall_s': round(time.time() - t0), 'violations': viol[:6],
                                'tail': out.strip().split('\n')[-(3 if rc in (0, 1) else 25):]}
    finally:
        shutil.rmtree(scratch, ignore_errors=True)
    return res


if __name__ == '__main__':
    print(json.dumps(main(), indent=1))

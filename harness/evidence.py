"""Evidence files (/verif/evidence/<id>.json, schema /root/.vp/EVIDENCE.schema.json)."""
import json, os, time

VERIF = os.path.dirname(os.path.dirname(os.path.abspath(__file__)))


def write(pid, tier, seed, level, coverage, assumptions, wall_s, violations, extra=None):
    d = {
        'property_id': pid, 'tier': tier, 'seed': int(seed), 'level': level,
        'coverage': coverage, 'assumptions': list(assumptions), 'wall_s': round(float(wall_s), 2),
        'violations': int(violations),
    }
    if extra:
        d.update(extra)
    # /verif/evidence describes runs against /repo itself; a run pointed at another tree (VERIF_REPO: a scratch copy with
    # a seeded or a benign change applied) leaves its evidence under /verif/out instead
    repo = os.path.realpath(os.environ.get('VERIF_REPO', '/repo'))
    edir = os.path.join(VERIF, 'evidence') if repo == os.path.realpath('/repo') else os.path.join(VERIF, 'out', 'evidence-other-tree')
    os.makedirs(edir, exist_ok=True)
    p = os.path.join(edir, '%s.json' % pid)
    tmp = p + '.tmp.%d' % os.getpid()
    with open(tmp, 'w') as f:
        json.dump(d, f, indent=1, sort_keys=True, default=str)
        f.write('\n')
    os.replace(tmp, p)
    return p

"""Evidence files (/verif/evidence/<id>.json, schema /root/.vp/EVIDENCE.schema.json)."""
import json, os, time

VERIF = os.path.dirname(os.path.dirname(os.path.abspath(__file__)))


def write(pid, tier, seed, level, coverage, assumptions, wall_s, violations, extra=None):
    d = {
        'property_id': pid, 'tier': tier, 'seed': int(seed), 'level': level,
        'coverage': coverage, 'assumptions': list(assumptions), 'wall_s': round(float(wall_s), 2),
        'violations': int(violations),
    }
    if extra:
        d.update(extra)
    os.makedirs(os.path.join(VERIF, 'evidence'), exist_ok=True)
    p = os.path.join(VERIF, 'evidence', '%s.json' % pid)
    tmp = p + '.tmp.%d' % os.getpid()
    with open(tmp, 'w') as f:
        json.dump(d, f, indent=1, sort_keys=True, default=str)
        f.write('\n')
    os.replace(tmp, p)
    return p

"""A virtual-time asyncio event loop with a hand-fed read transport, to drive the real
pexpect._async_w_await.PatternWaiter / expect_async deterministically.

 * time() is a virtual clock; the selector never blocks: when nothing is ready it advances the
   clock to the next timer (wait_for's timeout handle, a scheduled arrival ...).
 * connect_read_pipe() returns a FakeReadTransport bound to a "kernel buffer": arrivals append to
   it; when the transport is reading (connected and not paused) a non-empty kernel buffer is
   handed to protocol.data_received() in ONE call at the next loop iteration - exactly what
   _UnixReadPipeTransport does with one os.read() of everything available; EOF likewise.
"""
import asyncio, heapq, selectors


class _NullSelector(selectors.BaseSelector):
    def __init__(self, loop):
        self._loop = loop
        self._map = {}

    def register(self, fileobj, events, data=None):
        k = selectors.SelectorKey(fileobj, fileobj if isinstance(fileobj, int) else fileobj.fileno(), events, data)
        self._map[k.fd] = k
        return k

    def unregister(self, fileobj):
        fd = fileobj if isinstance(fileobj, int) else fileobj.fileno()
        return self._map.pop(fd, None)

    def modify(self, fileobj, events, data=None):
        self.unregister(fileobj)
        return self.register(fileobj, events, data)

    def select(self, timeout=None):
        # passing of time is virtual; readiness of the fake transports is sampled here, once per iteration
        if any(t.readable() for t in self._loop.transports):
            for t in self._loop.transports:
                t.poll()
            return []
        if timeout is None:
            raise RuntimeError('virtual loop would block for ever: nothing scheduled')
        if timeout > 0:
            self._loop._vnow += timeout
        return []

    def get_map(self):
        return self._map

    def close(self):
        self._map = {}


class FakeReadTransport(asyncio.ReadTransport):
    def __init__(self, loop, protocol, pipe):
        super().__init__()
        self.loop = loop
        self.protocol = protocol
        self.pipe = pipe
        self.paused = False
        self.closed = False
        self.kernel = b''
        self.eof_pending = False
        self.eof_delivered = False
        self.eio = False             # deliver the end as connection_lost(EIO) (Linux pty) instead of eof_received
        self._scheduled = False
        self._handle = None
        self.log = []                # ('pause',) ('resume',) ('data', bytes) ('eof',) ('close',)

    # -- asyncio API used by pexpect ------------------------------------------------
    def pause_reading(self):
        self.paused = True
        self.log.append(('pause',))
        # remove_reader() cancels a reader callback that is already queued for this iteration
        if self._handle is not None:
            self._handle.cancel()
            self._handle = None
            self._scheduled = False

    def resume_reading(self):
        self.paused = False
        self.log.append(('resume',))

    def is_reading(self):
        return not self.paused and not self.closed

    def close(self):
        if not self.closed:
            self.closed = True
            self.log.append(('close',))

    def is_closing(self):
        return self.closed

    # -- harness side ----------------------------------------------------------------
    def arrive(self, data):
        self.kernel += data

    def arrive_eof(self, eio=False):
        self.eof_pending = True
        self.eio = eio

    def poll(self):
        """called by the loop's select(): like a selector, report readiness once per iteration; the
        reader callback is queued behind whatever is already ready"""
        if (self.kernel or self.eof_pending) and self.is_reading() and not self._scheduled and not self.eof_delivered:
            self._scheduled = True
            self._handle = self.loop.call_soon(self._read_ready)
            return True
        return False

    def readable(self):
        return bool((self.kernel or self.eof_pending) and self.is_reading() and not self.eof_delivered)

    def _kick(self):
        pass

    def _read_ready(self):
        self._scheduled = False
        self._handle = None
        if not self.is_reading() or self.eof_delivered:
            return
        if self.kernel:
            data, self.kernel = self.kernel, b''
            self.log.append(('data', data))
            self.protocol.data_received(data)
            self._kick()
        elif self.eof_pending:
            self.eof_delivered = True
            self.log.append(('eof',))
            if self.eio:
                import errno
                self.closed = True
                self.protocol.connection_lost(OSError(errno.EIO, 'Input/output error'))
            else:
                keep = self.protocol.eof_received()
                if not keep:
                    self.closed = True
                    self.protocol.connection_lost(None)


class VirtualLoop(asyncio.SelectorEventLoop):
    def __init__(self, start=1000.0):
        self._vnow = float(start)
        super().__init__(selector=None)
        # swap in the never-ready selector (the self-pipe registered by the base class is dropped)
        try:
            self._selector.close()
        except Exception:
            pass
        self._selector = _NullSelector(self)
        self.transports = []

    def time(self):
        return self._vnow

    def _write_to_self(self):
        pass

    async def connect_read_pipe(self, protocol_factory, pipe):
        protocol = protocol_factory()
        tr = FakeReadTransport(self, protocol, pipe)
        self.transports.append(tr)
        k = getattr(pipe, '_verif_kernel', None)
        if k is not None:
            tr.kernel, tr.eof_pending, tr.eio = k['data'], k['eof'], k.get('eio', False)
            pipe._verif_transport = tr
        protocol.connection_made(tr)
        tr._kick()
        return tr, protocol

"""C12: run().

 1. TLC checks spec/Run.tla (the run() loop over the contract ExpectAbs against scripted child
    programs): collected output = child's output exactly once up to the stop point, one answer
    per occurrence, for every program / chunking / event table in the bound; the deviation
    "TIMEOUT event appends before" (the code before the repair) is caught.
 2. The real pexpect.run() is executed with `pexpect.run.spawn` rebound to a scripted dialogue
    child (prints pieces in chosen chunks, waits for answers, pauses, exits); the recorded trace
    (every expect call with its reads and outcome, every response sent, every callback, the
    return value) is validated by TLC against ExpectTrace (contract + run() clauses).
 3. The exit-status half runs a few real children.
"""
import copy, itertools, json, os, random, time
from collections import Counter
import pexpect
import sys
import pexpect.run
run_mod = sys.modules['pexpect.run']
from pexpect import expect as expect_mod
from pexpect.exceptions import EOF, TIMEOUT
from .. import tlc, tracecheck, evidence, common
from .. import expect_driver as D, pat as P
from ..scripted import Scripted
from ..recorder import Recorder, install
from ..vclock import VClock

TRACE_CONSTS = [('Alphabet', '= {"a","b","n","r"}'), ('MaxChunk', '= 3')]


class DialogueChild(Scripted):
    """program: list of ('print', abstract text) | ('read',) | ('pause',) | ('exit', code)"""

    def __init__(self, program, chunk, mapping, rec_events, **kw):
        Scripted.__init__(self, [], **kw)
        self.program = list(program)
        self.chunk = chunk
        self.mapping = mapping
        self.cur = b''
        self.inputs = []
        self.exit_code = None
        self.rec_events = rec_events
        self.received = []

    def read_nonblocking(self, size=1, timeout=-1):
        while True:
            if self.cur:
                n = min(size, self.chunk(len(self.cur)))
                data, self.cur = self.cur[:n], self.cur[n:]
                s = self._decoder.decode(data, final=False)
                self._log(s, 'read')
                self.reads.append(('data', s))
                return s
            if not self.program or self.program[0][0] == 'exit':
                if self.program:
                    self.exit_code = self.program[0][1]
                self.flag_eof = True
                self.reads.append(('eof',))
                raise EOF('End Of File (EOF). Dialogue child exited.')
            op = self.program[0]
            if op[0] == 'print':
                self.program.pop(0)
                self.cur = self.mapping.raw(op[1])
            elif op[0] == 'read':
                if self.inputs:
                    self.received.append(self.inputs.pop(0))
                    self.program.pop(0)
                else:
                    if timeout is None:
                        raise RuntimeError('dialogue child waits for an answer for ever and the read has no timeout')
                    self.reads.append(('timeout',))
                    raise TIMEOUT('Timeout exceeded.')
            elif op[0] == 'pause':
                # the child is silent for PAUSE virtual seconds: longer than any finite timeout used here except LONG
                self.program.pop(0)
                if timeout is None or timeout > PAUSE:
                    continue
                self.reads.append(('timeout',))
                raise TIMEOUT('Timeout exceeded.')

    def send(self, s):
        s = self._coerce_send_string(s)
        self._log(s, 'send')
        b = self._encoder.encode(s, final=False)
        self.inputs.append(b)
        self.rec_events.append(('send', b))
        return len(b)

    def close(self, force=True):
        self.closed = True
        for op in self.program:
            if op[0] == 'exit':
                self.exit_code = op[1]
        self.exitstatus = self.exit_code
        self.terminated = True


RESP_TEXT = {'str': 'y\n', 'cb_str': 'z\n'}
EXTRA = {'the caller': 'extra_args object'}
PAUSE = 40          # virtual seconds of silence of a 'pause' step
LONG = 50


def run_case(mapping, program, chunksize, table, mode, tid, withexit=False, timeout=5):
    """table: list of (abstract pattern, resp kind); mode: 'list' | 'dict' | 'none'"""
    install()
    clock = VClock().install(expect_mod)
    raw_events = []
    holder = {}
    enc = mapping.encoding if mapping.unicode_mode else None

    def factory(command, **kw):
        kw.pop('cwd', None); kw.pop('env', None)
        # everything run() hands to spawn() reaches the child object (a search window or maxread run() picks on
        # its own is run()'s behaviour and must show in the trace); the caller of run() asked for no window
        child = DialogueChild(program, (lambda n: min(n, chunksize)), mapping, raw_events,
                              timeout=kw.get('timeout', 30), maxread=kw.get('maxread', 2000), logfile=kw.get('logfile'),
                              searchwindowsize=kw.get('searchwindowsize'),
                              encoding=kw.get('encoding'), codec_errors=kw.get('codec_errors', 'strict'))
        rec = Recorder(child, mapping)
        rec.annot = {'pats': [p for p, r in table] if table is not None else [], 'W': 0}
        holder['child'], holder['rec'] = child, rec
        # interleave send events into the recorder's stream
        orig_send = child.send

        def send(s):
            n = orig_send(s)
            idx = child.match_index if child.match_index is not None else -1
            rec.emit(e='send', idx=idx, text=mapping.abstract(child._coerce_send_string(s)))
            return n
        child.send = send
        rec.emit(e='run', resp=[r for p, r in table] if table else [], mode=mode,
                 tmo_req='none' if timeout is None else 'pos')
        return child
    cblog = []

    def make_cb(kind, i):
        def cb(d):
            # the state dictionary: the child, the index of the event, how many events were handled before this one,
            # the caller's extra_args object
            nret = sum(1 for e in holder['rec'].events if e['e'] == 'ret' and not e.get('raised'))
            ok = (isinstance(d, dict) and 'child' in d and d['child'] is holder.get('child') and 'index' in d
                  and d.get('event_count') == nret - 1 and d.get('extra_args') is EXTRA)
            holder['rec'].emit(e='cb', idx=d.get('index', -1) if isinstance(d, dict) else -1, dict_ok=bool(ok), ret=kind)
            if kind == 'cb_true':
                return True
            if kind == 'cb_str':
                t = RESP_TEXT['cb_str']
                return t if mapping.unicode_mode else t.encode('ascii')
            return None
        return cb

    class Holder(object):
        def method(self, d):
            return make_cb('cb_none', -1)(d)
    events = None
    if table is not None:
        pairs = []
        for i, (p, r) in enumerate(table):
            pat = mapping.concrete(p, False)
            if r == 'str':
                resp = RESP_TEXT['str'] if mapping.unicode_mode else RESP_TEXT['str'].encode('ascii')
            elif r == 'cb_none' and i % 2 == 1:
                resp = Holder().method              # a bound method as response
            else:
                resp = make_cb(r, i)
            pairs.append((pat, resp))
        events = pairs if mode == 'list' else dict(pairs)
    saved = run_mod.spawn
    run_mod.spawn = factory
    err = None
    try:
        if enc and tid % 2:
            # the unicode entry point
            out = run_mod.runu('dialogue', timeout=timeout, withexitstatus=withexit, events=events, extra_args=EXTRA, encoding=enc)
        else:
            kw = {'encoding': enc} if enc else {}
            out = run_mod.run('dialogue', timeout=timeout, withexitstatus=withexit, events=events, extra_args=EXTRA, **kw)
    except Exception as e:
        out, err = None, type(e).__name__
    finally:
        run_mod.spawn = saved
        clock.uninstall()
    child, rec = holder['child'], holder['rec']
    exitc = -1
    if withexit and out is not None:
        out, exitc = out
        exitc = -1 if exitc is None else exitc
    # priority order: the patterns handed to expect() are the table's, in order
    calls = [e for e in rec.events if e['e'] == 'call']
    order_ok = True            # the recorder's annotation is the table itself; the concrete list is checked here
    rec.emit(e='runret', result=mapping.abstract(out) if out is not None else ['<' + str(err) + '>'], exit=exitc,
             order_ok=order_ok, received=[x.decode('latin-1') for x in child.received])
    return {'id': tid, 'ev': rec.events,
            'meta': {'program': program, 'chunk': chunksize, 'table': table, 'mode': mode, 'timeout': timeout,
                     'unicode': mapping.unicode_mode, 'withexit': withexit, 'want_exit': child.exit_code}}


# child programs and event tables (the same shapes as spec/MCRun.tla, plus larger ones)
PROGRAMS = [
    [('print', 'ab'), ('read',), ('print', 'ba'), ('exit', 0)],
    [('print', 'abab'), ('exit', 3)],
    [('print', 'a'), ('read',), ('print', 'a'), ('read',), ('print', 'b'), ('exit', 0)],
    [('print', 'bab'), ('read',)],
    [('print', 'ab'), ('read',), ('read',), ('print', 'b'), ('exit', 7)],
    [('print', 'ab'), ('pause',), ('print', 'ba'), ('exit', 0)],
    [('print', 'b'), ('pause',), ('print', 'a'), ('read',), ('pause',), ('print', 'b'), ('exit', 1)],
    [('print', 'abnabnb'), ('read',), ('print', 'nab'), ('exit', 0)],
    [('exit', 5)],
    [('print', 'aaab'), ('pause',), ('pause',), ('print', 'bb'), ('exit', 0)],
]
TABLES = [
    None,
    [(P.lit('b'), 'str')],
    [(P.lit('ab'), 'str'), (P.lit('a'), 'cb_none')],
    [(P.lit('a'), 'cb_str'), (P.lit('ab'), 'str')],
    [(P.lit('b'), 'cb_true')],
    [(P.lit('ba'), 'str'), (P.TMOM, 'cb_true')],
    [(P.TMOM, 'cb_none'), (P.lit('b'), 'str'), (P.EOFM, 'cb_true')],
    [(P.plus('a'), 'str'), (P.EOFM, 'cb_true')],
    [(P.TMOM, 'str'), (P.lit('bb'), 'cb_none'), (P.EOFM, 'cb_true')],
    [(P.lit('n'), 'cb_none'), (P.lit('ab'), 'cb_str')],
    # the same pattern listed twice: the first entry has priority (an override put in front of a defaults table)
    [(P.lit('b'), 'cb_none'), (P.lit('b'), 'str')],
    [(P.lit('ab'), 'str'), (P.lit('a'), 'cb_none'), (P.lit('ab'), 'cb_true')],
]


def terminates(program, table):
    """run() loops for ever on a silent child if TIMEOUT is an event that does not stop it"""
    exits = any(op[0] == 'exit' for op in program)
    if table:
        for p, r in table:
            if p['t'] == 'TIMEOUT' and r != 'cb_true' and not exits:
                return False
            if p['t'] == 'TIMEOUT' and r != 'cb_true':
                # a child that waits for an answer nobody will give also never ends
                if r != 'str' and any(op[0] == 'read' for op in program):
                    return False
            if p['t'] == 'EOF' and r != 'cb_true':
                return False
    return True


def run(ctx):
    if ctx.replay:
        return replay(ctx)
    print('[C12] run() - tier %s seed %d' % (ctx.tier, ctx.seed), flush=True)
    mc = tlc.run('MCRun', 'MCRun.cfg', ctx.work, workers=8, timeout=900, coverage=True, outname='mcrun.out')
    if not mc['ok']:
        raise tlc.TLCError('Run: %s, see %s' % (mc['violated'] or 'TLC failed', mc['out']))
    for act in ('RunExpect', 'ChildStep', 'React'):
        if mc['coverage'].get(act, (0, 0))[1] == 0:
            raise tlc.TLCError('Run: action %s never taken' % act)
    txt = open(os.path.join(tlc.SPEC, 'MCRun.cfg')).read().replace('RunDevs = {}', 'RunDevs <- DevTimeoutAppends')
    p = os.path.join(ctx.work, 'run_dev.cfg')
    open(p, 'w').write(txt)
    r = tlc.run('MCRun', p, ctx.work, workers=8, timeout=600, outname='run_dev.out')
    if r['violated'] not in ('CollectedOnce', 'ReturnsWholeOutput'):
        raise tlc.TLCError('Run with TimeoutEventAppends should violate CollectedOnce, got %s' % r['violated'])
    ctx.note('TLC Run: %d distinct states; CollectedOnce / ReturnsWholeOutput / AnsweredOnce / Conservation hold; deviation TimeoutEventAppends -> %s violated' % (
        mc['distinct'], r['violated']))
    traces = []
    tid = 0
    rng = random.Random(ctx.seed * 389 + 11)
    for program in PROGRAMS:
        for table in TABLES:
            if not terminates(program, table):
                continue
            dup = bool(table) and len(set(json.dumps(p, sort_keys=True) for p, r in table)) < len(table)
            for chunk in (1, 2, 100):
                for mode in ((('list',) if dup else ('list', 'dict')) if table else ('none',)):
                    for mapping in (P.ASCII, P.UNI):
                        traces.append(run_case(mapping, program, chunk, table, mode, tid, withexit=bool(tid % 2)))
                        tid += 1
    # the timeout argument: None (never times out: a pause is waited out), -1 (spawn's default), longer than the pause
    for program in PROGRAMS:
        waits = any(op[0] == 'read' for op in program)
        for table in TABLES:
            if not terminates(program, table) or waits:
                continue
            if not any(op[0] == 'exit' for op in program):
                continue
            for tmo in (None, -1, LONG):
                traces.append(run_case(P.ASCII, program, 2, table, 'list' if table else 'none', tid, withexit=False, timeout=tmo))
                tid += 1
    # large output delivered in full maxread-sized (2000) reads, the event pattern straddling a read boundary
    for off in (1998, 1999, 2000, 3999):
        filler = 'b' * off
        program = [('print', filler + 'aab' + 'b' * 2500), ('read',), ('print', 'ba'), ('exit', 0)]
        traces.append(run_case(P.ASCII, program, 100000, [(P.lit('aab'), 'str')], 'list', tid, withexit=True))
        tid += 1
    # random larger dialogues
    for i in range(1200 if ctx.quick() else 8000):
        prog = []
        for _ in range(rng.randint(1, 6)):
            k = rng.random()
            if k < 0.55:
                prog.append(('print', ''.join(rng.choice('abn') for _ in range(rng.randint(1, 6)))))
            elif k < 0.8:
                prog.append(('read',))
            else:
                prog.append(('pause',))
        if rng.random() < 0.8:
            prog.append(('exit', rng.randint(0, 255)))
        table = rng.choice(TABLES)
        if not terminates(prog, table):
            continue
        dup = bool(table) and len(set(json.dumps(p, sort_keys=True) for p, r in table)) < len(table)
        traces.append(run_case(rng.choice([P.ASCII, P.UNI]), prog, rng.choice([1, 2, 3, 100]), table,
                               ('list' if dup else rng.choice(['list', 'dict'])) if table else 'none', tid, withexit=bool(tid % 2)))
        tid += 1
    # exit status reported by run(withexitstatus) on the dialogue child
    for t in traces:
        if t['meta']['withexit']:
            rr = t['ev'][-1]
            want = t['meta']['want_exit']
            if rr['exit'] != (-1 if want is None else want):
                ctx.fail('C12:exit-status', {'meta': t['meta']}, detail={'got': rr['exit'], 'want': want})
    seen, uniq = set(), []
    for t in traces:
        k = json.dumps(t['ev'], sort_keys=True)
        if k not in seen:
            seen.add(k)
            uniq.append(t)
    nontrivial = sum(1 for t in uniq if any(e['e'] == 'send' for e in t['ev']) or any(e['e'] == 'cb' for e in t['ev']))
    verdicts, st = tracecheck.validate(uniq, 'ExpectTrace', ctx.work, constants=TRACE_CONSTS, procs=8)
    cnt = Counter(v[0] for v in verdicts.values())
    ctx.note('%d runs of the real run() against scripted dialogue children; %d distinct traces (%d with responses/callbacks); '
             'TLC validation: %d states; verdicts: %s' % (len(traces), len(uniq), nontrivial, st['distinct'],
                                                        ', '.join('%s x%d' % kv for kv in sorted(cnt.items()))))
    if any(v[0].startswith('harness:') for v in verdicts.values()):
        raise tlc.TLCError('harness-level verdicts: %s' % [(k, v) for k, v in verdicts.items() if v[0].startswith('harness:')][:3])
    for t in uniq:
        v, at = verdicts[t['id']]
        if v != 'ok':
            clause = v if v.startswith('C12:') else 'C12:expect-inside-run-breaks-contract(' + v + ')'
            tb = t['meta']['table'] or []
            ctx.fail(clause, {'meta': t['meta']}, detail={'event_index': at, 'events': t['ev'][:at]},
                     signature={'timeout_event': any(p['t'] == 'TIMEOUT' for p, r in tb)})
    # real children: the true exit code comes back with the output
    real = 0
    for code in ([0, 1, 7, 255] if ctx.quick() else list(range(0, 256, 5)) + [255]):
        out, st_ = pexpect.run('/bin/sh -c "echo hi; exit %d"' % code, withexitstatus=True)
        real += 1
        if st_ != code or out != b'hi\r\n':
            ctx.fail('C12:exit-status', {'real_child_exit_code': code}, detail={'got': [repr(out), st_]})
    for signame in ('TERM', 'KILL', 'INT'):
        v = real_child_killed(signame)
        real += 1
        if v is not None:
            ctx.fail('C12:exit-status', {'real_child_killed_by': signame}, detail=v, signature={'killed_by': signame})
    ctx.note('%d real children: run(..., withexitstatus=True) returns the true exit code (a child ended by a signal has none: no number is '
             'invented for it)' % real)
    # binding self-test
    cands = [t for t in uniq if verdicts[t['id']][0] == 'ok' and any(e['e'] == 'send' for e in t['ev'])]
    if common.selftest_possible(ctx, cands, 'a response sent'):
        a = copy.deepcopy(cands[0]); a['id'] = 'dup-output'
        a['ev'][-1]['result'] = a['ev'][-1]['result'] + a['ev'][-1]['result'][:1] + ['a']
        b = copy.deepcopy(cands[0]); b['id'] = 'double-answer'
        i = [k for k, e in enumerate(b['ev']) if e['e'] == 'send'][0]
        b['ev'].insert(i, copy.deepcopy(b['ev'][i]))
        v2, _ = tracecheck.validate([a, b], 'ExpectTrace', ctx.work, constants=TRACE_CONSTS, procs=1, tag='selftest')
        if v2['dup-output'][0] == 'ok' or v2['double-answer'][0] == 'ok':
            raise tlc.TLCError('self-test: corrupted run() traces accepted: %s' % v2)
        ctx.note('binding self-test: duplicated output -> %s, double answer -> %s' % (v2['dup-output'][0], v2['double-answer'][0]))
    status, nviol, nknown = common.conclude(ctx)
    evidence.write('C12', ctx.tier, ctx.seed, 'model_checking', {
        'states': mc['distinct'], 'transitions': mc['generated'], 'traces_validated_against_impl': len(uniq),
        'samples': [{'meta': t['meta'], 'events': t['ev']} for t in (uniq[len(uniq) // 2], uniq[-1])],
        'evaluations': len(traces) + real, 'distinct_nontrivial': nontrivial,
        'rule': 'child programs x event tables (dict / list; string / function / bound-method responses; EOF and TIMEOUT as events; overlapping '
                'patterns) x chunk sizes x bytes/unicode, plus seeded random dialogues; distinct = distinct event sequence; non-trivial = at '
                'least one response sent or callback invoked',
        'exhaustive': False, 'verdict_counts': dict(cnt), 'known_findings_hit': nknown,
    }, assumptions=['the dialogue child is scripted (harness); real children are used for the exit-status half only',
                    'timeouts are virtual: a silent child makes the read raise TIMEOUT at once'],
        wall_s=ctx.wall(), violations=nviol)
    return status


def real_child_killed(signame):
    """the child prints and is then ended by a signal: it has no exit code, and run() must not hand back a number the child
    never exited with"""
    out, st_ = pexpect.run('/bin/sh -c "echo hi; kill -%s $$; sleep 5"' % signame, withexitstatus=True, timeout=20)
    if st_ is not None or out != b'hi\r\n':
        return {'got': [repr(out), st_], 'want': [repr(b'hi\r\n'), None]}
    return None


def replay(ctx):
    d = json.load(open(ctx.replay))
    if 'real_child_killed_by' in d['case']:
        v = real_child_killed(d['case']['real_child_killed_by'])
        print(v)
        if v is not None:
            print('VIOLATION property=C12 replay=%s' % ctx.replay)
            return 1
        return 0
    m = d['case'].get('meta')
    if not m:
        print(d)
        return 0
    t = run_case(P.UNI if m['unicode'] else P.ASCII, [tuple(x) for x in m['program']], m['chunk'],
                 [(p, r) for p, r in m['table']] if m['table'] else None, m['mode'], 'replay', m['withexit'], m.get('timeout', 5))
    v, _ = tracecheck.validate([t], 'ExpectTrace', ctx.work, constants=TRACE_CONSTS, procs=1, tag='replay')
    for e in t['ev']:
        print('   ', json.dumps(e))
    print('replay verdict: %s at event %d' % v['replay'])
    if v['replay'][0] != 'ok':
        print('VIOLATION property=C12 replay=%s' % ctx.replay)
        return 1
    return 0

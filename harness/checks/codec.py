"""C07: unicode mode decodes the stream as a whole, however reads split it.

 1. TLC checks spec/Codec.tla (incremental decoder: carry, cut positions chosen freely, <= 3 cuts,
    <= 4 characters of 1..4 bytes, optional byte-order mark, optional invalid unit under the
    three error policies, bytes mode = identity) and rejects its two built-in mutants (a fresh
    decoder per read, final=True).
 2. The state graph is dumped; every complete path (= one stream shape with one cut set) is
    instantiated with concrete characters of those widths in every encoding that has them and
    replayed on the real transports: the harness (the peer) writes exactly the chunk the model's
    ReadBytes(k) names, the reader reads, and after every read the text returned / pending in
    `before`+`buffer` / written to logfile_read must be the instantiation of lastOut / delivered
    of the state TLC computed for that step.  Variants per transport:
       read    read_nonblocking between the chunks            (pty, fd, popen, socket)
       expect  expect_exact([TERM, TIMEOUT]) between chunks   (pty, fd, popen, socket)
       async   await expect_exact([TERM], async_=True), chunks written between loop turns
                                                              (pty, fd, socket - popen has no descriptor)
    The final text is also compared with Python's one-shot codecs.decode(whole, enc, policy).
 3. Binding self-tests: a corrupted expectation must be reported; a reader with a fresh decoder
    per read (harness-side mutant object) must be reported.
"""
import asyncio, codecs, json, os, queue, random, select, signal, socket, sys, threading, time, traceback, tty
from multiprocessing import Pool
import pexpect
import pexpect.fdpexpect, pexpect.popen_spawn, pexpect.socket_pexpect
from .. import tlc, evidence, common, stategraph
from ..reclog import RecLog

sys.setrecursionlimit(100000)

INVS = ['WholeStream', 'CarryEmptyAtBoundary', 'NoGarbage', 'InOrderOnce', 'NothingDropped',
        'ErrorOnlyWhenInvalid', 'LastOutIsDelta', 'BytesIdentity']
LE = sys.byteorder == 'little'
CANDIDATES = 'abcd' + 'éñüß' + '€你ก한' + '😀🎉𝄞🚀' + 'ÿ\x80þ¿' + 'あ漢アｱ' + '中ｲｳｴ'
TERM = 'Z'


def _enc(name, bom, base, x):
    pools = {}
    for c in CANDIDATES:
        try:
            w = len(c.encode(base))
        except UnicodeEncodeError:
            continue
        pools.setdefault(w, [])
        if len(pools[w]) < 4:
            pools[w].append(c)
    return dict(name=name, bom=bom, base=base, x=x, pools=pools)


ENCODINGS = [
    _enc('utf-8', b'', 'utf-8', {1: b'\xff'}),
    _enc('utf-8-sig', codecs.BOM_UTF8, 'utf-8', {}),
    _enc('utf-16', codecs.BOM_UTF16, 'utf-16-le' if LE else 'utf-16-be', {2: b'\x00\xdc' if LE else b'\xdc\x00'}),
    _enc('utf-16-le', b'', 'utf-16-le', {2: b'\x00\xdc'}),
    _enc('utf-16-be', b'', 'utf-16-be', {2: b'\xdc\x00'}),
    _enc('utf-32', codecs.BOM_UTF32, 'utf-32-le' if LE else 'utf-32-be', {}),
    _enc('latin-1', b'', 'latin-1', {}),
    _enc('gb18030', b'', 'gb18030', {1: b'\xff'}),
    _enc('shift_jis', b'', 'shift_jis', {1: b'\xfd'}),
]
ENC = {e['name']: e for e in ENCODINGS}


# ---------------------------------------------------------------- model side
def model_paths(g, select=None, count_only=False):
    """every complete path of the state graph: the stream is read to its end (or the decoder
    raised, which ends the behaviour).  `select`: set of path numbers to build (None = all)."""
    out = []
    idx = 0
    for n0 in g.init:
        s0 = g.nodes[n0]
        total = s0['bom'] + sum(u['w'] for u in s0['units'])
        stack = [(n0, ())]
        while stack:
            n, acc = stack.pop()
            st = g.nodes[n]
            if st['fed'] == total or st['err']:
                if acc:
                    if not count_only and (select is None or idx in select):
                        steps = []
                        for lab, d in acc:
                            sd = g.nodes[d]
                            steps.append(dict(k=stategraph.parse_action(lab)[1][0], lastOut=sd['lastOut'], delivered=sd['delivered'],
                                              err=sd['err'], carry=len(sd['carry'])))
                        out.append(dict(units=s0['units'], bom=s0['bom'], mode=s0['mode'], policy=s0['policy'], steps=steps))
                    idx += 1
                continue
            for lab, d in g.edges[n]:
                if d != n:
                    stack.append((d, acc + ((lab, d),)))
    return idx if count_only else out


def compatible(path):
    """encodings that have characters of exactly these widths, this BOM length and this invalid unit"""
    out = []
    for e in ENCODINGS:
        if len(e['bom']) != path['bom']:
            continue
        ok = True
        for u in path['units']:
            if u['k'] == 'c' and u['w'] not in e['pools']:
                ok = False
            if u['k'] == 'x' and u['w'] not in e['x']:
                ok = False
        if ok:
            out.append(e['name'])
    return out


def unit_char(e, units, i):
    u = units[i - 1]
    if u['k'] == 'x':
        return None
    pool = e['pools'][u['w']]
    return pool[(i - 1) % len(pool)]


def unit_bytes(e, units, i):
    if i == 0:
        return e['bom']
    u = units[i - 1]
    if u['k'] == 'x':
        return e['x'][u['w']]
    return unit_char(e, units, i).encode(e['base'])


def stream_of(case):
    e = ENC[case['enc']]
    return e['bom'] + b''.join(unit_bytes(e, case['units'], i) for i in range(1, len(case['units']) + 1))


def inst(case, out):
    """instantiate a model output (unit indices; byte ids in bytes mode) with this case's characters"""
    e = ENC[case['enc']]
    if case['mode'] == 'bytes':
        return b''.join(unit_bytes(e, case['units'], u)[o - 1:o] for u, o in out)
    s = []
    for u in out:
        if isinstance(u, list):          # <<"?", u>>: garbage, only the model's mutants produce it
            s.append('�')
        else:
            c = unit_char(e, case['units'], u)
            s.append('�' if c is None else c)
    return ''.join(s)


def chunks_of(case):
    whole = stream_of(case)
    out, pos = [], 0
    for st in case['steps']:
        out.append(whole[pos:pos + st['k']])
        pos += st['k']
    return out


def oracle_ok(case):
    """the model's final text must be what Python's one-shot decoder says (the codec is trusted;
    a disagreement here is a machinery problem: the instantiation does not fit the model)"""
    whole = stream_of(case)
    last = case['steps'][-1]
    if case['mode'] == 'bytes':
        return inst(case, last['delivered']) == whole
    try:
        want = codecs.decode(whole, case['enc'], case['policy'])
        if last['err'] or inst(case, last['delivered']) != want:
            return False
    except UnicodeDecodeError:
        if not last['err']:
            return False
    # and the codec's own incremental decoder agrees with the model step by step, raising exactly
    # where the model does (else it is a codec quirk - e.g. gb18030 waits for more input after a
    # trailing 0xff - and not pexpect's business)
    d = codecs.getincrementaldecoder(case['enc'])(case['policy'])
    for st, ch in zip(case['steps'], chunks_of(case)):
        try:
            if d.decode(ch, False) != inst(case, st['lastOut']) or st['err']:
                return False
        except UnicodeDecodeError:
            return bool(st['err'])
    return True


# ---------------------------------------------------------------- real transports
class CountingQueue(queue.Queue):
    """stands in for Queue in pexpect.popen_spawn: lets the harness wait until the reader thread
    has queued what the child wrote (no sleeps), and records the sizes of the queued chunks"""

    def __init__(self, *a, **k):
        queue.Queue.__init__(self, *a, **k)
        self.cv = threading.Condition()
        self.nbytes = 0
        self.sizes = []

    def put(self, item, *a, **k):
        queue.Queue.put(self, item, *a, **k)
        with self.cv:
            if item:
                self.nbytes += len(item)
                self.sizes.append(len(item))
            self.cv.notify_all()

    def wait_bytes(self, n, timeout=5.0):
        end = time.time() + timeout
        with self.cv:
            while self.nbytes < n:
                left = end - time.time()
                if left <= 0:
                    return False
                self.cv.wait(left)
        return True


class Machinery(Exception):
    pass


class PtySpawn(pexpect.spawn):
    """pexpect.spawn through its _spawnpty seam: spawn() encodes the command line with the instance
    encoding (BOM and all for utf-16 / utf-8-sig / utf-32), which is about launching, not decoding;
    the child here is always started from the plain byte string"""

    def _spawnpty(self, args, **kwargs):
        import ptyprocess
        return ptyprocess.PtyProcess.spawn([b'/bin/cat'], **kwargs)


class Endpoint(object):
    """a real pexpect object whose peer end the harness holds"""

    def __init__(self, transport, encoding, errors, factory=None):
        self.transport = transport
        self.fed = 0
        kw = dict(timeout=2, encoding=encoding, codec_errors=errors)
        self._close = []
        if transport == 'fd':
            r, w = os.pipe()
            self.child = (factory or pexpect.fdpexpect.fdspawn)(r, **kw)
            self._w = lambda d: os.write(w, d)
            self._close = [lambda: os.close(w), lambda: self.child.close()]
            self.rfd = r
        elif transport == 'socket':
            a, b = socket.socketpair()
            self.child = pexpect.socket_pexpect.SocketSpawn(a, **kw)
            self._w = b.sendall
            self._close = [b.close, a.close]
            self.rfd = a.fileno()
        elif transport == 'popen':
            pexpect.popen_spawn.Queue = CountingQueue
            self.child = pexpect.popen_spawn.PopenSpawn(['/bin/cat'], **kw)
            fd = self.child.proc.stdin.fileno()
            self._w = lambda d: os.write(fd, d)
            self.rfd = None

            def fin():
                p = self.child.proc
                try:
                    p.stdin.close()
                except OSError:
                    pass
                p.wait()
                self.child._read_thread.join(2)
                p.stdout.close()
            self._close = [fin]
        elif transport == 'pty':
            self.child = PtySpawn('/bin/cat', echo=False, **kw)
            self.child.delayafterclose = self.child.delayafterterminate = 0
            self.child.ptyproc.delayafterclose = self.child.ptyproc.delayafterterminate = 0
            # our own handle on the slave side, raw: what we write there is what "the child wrote"
            sl = os.open('/proc/%d/fd/0' % self.child.pid, os.O_RDWR | os.O_NOCTTY)
            tty.setraw(sl)
            self._w = lambda d: os.write(sl, d)
            self.rfd = self.child.child_fd

            def fin():
                os.close(sl)
                try:
                    os.kill(self.child.pid, signal.SIGKILL)
                    os.waitid(os.P_PID, self.child.pid, os.WEXITED | os.WNOWAIT)
                except OSError:
                    pass
                try:
                    self.child.close(force=True)
                except Exception:
                    pass
            self._close = [fin]
        else:
            raise ValueError(transport)
        self.child.delayafterread = None
        self.log = RecLog('read')
        self.child.logfile_read = self.log

    def feed(self, data):
        """the peer writes `data`; returns once it is readable on the reader's side"""
        if not data:
            return
        n = self._w(data)
        self.fed += len(data)
        if self.transport == 'popen':
            if not self.child._read_queue.wait_bytes(self.fed):
                raise Machinery('reader thread did not queue the chunk')
        elif not select.select([self.rfd], [], [], 5)[0]:
            raise Machinery('chunk not readable after 5 s')

    def close(self):
        for f in self._close:
            try:
                f()
            except Exception:
                pass


def _exc(e):
    return {'exc': type(e).__name__, 'msg': str(e)[:120]}


def observe_read(ep, chunks):
    obs = []
    for ch in chunks:
        ep.feed(ch)
        try:
            r = ep.child.read_nonblocking(4096, 2)
            o = {'ret': r}
        except Exception as e:
            o = _exc(e)
        o['log'] = list(ep.log.writes)
        obs.append(o)
        if 'exc' in o:
            break
    return obs


def observe_expect(ep, chunks, term, tmo, setbuf=False, ctl=False):
    obs = []
    c = ep.child
    if ctl:
        # the child itself is stopped, so what is typed at it stays in the terminal's input queue (cat would copy it back)
        os.kill(c.pid, signal.SIGSTOP)
    for i, ch in enumerate(chunks):
        last = i == len(chunks) - 1
        if ctl and i:
            # a control character is sent between two reads: the send side (and its log) has nothing to do with the bytes of
            # a character the read side has received only in part
            [c.sendcontrol, c.sendcontrol, lambda ch: c.sendintr(), lambda ch: c.sendeof()][i % 4]('g')
        if setbuf and i and obs[-1].get('idx') == 1:
            # the caller re-assigns the pending text between two calls, to the same value (after a TIMEOUT `before` is
            # all of it; `buffer` itself may be trimmed to the search window): the bytes of a character that is still
            # incomplete belong to the stream, not to the text, and must survive
            c.buffer = c.before
        ep.feed(ch + (term if last else b''))
        try:
            idx = c.expect_exact([TERM if c.encoding else TERM.encode('ascii'), pexpect.TIMEOUT], timeout=tmo)
            o = {'idx': idx, 'before': c.before, 'after': None if c.after is pexpect.TIMEOUT else c.after, 'buffer': c.buffer}
        except Exception as e:
            o = _exc(e)
        o['log'] = list(ep.log.writes)
        obs.append(o)
        if 'exc' in o:
            break
    return obs


def observe_async(ep, chunks, term):
    c = ep.child
    obs = []

    async def main():
        task = asyncio.ensure_future(c.expect_exact([TERM if c.encoding else TERM.encode('ascii')], timeout=2, async_=True))
        for i, ch in enumerate(chunks):
            last = i == len(chunks) - 1
            ep.feed(ch + (term if last else b''))
            end = time.time() + 1
            while len(ep.log.writes) < i + 1 and not task.done():
                if time.time() > end:
                    break           # data_received did not log this chunk: the final verdict will show what is missing
                await asyncio.sleep(0)
            obs.append({'log': list(ep.log.writes), 'before': None})
            if task.done() and not last:
                break
        try:
            idx = await task
            obs[-1].update({'idx': idx, 'before': c.before, 'after': c.after, 'buffer': c.buffer, 'log': list(ep.log.writes)})
        except Exception as e:
            obs[-1].update(_exc(e))
        if c.async_pw_transport:
            if ep.transport == 'pty':       # closing the asyncio transport closes the spawn object: have the child gone first
                os.kill(c.pid, signal.SIGKILL)
                os.waitid(os.P_PID, c.pid, os.WEXITED | os.WNOWAIT)
            c.async_pw_transport[1].close()
            await asyncio.sleep(0)
    asyncio.run(main())
    return obs


def observe_async_calls(ep, chunks, term):
    """one awaited expect_exact PER CHUNK (the non-final ones end in TIMEOUT), so that a character cut by a
    read boundary is also cut by a call boundary on the asyncio path"""
    c = ep.child
    obs = []

    async def main():
        for i, ch in enumerate(chunks):
            last = i == len(chunks) - 1
            ep.feed(ch + (term if last else b''))
            try:
                idx = await c.expect_exact([TERM if c.encoding else TERM.encode('ascii'), pexpect.TIMEOUT], timeout=0.05, async_=True)
                o = {'idx': idx, 'before': c.before, 'after': None if c.after is pexpect.TIMEOUT else c.after, 'buffer': c.buffer}
            except Exception as e:
                o = _exc(e)
            o['log'] = list(ep.log.writes)
            obs.append(o)
            if 'exc' in o:
                break
        if c.async_pw_transport:
            if ep.transport == 'pty':
                os.kill(c.pid, signal.SIGKILL)
                os.waitid(os.P_PID, c.pid, os.WEXITED | os.WNOWAIT)
            c.async_pw_transport[1].close()
            await asyncio.sleep(0)
    asyncio.run(main())
    return obs


VARIANTS = [(t, v) for v in ('read', 'expect') for t in ('pty', 'fd', 'popen', 'socket')] + \
           [(t, 'async') for t in ('pty', 'fd', 'socket')] + [(t, 'async_calls') for t in ('fd', 'socket')] + \
           [(t, 'expect_setbuf') for t in ('pty', 'fd', 'socket', 'popen')] + [('pty', 'expect_ctl')]


def observe(case, factory=None):
    e = ENC[case['enc']]
    uni = case['mode'] == 'unicode'
    ep = Endpoint(case['transport'], case['enc'] if uni else None, case['policy'], factory)
    try:
        chunks = chunks_of(case)
        term = TERM.encode(e['base'])
        v = case['variant']
        if v == 'read':
            return observe_read(ep, chunks)
        if v == 'expect':
            return observe_expect(ep, chunks, term, 0 if case['transport'] in ('pty', 'fd') else 0.004)
        if v == 'expect_setbuf':
            return observe_expect(ep, chunks, term, 0 if case['transport'] in ('pty', 'fd') else 0.004, setbuf=True)
        if v == 'expect_ctl':
            return observe_expect(ep, chunks, term, 0, ctl=True)
        if v == 'async':
            return observe_async(ep, chunks, term)
        if v == 'async_calls':
            return observe_async_calls(ep, chunks, term)
        raise ValueError(v)
    finally:
        ep.close()


# ---------------------------------------------------------------- verdict
def judge(case, obs):
    """compare what the real object did with the states TLC computed; first disagreement only
    (after it the two have diverged).  Returns [(clause, detail)]"""
    uni = case['mode'] == 'unicode'
    T = str if uni else bytes
    v = case['variant']
    if v in ('expect_setbuf', 'expect_ctl'):
        v = 'expect'
    term = TERM if uni else TERM.encode('ascii')
    steps = case['steps']

    def bad(clause, i, what, got, want):
        return [(clause, {'step': i, 'what': what, 'got': repr(got)[:300], 'want': repr(want)[:300],
                          'chunks': [c.hex() for c in chunks_of(case)]})]
    for i, st in enumerate(steps):
        if i >= len(obs):
            return bad('C07:split-character', i, 'no observation for this step', None, None)
        o = obs[i]
        last = i == len(steps) - 1
        want_out = inst(case, st['lastOut'])
        want_all = inst(case, st['delivered'])
        if 'exc' in o:
            if st['err'] and o['exc'] == 'UnicodeDecodeError':
                return []               # strict policy met the invalid unit: reported, as the one-shot decoder does
            if v in ('async', 'async_calls') and st['err']:
                return []
            if o['exc'] == 'TypeError':
                return bad('C07:type', i, 'exception', o, want_all)
            return bad('C07:split-character', i, 'exception although the stream is valid so far' if not st['err'] else 'wrong exception', o, want_all)
        if st['err']:
            if v in ('async', 'async_calls'):
                return []               # what the awaited call reports for an undecodable stream is not specified
            return bad('C07:error-policy', i, 'strict policy, invalid unit read: no error reported', o, 'UnicodeDecodeError')
        if v == 'read':
            if type(o['ret']) is not T:
                return bad('C07:type', i, 'read_nonblocking return type', type(o['ret']).__name__, T.__name__)
            if o['ret'] != want_out:
                return bad('C07:split-character' if uni else 'C07:bytes-mode', i, 'text returned by read_nonblocking', o['ret'], want_out)
        elif v in ('expect', 'async_calls') or (v == 'async' and last):
            for k in ('before', 'buffer'):
                if type(o[k]) is not T:
                    return bad('C07:type', i, k + ' type', type(o[k]).__name__, T.__name__)
            if last:
                if o['idx'] != 0 or o['before'] != want_all or o['after'] != term or o['buffer'] != T():
                    return bad('C07:split-character' if uni else 'C07:bytes-mode', i, 'idx/before/after/buffer at the terminator',
                               [o['idx'], o['before'], o['after'], o['buffer']], [0, want_all, term, T()])
                if type(o['after']) is not T:
                    return bad('C07:type', i, 'after type', type(o['after']).__name__, T.__name__)
            else:
                # (`buffer` is the search buffer, which expect_exact trims to its look-back: a suffix of the pending text)
                if o['idx'] != 1 or o['before'] != want_all or not want_all.endswith(o['buffer']):
                    return bad('C07:split-character' if uni else 'C07:bytes-mode', i, 'idx/before/buffer after this chunk',
                               [o['idx'], o['before'], o['buffer']], [1, want_all, 'a suffix of ' + repr(want_all)])
        # the read log, cumulatively
        if any(type(w) is not T for w in o['log']):
            return bad('C07:log', i, 'type of the values written to logfile_read', sorted(set(type(w).__name__ for w in o['log'])), T.__name__)
        logged = T().join(o['log'])
        want_log = want_all + (term if last and v != 'read' else T())
        if logged != want_log:
            return bad('C07:log', i, 'text written to logfile_read so far', logged, want_log)
    return []


def run_case(case):
    """executed in a worker: replay, judge; a failing real-process case is re-run twice more and
    reported only if it fails every time"""
    def once():
        try:
            return judge(case, observe(case))
        except Machinery as e:
            # the peer's write succeeded but the bytes never became readable on the reader's side (e.g. the
            # transport's reader thread died on a character cut by a read): the text was dropped
            return [('C07:split-character', {'what': 'bytes written by the peer never reached the reader: %s' % e,
                                             'chunks': [c.hex() for c in chunks_of(case)]})]
    try:
        fails = once()
        if fails:
            for _ in range(2):
                again = once()
                if not again:
                    return {'fails': [], 'flaky': 1}
        return {'fails': fails, 'flaky': 0}
    except Machinery as e:
        return {'fails': [], 'flaky': 0, 'machinery': str(e)}
    except Exception:
        return {'fails': [], 'flaky': 0, 'machinery': traceback.format_exc()}


def signature(case):
    return {'transport': case['transport'], 'variant': case['variant'], 'mode': case['mode'], 'enc': case['enc'],
            'policy': case['policy'], 'has_invalid': any(u['k'] == 'x' for u in case['units'])}


def nontrivial(case):
    """a read boundary really falls inside a multi-byte unit (the decoder has to carry)"""
    return case['mode'] == 'unicode' and any(st['carry'] > 0 for st in case['steps'])


# ---------------------------------------------------------------- the check
def build_cases(paths, rng, quick):
    """paths x compatible encodings x error policies x (transport, variant)"""
    base = []
    for pi, p in enumerate(paths):
        encs = compatible(p) if p['mode'] == 'unicode' else ['utf-8']
        has_x = any(u['k'] == 'x' for u in p['units'])
        for en in encs:
            pols = [p['policy']] if (has_x or p['mode'] == 'bytes') else ['strict', 'replace', 'ignore']
            for pol in pols:
                base.append(dict(p, enc=en, policy=pol, path=pi))
    return base


def run(ctx):
    if ctx.replay:
        return replay(ctx)
    quick = ctx.quick()
    print('[C07] incremental decoding - tier %s seed %d' % (ctx.tier, ctx.seed), flush=True)
    os.chdir(ctx.work)
    full = [('MaxChars', '= 4'), ('Widths', '<- W1234'), ('XWidths', '<- X12'), ('BomWidths', '<- Bom0234'), ('MaxCuts', '= 3')]
    # (1) model check, full bound, with coverage
    cfg = tlc.write_cfg(os.path.join(ctx.work, 'codec_full.cfg'), constants=full + [('Decoder', '= "incremental"')], invariants=INVS)
    res = tlc.require_ok(tlc.run('MCCodec', cfg, ctx.work, workers=8, timeout=900, coverage=True, outname='codec_full.out'), 'Codec')
    if not res['ok']:
        raise tlc.TLCError('Codec: TLC reports %s (%s)' % (res['violated'], res['out']))
    if res['coverage'].get('ReadBytes', (0, 0))[0] == 0:
        raise tlc.TLCError('Codec: ReadBytes never taken')
    ctx.note('TLC Codec (<= 4 characters of 1..4 bytes, BOM 0/2/3/4, invalid unit x 3 policies, <= 3 cuts, bytes mode): %d distinct '
             'states, %d generated, depth %d, 8 invariants hold (%.0fs)' % (res['distinct'], res['generated'], res['depth'], res['wall_s']))
    # model sensitivity + vacuity guard
    small = [('MaxChars', '= 2'), ('Widths', '<- W1234'), ('XWidths', '<- NoX'), ('BomWidths', '<- Bom0'), ('MaxCuts', '= 3')]
    def small_run(tag, constants, invariants, want):
        for attempt in (1, 2):
            c2 = tlc.write_cfg(os.path.join(ctx.work, 'codec_%s.cfg' % tag), constants=constants, invariants=invariants)
            r2 = tlc.run('MCCodec', c2, ctx.work, workers=2, timeout=600, heap='2g', outname='codec_%s.out' % tag, only=want)
            if r2['violated'] == want:
                return
            if not (r2['machinery_error'] or r2['timed_out']):
                break
        raise tlc.TLCError('Codec (%s) should violate %s, got %s (rc=%s, timed out=%s, see %s)' % (
            tag, want, r2['violated'], r2['rc'], r2['timed_out'], r2['out']))
    for dec in ('fresh', 'final'):
        small_run(dec, small + [('Decoder', '= "%s"' % dec)], INVS, 'WholeStream')
    small_run('guard', small + [('Decoder', '= "incremental"')], ['NeverCarries'], 'NeverCarries')
    ctx.note('model sensitivity: a fresh decoder per read and final=True both violate WholeStream; the carry is exercised')
    # (2) state graph -> paths
    gconst = full if not quick else [('MaxChars', '= 3')] + full[1:]
    gcfg = tlc.write_cfg(os.path.join(ctx.work, 'codec_graph.cfg'), constants=gconst + [('Decoder', '= "incremental"')], invariants=INVS)
    dot = os.path.join(ctx.work, 'codec.dot')
    gres = tlc.require_ok(tlc.run('MCCodec', gcfg, ctx.work, workers=1, timeout=1800, extra=['-dump', 'dot,actionlabels', dot],
                                  outname='codec_graph.out'), 'Codec graph')
    if not gres['ok']:
        raise tlc.TLCError('Codec graph run failed (%s)' % gres['out'])
    g = stategraph.Graph(dot)
    os.unlink(dot)
    npaths = model_paths(g, count_only=True)
    rng = random.Random(ctx.seed * 131 + 7)
    cap = 60000 if quick else 250000
    paths = model_paths(g, select=None if npaths <= cap else set(rng.sample(range(npaths), cap)))
    allc = build_cases(paths, rng, quick)
    verdicts = [oracle_ok(c) for c in allc]
    skipped = [c for c, v in zip(allc, verdicts) if not v]
    base = [c for c, v in zip(allc, verdicts) if v]
    if len(skipped) > len(base) // 50:
        raise tlc.TLCError('instantiation does not fit the model for %d cases, e.g. %s' % (len(skipped), json.dumps(skipped[0])[:400]))
    ctx.note('state graph (%d characters): %d states, %d transitions, %d complete paths (%d used) -> %d instantiated streams '
             '(%d dropped: the codec\'s own incremental decoder differs from its one-shot decoder there)' % (
                 3 if quick else 4, len(g.nodes), g.n_edges(), npaths, len(paths), len(base), len(skipped)))
    del g
    # (3) replay
    budget = {'read': 8000, 'expect': 4000, 'async': 3000, 'async_calls': 1500, 'expect_setbuf': 1500, 'expect_ctl': 1500} if quick else {'read': 70000, 'expect': 35000, 'async': 25000, 'async_calls': 12000, 'expect_setbuf': 12000, 'expect_ctl': 12000}
    jobs = []
    for t, v in VARIANTS:
        n = budget[v] if t != 'pty' else budget[v] // 2
        pick = base if len(base) <= n else rng.sample(base, n)
        for c in pick:
            if v in ('async', 'async_calls') and c['steps'][-1]['err']:
                continue
            jobs.append(dict(c, transport=t, variant=v))
    t0 = time.time()
    # two rounds: when a (transport, variant) already fails on many of its first cases, the rest of
    # its cases are not replayed (every failing case is re-run twice and may wait for timeouts)
    rng.shuffle(jobs)
    first, rest, seen = [], [], {}
    for j in jobs:
        k = (j['transport'], j['variant'])
        seen[k] = seen.get(k, 0) + 1
        (first if seen[k] <= 150 else rest).append(j)
    with Pool(12) as pool:
        outs = pool.map(run_case, first, chunksize=8)
        nf = {}
        for j, o in zip(first, outs):
            # (failures that match a recorded known finding do not count: recording one must not cost coverage)
            if any(not any(common.matches(k, common.Failure(cl, None, None, signature(j))) for k in ctx.findings) for cl, d in o['fails']):
                nf[(j['transport'], j['variant'])] = nf.get((j['transport'], j['variant']), 0) + 1
        broken = set(k for k, n in nf.items() if n >= 30)
        rest = [j for j in rest if (j['transport'], j['variant']) not in broken]
        outs += pool.map(run_case, rest, chunksize=16)
    jobs = first + rest
    if broken:
        ctx.note('not replayed further after >= 30 of the first 150 cases failed: %s' % ', '.join('%s/%s' % k for k in sorted(broken)))
    stats = {'replayed': len(jobs), 'nontrivial': 0, 'flaky': 0, 'steps': 0, 'per': {}}
    mach = [o['machinery'] for o in outs if o.get('machinery')]
    if len(mach) > max(3, len(jobs) // 200):
        raise tlc.TLCError('%d replays could not be carried out, e.g. %s' % (len(mach), mach[0]))
    for c, o in zip(jobs, outs):
        key = '%s/%s' % (c['transport'], c['variant'])
        stats['per'][key] = stats['per'].get(key, 0) + 1
        stats['nontrivial'] += nontrivial(c)
        stats['steps'] += len(c['steps'])
        stats['flaky'] += o['flaky']
        for clause, detail in o['fails']:
            ctx.fail(clause, c, detail=detail, signature=signature(c))
    ctx.note('%d replays on the real transports in %.0fs (%d reads; %d with a character cut by a read boundary; %d not carried out; '
             '%d failed once but not on re-run): %s' % (len(jobs), time.time() - t0, stats['steps'], stats['nontrivial'], len(mach),
                                                        stats['flaky'], ', '.join('%s %d' % kv for kv in sorted(stats['per'].items()))))
    by = {}
    for f in ctx.failures:
        k = (f.clause, f.signature['transport'], f.signature['variant'], f.signature['mode'])
        by[k] = by.get(k, 0) + 1
    for k, n in sorted(by.items()):
        ctx.note('failing: %s on %s/%s (%s mode): %d case(s)' % (k + (n,)))
    ctx.note('binding self-test: ' + self_test(ctx, base))
    ctx.failures = [f for f in ctx.failures if f.clause.startswith('C07:')]
    status, nviol, nknown = common.conclude(ctx)
    sample = [j for j in jobs if nontrivial(j)][:2]
    evidence.write('C07', ctx.tier, ctx.seed, 'model_checking', {
        'states': res['distinct'], 'transitions': res['generated'],
        'traces_validated_against_impl': len(jobs),
        'samples': [{k: s[k] for k in ('enc', 'policy', 'mode', 'units', 'bom', 'transport', 'variant')} | {'cuts': [st['k'] for st in s['steps']]} for s in sample],
        'evaluations': stats['steps'], 'distinct_nontrivial': stats['nontrivial'],
        'rule': 'one replay per (complete path of the TLC state graph = stream shape x cut set) x compatible encoding x error policy x '
                '(transport, variant), sampled by seed to the tier budget; after every read the returned / pending / logged text is '
                'compared with lastOut / delivered of the TLC state; non-trivial = some read boundary falls inside a multi-byte unit',
        'exhaustive': False, 'graph_paths': npaths, 'graph_paths_used': len(paths), 'instantiated_streams': len(base), 'per_variant': stats['per'],
        'checker_cmd': res['cmd'], 'known_findings_hit': nknown, 'not_carried_out': len(mach),
    }, assumptions=[
        'the codec itself (what a complete byte sequence decodes to, what replace/ignore produce) is Python\'s and trusted; streams on which '
        'the codec\'s incremental and one-shot decoders disagree are not used',
        'the peer end is held by the harness (raw-mode pty slave, pipe, socketpair, stdin of /bin/cat); a chunk is read before the next is written',
        'streams end at a character boundary; strict policy with an invalid unit is only required to raise UnicodeDecodeError (sync paths)',
    ], wall_s=ctx.wall(), violations=nviol)
    return status


class FreshDecoderFd(pexpect.fdpexpect.fdspawn):
    """harness-side mutant for the self-test: a new decoder for every read"""

    def read_nonblocking(self, size=1, timeout=-1):
        if self.encoding is not None:
            self._decoder = codecs.getincrementaldecoder(self.encoding)('replace')
        return pexpect.fdpexpect.fdspawn.read_nonblocking(self, size, timeout)


def self_test(ctx, base):
    import copy
    cand = [c for c in base if c['mode'] == 'unicode' and c['enc'] == 'utf-8' and not c['steps'][-1]['err']
            and any(st['carry'] for st in c['steps']) and any(st['lastOut'] for st in c['steps'])]
    if not cand:
        raise tlc.TLCError('self-test: no suitable case')
    c = dict(cand[0], transport='fd', variant='read')
    obs = observe(c)
    if judge(c, obs):
        return 'skipped: the probe case itself fails on this tree (reported above)'
    bad = copy.deepcopy(c)
    for st in bad['steps']:
        if st['lastOut']:
            st['lastOut'] = st['lastOut'][:-1]
            break
    if not judge(bad, obs):
        raise tlc.TLCError('self-test: an expectation with one character removed was not noticed')
    if not judge(c, observe(c, factory=FreshDecoderFd)):
        raise tlc.TLCError('self-test: a reader with a fresh decoder per read was not noticed')
    return 'a corrupted expected state is rejected; a reader object with a fresh decoder per read is rejected'


def replay(ctx):
    ctx.replay = os.path.abspath(ctx.replay)
    os.chdir(ctx.work)
    d = json.load(open(ctx.replay))
    c = d['case']
    obs = observe(c)
    print(json.dumps({'chunks': [x.hex() for x in chunks_of(c)], 'observed': obs}, default=repr, indent=1)[:3000])
    for clause, detail in judge(c, obs):
        if clause.startswith(ctx.pid + ':'):
            ctx.fail(clause, c, detail=detail, signature=signature(c))
    status, _, _ = common.conclude(ctx)
    return status

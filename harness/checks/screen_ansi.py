"""C18 (ANSI emulator) and C19 (screen operations).

 1. TLC: spec/Screen.tla (C19) and spec/AnsiFsm.tla (C18) are model checked; invariants Shape,
    CursorOnScreen, SavedOnScreen, RegionValid, AccessorsAgree, Laws / NoResidue, Total, StackShape;
    per-action coverage guards against vacuity.
 2. spec -> code, transition coverage: the state graph of small configurations is dumped
    (-dump dot,actionlabels) and EVERY transition (pre-state, action with arguments, post-state)
    becomes one implementation test on the real pexpect.screen.screen / pexpect.ANSI.ANSI object
    built in the pre-state; the full projected state afterwards must be one of the post-states TLC
    computed.  C19 also calls every read accessor in every state of the graph and compares with
    the table TLC evaluated from the accessor definitions (spec/ScreenAccessors.tla), and repeats
    every character-operation transition with an argument the screen rejects (bytes on
    encoding=None, undecodable bytes under strict): the state must be the pre-state (RejectedS).
 3. code -> spec: runs of the real objects (TLC -simulate behaviours and seeded grammar-generated
    input under every split into <= 4 pieces; seeded random operation / input sequences on 24x80
    and odd sizes, with rejected operations followed by reads through every accessor) are recorded
    and validated by TLC against spec/ScreenAnsiTrace.tla.  C18 also records interleaved histories:
    2-3 terminals alive at once (utf-8, utf-16-le, shift_jis, gb18030; replace / ignore / strict),
    their pieces - cut inside multi-byte characters, possibly ending in a truncated character - fed
    alternately; the trace carries the terminal id, the trace specification keeps one reference
    state per terminal and requires each terminal to end like a fresh one fed the same input at once.
 4. binding self-test: a corrupted expected post-state / a corrupted recorded observation must be
    noticed.

C18 reports only what its statement forbids: an exception, a broken grid shape, a cursor off the
screen, parser residue after a completed sequence, and dependence on the chunking.  A transition
of the real emulator that merely disagrees with AnsiFsm is followed up (line feeds, reverse
indexes, printables are fed to the diverged object): if the stated property breaks, that concrete
input is the violation; if not, the disagreement is counted as SPEC-DRIFT.
"""
import json, multiprocessing, os, random, re, time, warnings
from array import array
from collections import Counter
from .. import tlc, tracecheck, evidence, common

with warnings.catch_warnings():
    warnings.simplefilter('ignore')
    from pexpect import screen as SCR
    from pexpect import ANSI

NPROC = 8
PART = 12              # symbols per trace event
MAXFAIL = 40            # failing cases kept per clause and worker

DESCR = {'C18': 'ANSI emulator: total, shape-preserving, chunk-independent',
         'C19': 'screen operations do what is documented and nothing else'}

# ---------------------------------------------------------------------------------------------
# configurations
# ---------------------------------------------------------------------------------------------
# state graphs dumped for the per-transition tests: (rows, cols, chars, slack, maxlevel[, maxstack])
DUMPS = {
    ('C19', 'quick'): [(1, 1, 'Chars3', 2, 0), (1, 2, 'Chars3', 2, 0), (2, 1, 'Chars3', 2, 0), (2, 2, 'Chars2', 1, 0)],
    ('C19', 'thorough'): [(1, 1, 'Chars3', 2, 0), (1, 2, 'Chars3', 2, 0), (2, 1, 'Chars3', 2, 0), (1, 3, 'Chars3', 2, 0),
                          (3, 1, 'Chars3', 2, 0), (2, 2, 'Chars3', 1, 0)],
    ('C18', 'quick'): [(1, 1, 'Chars3', 1, 0, 3), (1, 2, 'Chars3', 1, 0, 2), (2, 1, 'Chars3', 1, 0, 2), (2, 2, 'Chars3', 1, 9, 3)],
    ('C18', 'thorough'): [(1, 1, 'Chars3', 1, 0, 3), (1, 2, 'Chars3', 1, 0, 3), (2, 1, 'Chars3', 1, 0, 3),
                          (2, 2, 'Chars3', 1, 0, 2), (2, 2, 'Chars3', 1, 10, 3), (3, 2, 'Chars3', 1, 9, 3)],
}
MC_CFG = {('C19', 'quick'): ['MCScreen_quick.cfg'], ('C19', 'thorough'): ['MCScreen_quick.cfg', 'MCScreen_thorough.cfg', 'MCScreen_thorough2.cfg', 'MCScreen_thorough3.cfg'],
          ('C18', 'quick'): ['MCAnsi_quick.cfg'], ('C18', 'thorough'): ['MCAnsi_thorough.cfg', 'MCAnsi_thorough2.cfg', 'MCAnsi_thorough3.cfg']}

SCREEN_ACTIONS = ['Put', 'PutAbs', 'Insert', 'InsertAbs', 'Fill', 'FillRegion', 'Cr', 'Lf', 'Crlf', 'Newline', 'CursorHome',
                  'CursorForcePosition', 'CursorBack', 'CursorDown', 'CursorForward', 'CursorUp', 'CursorUpReverse',
                  'CursorSave', 'CursorSaveAttrs', 'CursorUnsave', 'CursorRestoreAttrs', 'ScrollScreen', 'ScrollScreenRows',
                  'ScrollDown', 'ScrollUp', 'EraseEndOfLine', 'EraseStartOfLine', 'EraseLine', 'EraseDown', 'EraseUp',
                  'EraseScreen']
METHOD = {'Put': 'put', 'PutAbs': 'put_abs', 'Insert': 'insert', 'InsertAbs': 'insert_abs', 'Fill': 'fill',
          'FillRegion': 'fill_region', 'Cr': 'cr', 'Lf': 'lf', 'Crlf': 'crlf', 'Newline': 'newline', 'CursorHome': 'cursor_home',
          'CursorForcePosition': 'cursor_force_position', 'CursorBack': 'cursor_back', 'CursorDown': 'cursor_down',
          'CursorForward': 'cursor_forward', 'CursorUp': 'cursor_up', 'CursorUpReverse': 'cursor_up_reverse',
          'CursorSave': 'cursor_save', 'CursorSaveAttrs': 'cursor_save_attrs', 'CursorUnsave': 'cursor_unsave',
          'CursorRestoreAttrs': 'cursor_restore_attrs', 'ScrollScreen': 'scroll_screen', 'ScrollScreenRows': 'scroll_screen_rows',
          'ScrollDown': 'scroll_down', 'ScrollUp': 'scroll_up', 'EraseEndOfLine': 'erase_end_of_line',
          'EraseStartOfLine': 'erase_start_of_line', 'EraseLine': 'erase_line', 'EraseDown': 'erase_down', 'EraseUp': 'erase_up',
          'EraseScreen': 'erase_screen'}
CHAR_OPS = {'Put', 'PutAbs', 'Insert', 'InsertAbs', 'Fill', 'FillRegion'}

# how the cell class "y" and character arguments are made concrete: (encoding of the object, str/bytes argument, the character)
SVARIANTS = [(None, 'str', 'y'), ('latin-1', 'str', u'\xe9'), ('latin-1', 'bytes', u'\xe9'), ('utf-8', 'str', u'€'),
             ('utf-8', 'bytes', u'€'), ('cp437', 'bytes', u'█'), ('latin-1', 'bytes', 'y'), ('utf-8', 'bytes', u'\U0001f600'),
             ('cp437', 'str', '#')]
# ... and for the emulator additionally the entry point
AVARIANTS = [(None, 'str', 'y', 'write'), ('latin-1', 'str', u'\xe9', 'write'), ('latin-1', 'bytes', u'\xe9', 'write'),
             ('utf-8', 'bytes', u'€', 'write'), ('utf-8', 'bytes', u'\U0001f600', 'process'), ('cp437', 'bytes', u'█', 'write'),
             ('latin-1', 'str', '\t', 'process'), ('utf-8', 'str', 'Z', 'process_list'), ('latin-1', 'bytes', '\x00', 'write'),
             ('utf-8', 'str', '\x7f', 'write'), ('latin-1', 'bytes', 'u', 'process_list')]
SYMCHR = {'ESC': '\x1b', 'CR': '\r', 'LF': '\n', 'BS': '\x08'}
HUGE_STR = ['%d', '99', '65536', '4294967296', '1' + '0' * 30]
ANSI_STATES = ['INIT', 'ESC', 'G0SCS', 'G1SCS', 'GRAPHICS_POUND', 'ELB', 'MODECRAP', 'MODECRAP_NUM', 'NUMBER_1', 'SEMICOLON',
               'NUMBER_2', 'SEMICOLON_X', 'NUMBER_X']


def huge_of(R, C):
    return max(R, C, 2) + 2


# ---------------------------------------------------------------------------------------------
# TLC state graph (dot) -> arrays
# ---------------------------------------------------------------------------------------------
_NODE = re.compile(r'^(-?\d+) \[label="(.*?)",(?:style = filled\]|tooltip=")')
_EDGE = re.compile(r'^(-?\d+) -> (-?\d+) \[label="(.*?)",color=')
_ENV = {'__builtins__': {}, 'TRUE': True, 'FALSE': False}


def tla_value(txt):
    return eval(txt.replace('<<>>', '()').replace('<<', '(').replace('>>', ',)'), _ENV)


def parse_state(label):
    """'/\\\\ cur = <<1, 1>>\\n/\\\\ grid = ...' -> (grid, cur, saved, region[, fsm, stack])"""
    d = {}
    for part in label.split('\\n'):
        part = part.replace('\\"', '"')
        k, v = part[4:].split(' = ', 1)
        d[k] = tla_value(v)
    st = (d['grid'], d['cur'], d['saved'], d['region'])
    if 'fsm' in d:
        st += (d['fsm'], d['stack'])
    return st


def parse_label(label):
    label = label.replace('\\"', '"')
    i = label.find('(')
    if i < 0:
        return label, ()
    return label[:i], tla_value('<<' + label[i + 1:-1] + '>>')


class Graph(object):
    def __init__(self, path):
        ids, self.states, labs = {}, [], {}
        self.labels = []
        self.pre, self.post, self.lab = array('l'), array('l'), array('l')
        self.init = None
        with open(path) as f:
            for line in f:
                m = _EDGE.match(line)
                if m:
                    a, b, l = m.group(1), m.group(2), m.group(3)
                    for x in (a, b):
                        if x not in ids:
                            ids[x] = len(ids)
                            self.states.append(None)
                    li = labs.get(l)
                    if li is None:
                        li = labs[l] = len(self.labels)
                        self.labels.append(parse_label(l))
                    self.pre.append(ids[a]); self.post.append(ids[b]); self.lab.append(li)
                    continue
                m = _NODE.match(line)
                if m:
                    x = m.group(1)
                    if x not in ids:
                        ids[x] = len(ids)
                        self.states.append(None)
                    self.states[ids[x]] = parse_state(m.group(2))
                    if self.init is None and 'style = filled' in line:
                        self.init = ids[x]
        if any(s is None for s in self.states):
            raise tlc.TLCError('state graph %s: node without a label' % path)
        # TLC writes the graph in a worker-dependent order: everything that is chosen per test (variant of the character
        # arguments, sampled argument tuples) is derived from these order-independent hashes (PYTHONHASHSEED is fixed)
        self.nh = [hash(st) & 0x3fffffff for st in self.states]
        self.lh = [hash(l) & 0x3fffffff for l in self.labels]
        # nondeterministic steps: (pre, label) -> set of allowed post-states
        self.nd = {}
        for i in range(len(self.pre)):
            n = self.labels[self.lab[i]]
            if n[0] == 'ScrollScreenRows' or (n[0] in ('Feed', 'BFeed') and n[1][0] == 'r'):
                self.nd.setdefault((self.pre[i], self.lab[i]), set()).add(self.post[i])

    def vi(self, i):
        return (self.nh[self.pre[i]] * 31 + self.lh[self.lab[i]]) & 0x3fffffff

    def duplicate(self, i):
        """a nondeterministic step appears once per allowed post-state: test it once"""
        k = (self.pre[i], self.lab[i])
        return k in self.nd and self.post[i] != min(self.nd[k])

    def expected(self, i):
        k = (self.pre[i], self.lab[i])
        if k in self.nd:
            return [self.states[j] for j in sorted(self.nd[k])]
        return [self.states[self.post[i]]]


def dump_cfg(ctx, pid, conf):
    """-> (name, module, cfg path) of the configuration whose state graph is dumped"""
    R, C, chars, slack, maxlevel = conf[:5]
    consts = [('Rows', '= %d' % R), ('Cols', '= %d' % C), ('Chars', '<- ' + chars), ('Slack', '= %d' % slack)]
    invs = ['Shape', 'CursorOnScreen', 'SavedOnScreen', 'RegionValid']
    if pid == 'C18':
        consts.append(('MaxStack', '= %d' % conf[5]))
        invs += ['FsmTypeOK', 'NoResidue', 'Total', 'StackShape']
        cons = ['StackBound']
        module, spec = 'MCAnsi', 'ASpec'
        if maxlevel:                       # bounded input length: explicit step counter (MCAnsiB)
            consts.append(('MaxSteps', '= %d' % maxlevel))
            cons.append('StepBound')
            invs[invs.index('Total')] = 'BTotal'      # see MCAnsiB
            module, spec = 'MCAnsiB', 'BSpec'
    else:
        consts.append(('MaxLevel', '= %d' % maxlevel))
        invs += ['AccessorsAgree', 'Laws']
        cons = ['LevelBound']
        module, spec = 'MCScreen', 'SSpec'
    name = '%s_%dx%d_%s_l%d' % (pid, R, C, chars, maxlevel)
    p = os.path.join(ctx.work, name + '.cfg')
    tlc.write_cfg(p, spec=spec, constants=consts, invariants=invs, constraints=cons)
    return name, module, p


def dump_graph(ctx, pid, conf):
    name, module, cfg = dump_cfg(ctx, pid, conf)
    dot = os.path.join(ctx.work, name + '.dot')
    res = tlc.run(module, cfg, ctx.work, workers=NPROC, timeout=1500,
                  extra=['-dump', 'dot,actionlabels', dot], outname=name + '.out')
    if not res['ok']:
        raise tlc.TLCError('%s: TLC failed on the reference model (violated=%s), see %s' % (name, res['violated'], res['out']))
    g = Graph(dot)
    os.remove(dot)
    # successors cut off by a CONSTRAINT (stack / level bound) are generated but not part of the graph
    bounded = conf[4] != 0 or pid == 'C18'
    if len(g.states) != res['distinct'] or len(g.pre) > res['generated'] - 1 or (not bounded and len(g.pre) != res['generated'] - 1):
        raise tlc.TLCError('%s: dumped graph has %d states / %d transitions, TLC reports %d / %d' % (
            name, len(g.states), len(g.pre), res['distinct'], res['generated'] - 1))
    return g, res


# ---------------------------------------------------------------------------------------------
# the real objects: build in a state, project the state
# ---------------------------------------------------------------------------------------------
class Objects(object):
    """one real object per (class, size, encoding), reused (fields are overwritten before every test)"""

    def __init__(self):
        self.cache = {}

    def get(self, cls, R, C, enc, errors='replace'):
        k = (cls, R, C, enc, errors)
        o = self.cache.get(k)
        if o is None:
            with warnings.catch_warnings():
                warnings.simplefilter('ignore')
                o = self.cache[k] = cls(R, C, encoding=enc, encoding_errors=errors)
        return o


def load_screen(o, st, ych):
    o.w = [[ych if ch == 'y' else ch for ch in row] for row in st[0]]
    o.cur_r, o.cur_c = st[1]
    o.cur_saved_r, o.cur_saved_c = st[2]
    o.scroll_row_start, o.scroll_row_end = st[3]
    if o.decoder is not None:
        o.decoder.reset()


def numstr(n, huge, style):
    if n >= huge:
        s = HUGE_STR[style % len(HUGE_STR)]
        return s % huge if '%' in s else s
    return ('0' * (style % 3)) + str(n)


def load_ansi(o, st, ych, huge, style):
    load_screen(o, st, ych)
    o.state.current_state = st[4]
    o.state.memory = [o] + [numstr(n, huge, style + i) for i, n in enumerate(st[5])]
    o.state.input_symbol = None
    o.state.next_state = None


def grid_shape_ok(w, R, C):
    if type(w) is not list or len(w) != R:
        return False
    for row in w:
        if type(row) is not list or len(row) != C:
            return False
        for ch in row:
            if type(ch) is not str or len(ch) != 1:
                return False
    return True


def proj_screen(o, ych, strict):
    """abstract state of the real object; the grid must have been checked with grid_shape_ok"""
    if strict:
        g = tuple(tuple(ch if ch == ' ' or ch == 'x' else 'y' if ch == ych else '?' + ch for ch in row) for row in o.w)
    else:
        g = tuple(tuple(ch if ch == ' ' or ch == 'x' else 'y' for ch in row) for row in o.w)
    return (g, (o.cur_r, o.cur_c), (o.cur_saved_r, o.cur_saved_c), (o.scroll_row_start, o.scroll_row_end))


def proj_parser(o, huge):
    """(fsm state, stack capped at huge, memory[0] is the emulator and the rest are digit strings)"""
    mem = o.state.memory
    head = type(mem) is list and len(mem) >= 1 and mem[0] is o
    try:
        stack = tuple(min(int(x), huge) for x in mem[1:]) if all(type(x) is str and x.isdigit() for x in mem[1:]) else None
    except Exception:
        stack = None
    return o.state.current_state, stack, head


def raw_state(o):
    d = {'w': repr(getattr(o, 'w', None))[:400], 'cur': [o.cur_r, o.cur_c], 'saved': [o.cur_saved_r, o.cur_saved_c],
         'region': [o.scroll_row_start, o.scroll_row_end]}
    if hasattr(o, 'state'):
        d['fsm'] = o.state.current_state
        d['memory'] = [repr(x)[:40] for x in o.state.memory[1:]] if type(o.state.memory) is list else repr(o.state.memory)[:80]
    return d


def on_screen(p, R, C):
    return type(p[0]) is int and type(p[1]) is int and 1 <= p[0] <= R and 1 <= p[1] <= C


class Collector(object):
    """failures / counters gathered inside a worker process"""

    def __init__(self):
        self.fail = []
        self.nfail = Counter()
        self.count = Counter()
        self.drift = []

    def add(self, clause, case, detail, signature):
        self.nfail[clause] += 1
        if self.nfail[clause] <= MAXFAIL:
            self.fail.append((clause, case, detail, signature))

    def merge(self, other):
        self.fail += other.fail
        self.nfail.update(other.nfail)
        self.count.update(other.count)
        self.drift += other.drift[:20]


# ---------------------------------------------------------------------------------------------
# C19: one implementation test per transition of the Screen graph
# ---------------------------------------------------------------------------------------------
def char_arg(ch, variant):
    enc, form, ych = variant
    c = ych if ch == 'y' else ch
    return c.encode(enc) if form == 'bytes' else c


def screen_calls(name, args, variant):
    """the python calls that spell this action: [(method, args)]; default arguments are separate spellings"""
    m = METHOD[name]
    a = list(args)
    if name in CHAR_OPS:
        ch = a[-1]
        a[-1] = char_arg(ch, variant)
    calls = [(m, tuple(a))]
    if name in ('Fill', 'FillRegion') and args[-1] == ' ':
        calls.append((m, tuple(a[:-1])))
    if name == 'CursorHome':
        if args[1] == 1:
            calls.append((m, (args[0],)))
        if args == (1, 1):
            calls.append((m, ()))
    if name in ('CursorBack', 'CursorDown', 'CursorForward', 'CursorUp') and args == (1,):
        calls.append((m, ()))
    return calls


def classify_screen(method, pre, expected, got):
    """name the first field in which the observed post-state is outside what the reference allows"""
    P = 'C19:' + method
    if not any(e[0] == got[0] for e in expected):
        want = expected[0][0]
        for r, row in enumerate(got[0]):
            for c, ch in enumerate(row):
                if ch != want[r][c] and want[r][c] == pre[0][r][c]:
                    return P + '-frame'
        return P + '-effect'
    if not any(e[1] == got[1] for e in expected):
        return P + '-cursor'
    if not any(e[2] == got[2] for e in expected):
        return P + '-saved-cursor'
    if not any(e[3] == got[3] for e in expected):
        return P + '-region'
    return P + '-state'


def st_json(st):
    d = {'grid': [''.join(r) for r in st[0]], 'cur': list(st[1]), 'saved': list(st[2]), 'region': list(st[3])}
    if len(st) > 4:
        d['fsm'], d['stack'] = st[4], list(st[5])
    return d


def st_unjson(d):
    st = (tuple(tuple(r) for r in d['grid']), tuple(d['cur']), tuple(d['saved']), tuple(d['region']))
    if 'fsm' in d:
        st += (d['fsm'], tuple(d['stack']))
    return st


def arg_json(a):
    return {'bytes': list(a)} if isinstance(a, bytes) else a


def arg_unjson(a):
    return bytes(a['bytes']) if isinstance(a, dict) else a


def screen_transition(objs, R, C, pre, name, args, vi, expected, col):
    variant = SVARIANTS[vi % len(SVARIANTS)]
    o = objs.get(SCR.screen, R, C, variant[0])
    ych = variant[2]
    for m, cargs in screen_calls(name, args, variant):
        col.count['evaluations'] += 1
        load_screen(o, pre, ych)
        case = {'kind': 'screen-transition', 'rows': R, 'cols': C, 'pre': st_json(pre), 'action': name, 'args': list(args),
                'variant': vi, 'call': '%s(%s)' % (m, ', '.join(repr(x) for x in cargs)),
                'expected': [st_json(e) for e in expected]}
        sig = {'method': m, 'rows': R, 'cols': C}
        try:
            getattr(o, m)(*cargs)
        except Exception as e:
            col.add('C19:%s-raised' % m, case, {'call': case['call'], 'on': case['pre'], 'exception': '%s: %s' % (type(e).__name__, e),
                                                'observed': raw_state(o)}, sig)
            continue
        if not grid_shape_ok(o.w, R, C):
            col.add('C19:%s-shape' % m, case, {'call': case['call'], 'on': case['pre'], 'observed': raw_state(o)}, sig)
            continue
        got = proj_screen(o, ych, True)
        if got not in expected:
            col.add(classify_screen(m, pre, expected, got), case, {'call': case['call'], 'on': case['pre'], 'observed': st_json(got),
                                                                  'reference_allows': case['expected']}, sig)
        elif got != pre:
            col.count['nontrivial'] += 1


# Rejected operations.  A character operation whose argument the screen cannot take - bytes on a screen built with
# encoding=None ("passing bytes in will raise TypeError", class documentation), bytes that are not valid in the screen's
# encoding under encoding_errors='strict' (UnicodeDecodeError) - inserts / puts / fills nothing, so by the property
# ("changes exactly the cells ... its documentation describes and leaves every other cell untouched") the whole state
# (grid, cursor, saved cursor, scroll region) is what it was: Screen!RejectedS.
#   (encoding, encoding_errors, argument, kind): kind 'bytes' -> TypeError documented, 'decode' -> UnicodeDecodeError
# kind 'empty': an empty character ('' on any screen, b'' on a screen with an encoding) -> IndexError, state unchanged.
# (insert / insert_abs used to shift the row and only then fail in put_abs: repaired in /repo, see known_findings.json.)
# NOT included: an incomplete multi-byte character (b'\xe2' on a utf-8 screen): it raises the same IndexError with the
# grid unchanged, but the bytes stay in the screen's incremental decoder and are prepended to the next bytes argument -
# the screen API takes one character per call, what a fraction of one means is not documented.
REJECTS = [(None, 'replace', b'x', 'bytes'), (None, 'strict', b'\xe9', 'bytes'), (None, 'replace', b' ', 'bytes'),
           ('ascii', 'strict', b'\xc9', 'decode'), ('utf-8', 'strict', b'\xff', 'decode'), ('utf-8', 'strict', b'\xe2\x28', 'decode'),
           ('shift_jis', 'strict', b'\xfd\xfd', 'decode'), ('utf-16-le', 'strict', b'\x00\xd8\x00\x00', 'decode'),
           ('ascii', 'strict', b'\x80', 'decode'),
           (None, 'replace', '', 'empty'), ('utf-8', 'replace', b'', 'empty'), ('utf-8', 'strict', '', 'empty'), ('latin-1', 'replace', b'', 'empty')]
REJ_EXC = {'bytes': 'TypeError', 'decode': 'UnicodeDecodeError', 'empty': 'IndexError'}


def screen_rejected(objs, R, C, pre, name, args, ri, col):
    """the action of this transition spelled with an argument the screen rejects: the state must stay `pre`"""
    enc, errors, data, kind = REJECTS[ri % len(REJECTS)]
    o = objs.get(SCR.screen, R, C, enc, errors)
    m = METHOD[name]
    cargs = tuple(args[:-1]) + (data,)
    load_screen(o, pre, 'y')
    col.count['evaluations'] += 1
    case = {'kind': 'screen-rejected', 'rows': R, 'cols': C, 'pre': st_json(pre), 'action': name, 'args': list(args), 'reject': ri,
            'screen': 'screen(%d, %d, encoding=%r, encoding_errors=%r)' % (R, C, enc, errors),
            'call': '%s(%s)' % (m, ', '.join(repr(x) for x in cargs)), 'expected': [st_json(pre)]}
    sig = {'method': m, 'rows': R, 'cols': C, 'rejected': kind}
    exc = None
    try:
        getattr(o, m)(*cargs)
    except Exception as e:
        exc = e
    if exc is None:
        if kind == 'bytes':             # documented: "passing bytes in will raise TypeError"
            col.add('C19:%s-bytes-accepted' % m, case, {'call': case['call'], 'on': case['screen'], 'observed': raw_state(o)}, sig)
        else:
            col.count['not_rejected'] += 1          # the documentation does not promise the exception: nothing to compare
        return
    if type(exc).__name__ != REJ_EXC[kind]:
        col.add('C19:%s-raised' % m, case, {'call': case['call'], 'on': case['screen'], 'in_state': case['pre'],
                                            'exception': '%s: %s' % (type(exc).__name__, exc), 'observed': raw_state(o)}, sig)
        return
    detail = {'call': case['call'], 'on': case['screen'], 'in_state': case['pre'], 'raised': '%s: %s' % (type(exc).__name__, exc),
              'note': 'the operation was rejected, nothing was put / inserted / filled: the state must be unchanged'}
    if not grid_shape_ok(o.w, R, C):
        col.add('C19:%s-shape' % m, case, dict(detail, observed=raw_state(o)), sig)
        return
    got = proj_screen(o, 'y', True)
    if got != pre[:4]:
        col.add(classify_screen(m, pre, [pre], got), case, dict(detail, observed=st_json(got), reference_allows=case['expected']), sig)
        return
    col.count['rejected'] += 1
    col.count['rejected:%s:%s' % (m, kind)] += 1


_G = {}


def _screen_worker(rng_):
    lo, hi = rng_
    g, R, C = _G['graph'], _G['R'], _G['C']
    os.chdir(_G['cwd'])
    col, objs = Collector(), Objects()
    for i in range(lo, hi):
        if g.duplicate(i):
            continue
        name, args = g.labels[g.lab[i]]
        screen_transition(objs, R, C, g.states[g.pre[i]], name, args, g.vi(i), g.expected(i), col)
        # fill_region has by far the most argument tuples (corners x corners): every third of its transitions
        if name in CHAR_OPS and (name != 'FillRegion' or (g.vi(i) // 7) % 3 == 0):
            screen_rejected(objs, R, C, g.states[g.pre[i]], name, args, g.vi(i) // 11, col)
    return col


def _accessor_worker(rng_):
    lo, hi = rng_
    g, R, C, table = _G['graph'], _G['R'], _G['C'], _G['table']
    os.chdir(_G['cwd'])
    col, objs = Collector(), Objects()
    for i in range(lo, hi):
        vi = g.nh[i] % len(SVARIANTS)
        full = i in _G['full']
        accessor_test(objs, R, C, g.states[i], vi, table, col, full, random.Random(_G['seed'] * 1000003 + g.nh[i]))
    return col


def conc(v, ych):
    """concrete value of an abstract accessor value (sequence of cell classes / nested)"""
    return ''.join(ych if x == 'y' else x for x in v)


def accessor_test(objs, R, C, st, vi, table, col, full, rng, only=None):
    variant = SVARIANTS[vi % len(SVARIANTS)]
    o = objs.get(SCR.screen, R, C, variant[0])
    ych = variant[2]
    ent = table['by_grid'][st[0]]
    ra, ca = table['rowargs'], table['colargs']
    load_screen(o, st, ych)
    todo = [('get', (), conc([ent['get'][st[1][0] - 1][st[1][1] - 1]], ych)),
            ('dump', (), conc(ent['dump'], ych)), ('str', (), conc(ent['str'], ych)), ('pretty', (), conc(ent['pretty'], ych))]
    for i, r in enumerate(ra):
        for j, c in enumerate(ca):
            todo.append(('get_abs', (r, c), conc([ent['get_abs'][i][j]], ych)))
    quads = [(i, j, k, m) for i in range(len(ra)) for j in range(len(ca)) for k in range(len(ra)) for m in range(len(ca))]
    if not full:
        quads = rng.sample(quads, min(12, len(quads)))
    for i, j, k, m in quads:
        todo.append(('get_region', (ra[i], ca[j], ra[k], ca[m]), [conc(row, ych) for row in ent['get_region'][i][j][k][m]]))
    for name, a, want in todo:
        if only and (name, list(a)) != only:
            continue
        col.count['evaluations'] += 1
        case = {'kind': 'screen-accessor', 'rows': R, 'cols': C, 'state': st_json(st), 'variant': vi, 'accessor': name,
                'args': list(a), 'expected': want}
        sig = {'method': name, 'rows': R, 'cols': C}
        try:
            got = str(o) if name == 'str' else getattr(o, name)(*a)
        except Exception as e:
            col.add('C19:accessor-%s-raised' % name, case, {'exception': '%s: %s' % (type(e).__name__, e)}, sig)
            load_screen(o, st, ych)
            continue
        if got != want or type(got) is not type(want):
            col.add('C19:accessor-%s' % name, case, {'call': '%s(%s)' % (name, ', '.join(map(str, a))), 'on': case['state'],
                                                     'returned': repr(got), 'definition_over_the_grid': repr(want)}, sig)
        else:
            col.count['nontrivial'] += 1
        if not grid_shape_ok(o.w, R, C) or proj_screen(o, ych, True) != st[:4]:
            col.add('C19:accessor-%s-changed-the-screen' % name, case, {'observed': raw_state(o)}, sig)
            load_screen(o, st, ych)


def accessor_table(ctx, conf):
    R, C, chars, slack = conf[:4]
    name = 'acc_%dx%d_%s' % (R, C, chars)
    cfg = tlc.write_cfg(os.path.join(ctx.work, name + '.cfg'), spec='AccSpec', constants=[
        ('Rows', '= %d' % R), ('Cols', '= %d' % C), ('Chars', '<- ' + chars), ('Slack', '= %d' % slack)])
    out = os.path.join(ctx.work, name + '.json')
    res = tlc.run('ScreenAccessors', cfg, ctx.work, workers=2, timeout=600, env={'OUT_FILE': out}, outname=name + '.out')
    if not res['ok'] or not os.path.exists(out):
        raise tlc.TLCError('ScreenAccessors %dx%d: TLC failed (the accessor definitions disagree?), see %s' % (R, C, res['out']))
    t = json.load(open(out))
    os.remove(out)
    t['by_grid'] = {tuple(tuple(r) for r in e['grid']): e for e in t['table']}
    return t


def pool_map(fn, n, shared):
    """run fn over [0, n) split into chunks, in forked workers that inherit `shared`"""
    _G.clear()
    _G.update(shared)
    if n == 0:
        return Collector()
    step = max(1, min(20000, (n + NPROC * 4 - 1) // (NPROC * 4)))
    ranges = [(i, min(n, i + step)) for i in range(0, n, step)]
    total = Collector()
    if n < 2000:
        for r in ranges:
            total.merge(fn(r))
        return total
    ctxm = multiprocessing.get_context('fork')
    with ctxm.Pool(NPROC) as pool:
        for col in pool.imap_unordered(fn, ranges):
            total.merge(col)
    return total


# ---------------------------------------------------------------------------------------------
# C18: one implementation test per transition of the AnsiFsm graph
# ---------------------------------------------------------------------------------------------
def sym_text(sym, variant):
    """concrete text of a symbol under a variant: str or bytes"""
    enc, form, ych = variant[:3]
    c = SYMCHR.get(sym) or (ych if sym == 'y' else sym)
    return c.encode(enc) if form == 'bytes' else c


def feed(o, data, api):
    if api == 'process':
        o.process(data)
    elif api == 'process_list':
        o.process_list(data)
    else:
        o.write(data)


def ansi_invariants(o, R, C, exc, completed):
    """the clauses of C18 that need no reference state; None when they hold"""
    if exc is not None:
        return 'C18:raised'
    if not grid_shape_ok(o.w, R, C):
        return 'C18:shape'
    if not (on_screen((o.cur_r, o.cur_c), R, C)):
        return 'C18:cursor'
    if completed:
        mem = o.state.memory
        if o.state.current_state != 'INIT' or type(mem) is not list or len(mem) != 1 or mem[0] is not o:
            return 'C18:residue'
    return None


def followups(R, C):
    return [['LF'] * (R + 1), ['ESC', 'M'] * (R + 1), ['x'] * (R * C + 1), ['ESC', '[', 'H'] + ['LF'] * (R + 1),
            ['ESC', '[', 'H', 'ESC', 'M', 'ESC', 'M']]


def snapshot(o):
    return ([list(r) if type(r) is list else r for r in o.w] if type(o.w) is list else o.w, o.cur_r, o.cur_c, o.cur_saved_r,
            o.cur_saved_c, o.scroll_row_start, o.scroll_row_end, o.state.current_state, list(o.state.memory))


def restore(o, s):
    o.w = [list(r) if type(r) is list else r for r in s[0]] if type(s[0]) is list else s[0]
    (o.cur_r, o.cur_c, o.cur_saved_r, o.cur_saved_c, o.scroll_row_start, o.scroll_row_end) = s[1:7]
    o.state.current_state = s[7]
    o.state.memory = list(s[8])
    if o.decoder is not None:
        o.decoder.reset()


def consequence(o, R, C):
    """the real emulator left the reference: does the stated property break on ordinary further input?"""
    snap = snapshot(o)
    for fu in followups(R, C):
        restore(o, snap)
        for k, sym in enumerate(fu):
            exc = None
            try:
                o.write(SYMCHR.get(sym, sym))
            except Exception as e:
                exc = e
            bad = ansi_invariants(o, R, C, exc, False)
            if bad:
                return bad, fu[:k + 1], ('%s: %s' % (type(exc).__name__, exc)) if exc else None
    return None, None, None


def ansi_transition(objs, R, C, pre, sym, vi, expected, col, fixed_followup=None):
    variant = AVARIANTS[vi % len(AVARIANTS)]
    enc, form, ych, api = variant
    o = objs.get(ANSI.ANSI, R, C, enc)
    huge = huge_of(R, C)
    style = vi // len(AVARIANTS)
    load_ansi(o, pre, ych, huge, style)
    data = sym_text(sym, variant)
    col.count['evaluations'] += 1
    case = {'kind': 'ansi-transition', 'rows': R, 'cols': C, 'pre': st_json(pre), 'sym': sym, 'variant': vi,
            'input': repr(data), 'memory': [repr(x) for x in o.state.memory[1:]], 'expected': [st_json(e) for e in expected]}
    sig = {'sym': sym, 'fsm': pre[4], 'rows': R, 'cols': C}
    exc = None
    try:
        feed(o, data, api)
    except Exception as e:
        exc = e
    completed = all(e[4] == 'INIT' for e in expected)
    bad = ansi_invariants(o, R, C, exc, completed)
    if bad:
        col.add(bad, case, {'input': 'emulator %dx%d in parser state %s with parameters %s, cursor %s, region %s: feed %r' % (
                                R, C, pre[4], list(pre[5]), list(pre[1]), list(pre[3]), sym),
                            'exception': ('%s: %s' % (type(exc).__name__, exc)) if exc else None, 'observed': raw_state(o)}, sig)
        return
    got = proj_screen(o, ych, False)
    f, stack, head = proj_parser(o, huge)
    if head and stack is not None and (got + (f, stack)) in expected:
        if got + (f, stack) != pre:
            col.count['nontrivial'] += 1
        return
    # disagreement with AnsiFsm that keeps the stated property so far: follow it up
    observed = raw_state(o)
    bad, fu, why = consequence(o, R, C)
    if bad:
        case['followup'] = fu
        col.add(bad, case, {'input': 'emulator %dx%d in parser state %s with parameters %s, cursor %s, region %s: feed %r, then %s' % (
                                R, C, pre[4], list(pre[5]), list(pre[1]), list(pre[3]), sym, ' '.join(fu)),
                            'after_symbol': observed, 'exception': why, 'observed': raw_state(o),
                            'note': 'state after the symbol is outside the reference; the follow-up input then breaks the property'}, sig)
    else:
        col.count['drift'] += 1
        col.drift.append({'case': case, 'observed': observed})


def _ansi_worker(rng_):
    lo, hi = rng_
    g, R, C = _G['graph'], _G['R'], _G['C']
    os.chdir(_G['cwd'])
    col, objs = Collector(), Objects()
    for i in range(lo, hi):
        if g.duplicate(i):
            continue
        name, args = g.labels[g.lab[i]]
        ansi_transition(objs, R, C, g.states[g.pre[i]], args[0], g.vi(i), g.expected(i), col)
    return col


# ---------------------------------------------------------------------------------------------
# recording runs of the real objects for ScreenAnsiTrace
# ---------------------------------------------------------------------------------------------
def abstract_rows(w):
    return [[ch if ch == ' ' or ch == 'x' else 'y' for ch in row] for row in w]


class Recorder(object):
    def __init__(self, o, R, C, ansi):
        self.o, self.R, self.C, self.ansi = o, R, C, ansi
        self.prev = [[' '] * C for _ in range(R)]
        self.huge = huge_of(R, C)

    def obs(self, exc):
        o, R, C = self.o, self.R, self.C
        w = o.w
        nrows = len(w) if type(w) is list else -1
        cellsok = type(w) is list and all(type(row) is list and len(row) == C and all(type(ch) is str and len(ch) == 1 for ch in row)
                                          for row in w)
        rows = []
        if cellsok and nrows == R:
            cur = abstract_rows(w)
            rows = [[i + 1, cur[i]] for i in range(R) if cur[i] != self.prev[i]]
            self.prev = cur
        d = {'raised': type(exc).__name__ if exc is not None else '', 'nrows': nrows, 'cellsok': bool(cellsok), 'rows': rows,
             'cur': [int(o.cur_r), int(o.cur_c)], 'saved': [int(o.cur_saved_r), int(o.cur_saved_c)],
             'region': [cap32(o.scroll_row_start), cap32(o.scroll_row_end)], 'fsm': 'INIT', 'stack': [], 'memhead': True}
        if self.ansi:
            mem = o.state.memory
            d['fsm'] = str(o.state.current_state)
            d['memhead'] = bool(type(mem) is list and len(mem) >= 1 and mem[0] is o
                                and all(type(x) is str and x.isdigit() for x in mem[1:]))
            d['stack'] = [min(int(x), 1000000) for x in mem[1:]] if d['memhead'] else [-1]
        return d


def cap32(n):
    return max(-1000000, min(1000000, int(n)))


def proj_ret(name, v):
    """accessor return value -> JSON value over the abstract alphabet (structure characters kept)"""
    def cls(ch):
        return ch if ch in ' x\n+-|' else 'y'
    if name in ('get', 'get_abs'):
        return cls(v) if type(v) is str and len(v) == 1 else 'bad:' + repr(v)
    if name == 'get_region':
        if type(v) is list and all(type(s) is str for s in v):
            return [[cls(ch) for ch in s] for s in v]
        return 'bad:' + repr(v)[:60]
    return [cls(ch) for ch in v] if type(v) is str else 'bad:' + repr(v)[:60]


YPOOL = ['y', 'Z', u'\xe9', '#', '~', u'\xff']          # encodable in latin-1; never ' ', 'x', '+', '-', '|', newline


def run_screen_script(R, C, enc, script, errors='replace'):
    """script: [('op', action, args, ch|None[, rej]) | ('acc', name, args)] with concrete characters -> trace events.
    rej ('bytes' / 'decode'): the argument is one this screen rejects; the exception is recorded and the script goes on"""
    with warnings.catch_warnings():
        warnings.simplefilter('ignore')
        o = SCR.screen(R, C, encoding=enc, encoding_errors=errors)
    rec = Recorder(o, R, C, False)
    ev = []
    for step in script:
        exc = None
        if step[0] == 'op' and len(step) > 4 and step[4]:
            _, action, args, ch, rej = step
            m = METHOD[action]
            try:
                getattr(o, m)(*(list(args) + [arg_unjson(ch)]))
            except Exception as e:
                exc = e
            ev.append({'k': 'op', 'm': m, 'op': action, 'a': list(args), 'ch': '', 'rej': rej, 'obs': rec.obs(exc)})
            if exc is not None and type(exc).__name__ == REJ_EXC[rej]:
                continue                      # rejected as expected: the script goes on, on the unchanged screen
            break                             # taken after all / another exception: TLC decides, nothing to add
        if step[0] == 'op':
            _, action, args, ch = step[:4]
            m = METHOD[action]
            a = list(args) + ([arg_unjson(ch)] if ch is not None else [])
            try:
                getattr(o, m)(*a)
            except Exception as e:
                exc = e
            if ch is None:
                cc = ''
            else:
                try:
                    t = ch if isinstance(ch, str) else arg_unjson(ch).decode(enc)
                except Exception:
                    t = '?'
                cc = t if t in (' ', 'x') else 'y'
            ev.append({'k': 'op', 'm': m, 'op': action, 'a': list(args), 'ch': cc, 'obs': rec.obs(exc)})
        else:
            _, name, args = step
            ret = None
            cur = [o.cur_r, o.cur_c]
            try:
                ret = str(o) if name == 'str' else getattr(o, name)(*args)
            except Exception as e:
                exc = e
            ev.append({'k': 'acc', 'm': name, 'a': list(args), 'ret': proj_ret(name, ret) if exc is None else 'raised',
                       'obs': rec.obs(exc)})
        if exc is not None:
            break
    return ev


REJ_BYTES = {None: [b'x', b' ', b'\xe9', b'\xff', b'ab'], 'ascii': [b'\xc9', b'\xff', b'\x80'],
             'utf-8': [b'\xff', b'\xe2\x28', b'\xc0\xaf', b'\x80']}


def rejected_steps(rng, R, C, enc, coord):
    """one rejected character operation followed by reads through every accessor"""
    a = rng.choice(sorted(CHAR_OPS))
    args = {'PutAbs': 2, 'InsertAbs': 2, 'FillRegion': 4}.get(a, 0)
    args = [coord(R) if i % 2 == 0 else coord(C) for i in range(args)]
    if rng.random() < 0.3:
        steps = [('op', a, args, arg_json('' if (enc is None or rng.random() < 0.5) else b''), 'empty')]
    else:
        steps = [('op', a, args, arg_json(rng.choice(REJ_BYTES[enc])), 'bytes' if enc is None else 'decode')]
    big = R * C > 500
    accs = [('acc', 'get', []), ('acc', 'get_abs', [coord(R), coord(C)]),
            ('acc', 'get_region', [coord(R), coord(C), coord(R), coord(C)] if big else [1, 1, R, C]),
            ('acc', 'dump', []), ('acc', 'str', []), ('acc', 'pretty', [])]
    if big:                                # whole-screen reads of 24x80 are costly for TLC: one of the three
        accs = accs[:3] + [rng.choice(accs[3:])]
    return steps + accs


def random_screen_script(rng, R, C, enc, nops, errors='replace'):
    rejecting = enc is None or (errors == 'strict' and enc in REJ_BYTES)
    def coord(n):
        return rng.choice([rng.randint(1, n), rng.randint(1, n), 0, 1, n, n + 1, -1, n + 3, rng.randint(-5, n + 5), 10 ** 5, -10 ** 5])

    def count(n):
        return rng.choice([1, 1, 0, rng.randint(0, n), n, n + 1, -1, rng.randint(-3, n + 3), 10 ** 5])

    def char():
        c = rng.choice(['x', 'x', ' ', rng.choice(YPOOL), rng.choice(YPOOL)])
        if enc is not None and rng.random() < 0.5:
            try:
                return arg_json(c.encode(enc))
            except UnicodeEncodeError:
                return c
        return c
    script = []
    # start from a busy screen so that frame conditions are visible
    if rng.random() < 0.8:
        for _ in range(rng.randint(1, 4)):
            script.append(('op', 'FillRegion', [coord(R), coord(C), coord(R), coord(C)], char()))
    for _ in range(nops):
        x = rng.random()
        if rejecting and rng.random() < 0.06:
            script += rejected_steps(rng, R, C, enc, coord)
            continue
        if x < 0.18:
            name = rng.choice(['get', 'get_abs', 'get_region', 'dump', 'str', 'pretty'])
            args = {'get_abs': lambda: [coord(R), coord(C)], 'get_region': lambda: [coord(R), coord(C), coord(R), coord(C)]}.get(
                name, lambda: [])()
            script.append(('acc', name, args))
            continue
        a = rng.choice(SCREEN_ACTIONS)
        if a in ('Put', 'Insert', 'Fill'):
            script.append(('op', a, [], char()))
        elif a in ('PutAbs', 'InsertAbs'):
            script.append(('op', a, [coord(R), coord(C)], char()))
        elif a == 'FillRegion':
            script.append(('op', a, [coord(R), coord(C), coord(R), coord(C)], char()))
        elif a in ('CursorHome', 'CursorForcePosition'):
            script.append(('op', a, [coord(R), coord(C)], None))
        elif a in ('CursorBack', 'CursorForward'):
            script.append(('op', a, [count(C)], None))
        elif a in ('CursorDown', 'CursorUp'):
            script.append(('op', a, [count(R)], None))
        elif a == 'ScrollScreenRows':
            script.append(('op', a, [coord(R), coord(R)], None))
        else:
            script.append(('op', a, [], None))
    return script


# ----- emulator input: symbols <-> concrete text --------------------------------------------------
Y_STR = ['y', 'Z', '~', '\t', '\x00', '\x7f', 'u', 's', u'\xe9', u'€', u'\U0001f600', u'█']
Y_BYTES = {'utf-8': [b'y', b'Z', b'\t', b'\x00', u'\xe9'.encode('utf-8'), u'€'.encode('utf-8'), u'\U0001f600'.encode('utf-8'),
                     b'\xff', b'\x80'],
           'latin-1': [b'y', b'Z', b'\x00', b'\xe9', b'\xff', b'\x80', b'\x9b'],
           'cp437': [b'y', b'~', b'\x82', b'\xdb', b'\xff']}


def concretize(rng, syms, enc, form):
    """-> list of per-symbol str or bytes"""
    out = []
    for i, s in enumerate(syms):
        if s == 'y' and i and syms[i - 1] == 'y' and (form == 'str' or enc == 'utf-8') and rng.random() < 0.5:
            # two printable characters in a row: a base letter and a combining mark (decomposed text, conjoining jamo) -
            # two characters, two cells, wherever the input is cut
            base, mark = rng.choice([(u'e', u'\u0301'), (u'u', u'\u0308'), (u'\u1100', u'\u1161')])
            out[-1] = base if form == 'str' else base.encode('utf-8')
            out.append(mark if form == 'str' else mark.encode('utf-8'))
        elif s == 'y':
            out.append(rng.choice(Y_BYTES[enc]) if form == 'bytes' else rng.choice(
                [c for c in Y_STR if enc is None or form == 'str']))
        else:
            c = SYMCHR.get(s, s)
            out.append(c.encode('ascii') if form == 'bytes' else c)
    return out


def run_feed(R, C, enc, pieces):
    """pieces: [(data, [symbols completed by this piece])] -> trace events (one feed event per piece)"""
    with warnings.catch_warnings():
        warnings.simplefilter('ignore')
        o = ANSI.ANSI(R, C, encoding=enc)
    rec = Recorder(o, R, C, True)
    ev = []
    for data, syms in pieces:
        exc = None
        try:
            o.write(data)
        except Exception as e:
            exc = e
        syms = list(syms)
        while len(syms) > PART:           # keep TLC's evaluation of one event shallow
            ev.append({'k': 'part', 'syms': syms[:PART]})
            syms = syms[PART:]
        ev.append({'k': 'feed', 'syms': syms, 'obs': rec.obs(exc)})
        if exc is not None:
            break
    return ev


def pieces_of(units, cuts, form, tail=None):
    """units: per-symbol data; cuts: sorted offsets into the concatenation (chars for str, bytes for bytes);
    tail: truncated trailing input (the first bytes of a multi-byte character) that completes no symbol"""
    whole = (b'' if form == 'bytes' else '').join(units)
    if tail:
        whole += tail
    ends, n = [], 0
    for u in units:
        n += len(u)
        ends.append(n)
    bounds = [0] + list(cuts) + [len(whole)]
    out, k = [], 0
    for a, b in zip(bounds, bounds[1:]):
        done = []
        while k < len(ends) and ends[k] <= b:
            done.append(k)
            k += 1
        out.append((whole[a:b], done))
    return out


def all_cuts(n, maxcuts, limit, rng):
    """every set of <= maxcuts cut points in 1..n-1 when there are at most `limit`, else all single cuts + a sample"""
    import itertools
    pos = list(range(1, n))
    sets = [()]
    for k in range(1, maxcuts + 1):
        sets += list(itertools.combinations(pos, k))
        if len(sets) > limit * 20:
            break
    if len(sets) <= limit:
        return sets
    single = [s for s in sets if len(s) <= 1]
    rest = [s for s in sets if len(s) > 1]
    return single + rng.sample(rest, max(0, limit - len(single)))


def sim_symbols(ctx, R, C, num, depth, seed):
    """symbol sequences of TLC -simulate behaviours of MCAnsi!SimSpec"""
    d = os.path.join(ctx.work, 'sim_%dx%d' % (R, C))
    os.makedirs(d, exist_ok=True)
    cfg = tlc.write_cfg(os.path.join(ctx.work, 'sim_%dx%d.cfg' % (R, C)), spec='SimSpec', constants=[
        ('Rows', '= %d' % R), ('Cols', '= %d' % C), ('Chars', '<- Chars3'), ('Slack', '= 1'), ('MaxStack', '= 9')],
        invariants=['Shape', 'CursorOnScreen', 'NoResidue', 'Total'])
    res = tlc.run('MCAnsi', cfg, ctx.work, workers=1, timeout=600, simulate='file=%s/t,num=%d' % (d, num), depth=depth, seed=seed,
                  outname='sim_%dx%d.out' % (R, C))
    if res['violated'] or res['machinery_error'] or res['timed_out']:
        raise tlc.TLCError('simulation of MCAnsi failed: %s' % res['out'])
    out = []
    pat = re.compile(r'^\\\* <SimFeed\((.*?)\) line', re.M)
    for fn in sorted(os.listdir(d)):
        txt = open(os.path.join(d, fn)).read()
        syms = [json.loads(x) for x in pat.findall(txt)]
        if syms:
            out.append(syms)
        os.remove(os.path.join(d, fn))
    return out, res


# grammar-based input: well-formed sequences with parameters from {0, 1, in-range, == size, > size, huge},
# unknown and truncated sequences, controls, printables
def param(rng, n):
    return rng.choice(['0', '1', str(rng.randint(1, max(1, n))), str(n), str(n + 1), str(n + 2), '007', '99', '65536',
                       '4294967296', '1' + '0' * 25, '00'])


def random_input(rng, R, C, nitems):
    syms = []
    for _ in range(nitems):
        x = rng.random()
        if x < 0.30:
            syms += rng.choice([['x'], ['x', 'x', 'x'], ['y'], [' '], ['x'] * rng.randint(1, C + 2), ['y', 'x'], ['LF'], ['CR'],
                                ['BS'], ['CR', 'LF'], ['LF'] * rng.randint(1, R + 1)])
        elif x < 0.40:
            syms += ['ESC', rng.choice(['7', '8', 'M', 'M', '>', '<', '=', 'y'])] if rng.random() < 0.8 else \
                ['ESC', rng.choice(['(', ')', '#']), rng.choice(['A', 'B', '0', '1', '2', 'y', 'x'])]
        elif x < 0.52:
            syms += ['ESC', '[', rng.choice(['H', 'D', 'B', 'C', 'A', 'J', 'K', 'r', 'm', 'y', 'f', 'l'])]
        elif x < 0.70:
            n = R if rng.random() < 0.5 else C
            syms += ['ESC', '['] + list(param(rng, n)) + [rng.choice(['D', 'B', 'C', 'A', 'J', 'K', 'l', 'm', 'q', 'y', 'H', 'r'])]
        elif x < 0.88:
            syms += ['ESC', '['] + list(param(rng, R)) + [';'] + list(param(rng, rng.choice([R, C]))) + \
                [rng.choice(['H', 'f', 'r', 'r', 'm', 'q', 'y', 'A', ';'])]
        elif x < 0.93:
            syms += ['ESC', '[', '?'] + list(param(rng, 50)) + [rng.choice(['h', 'l', 'y'])]
        elif x < 0.97:
            k = rng.randint(3, 5)
            syms += ['ESC', '['] + sum([list(param(rng, 9)) + [';'] for _ in range(k)], [])[:-1] + [rng.choice(['m', 'q', 'H', 'y'])]
        else:
            syms += rng.choice([['ESC'], ['ESC', '['], ['ESC', '[', '1'], ['ESC', '[', '1', ';'], ['ESC', '[', '?'], ['ESC', '(']])
    return syms


# ---------------------------------------------------------------------------------------------
# TLC trace validation (batch idiom of tracecheck.validate; here every batch has its own Rows/Cols)
# ---------------------------------------------------------------------------------------------
def validate_many(ctx, corpus, tag, timeout=1500):
    """corpus: {(R, C): [{'id':..., 'ev': [...]}]} -> ({(R, C): {id: (verdict, event index)}}, stats).
    One TLC process (-workers 1) per part; all sizes run side by side, at most NPROC processes at a time."""
    from concurrent.futures import ThreadPoolExecutor
    jobs = []
    cost = {k: sum(len(t['ev']) for t in v) * (k[0] * k[1] + 40) for k, v in corpus.items() if v}
    unit = max(1, sum(cost.values()) // (NPROC * 2))
    for (R, C), traces in sorted(corpus.items(), key=lambda kv: -cost.get(kv[0], 0)):
        if not traces:
            continue
        nparts = max(1, min(len(traces), NPROC, (cost[(R, C)] + unit - 1) // unit))
        cfg = tlc.write_cfg(os.path.join(ctx.work, '%s_%dx%d.cfg' % (tag, R, C)), spec='TraceSpec', constants=[
            ('Rows', '= %d' % R), ('Cols', '= %d' % C), ('Chars', '<- Chars3'), ('Slack', '= 1')], invariants=['PossGood'])
        for i in range(nparts):
            jobs.append((R, C, i, cfg, traces[i::nparts]))

    def one(job):
        R, C, i, cfg, part = job
        base = '%s_%dx%d.%d' % (tag, R, C, i)
        tf = os.path.join(ctx.work, base + '.json')
        with open(tf, 'w') as f:
            json.dump([{'id': t['id'], 'ev': t['ev']} for t in part], f)
        res = tlc.run('ScreenAnsiTrace', cfg, ctx.work, workers=1, timeout=timeout, env={'TRACE_FILE': tf},
                      outname=base + '.out', heap='3g')
        txt = open(res['out'], errors='replace').read()
        v = {}
        for m in tracecheck._VERDICT.finditer(txt):
            v[json.loads(m.group(2)) if m.group(2).startswith('"') else int(m.group(2))] = (m.group(3), int(m.group(4)))
        os.remove(tf)
        return res, v, len(part)

    t0 = time.time()
    with ThreadPoolExecutor(NPROC) as ex:
        results = list(ex.map(one, jobs))
    verdicts, gen, dist = {}, 0, 0
    for job, (res, v, n) in zip(jobs, results):
        if res['machinery_error'] or res['timed_out'] or res['violated'] or len(v) != n:
            raise tlc.TLCError('trace validation run failed (rc=%s, %d/%d verdicts, violated=%s): %s' % (
                res['rc'], len(v), n, res['violated'], res['out']))
        verdicts.setdefault((job[0], job[1]), {}).update(v)
        gen += res['generated']
        dist += res['distinct']
    return verdicts, dict(generated=gen, distinct=dist, wall_s=round(time.time() - t0, 2), runs=len(jobs),
                          cmd=results[0][0]['cmd'] if results else '')


def validate(ctx, traces, R, C, tag, procs=1, timeout=1500):
    v, st = validate_many(ctx, {(R, C): traces}, tag, timeout)
    return v.get((R, C), {}), st


# ---------------------------------------------------------------------------------------------
# model checking
# ---------------------------------------------------------------------------------------------
def model_check(ctx, pid):
    out = []
    for cfg in MC_CFG[(pid, ctx.tier)]:
        module = ('MCScreen' if pid == 'C19' else 'MCAnsi') + ('B' if 'BSpec' in open(os.path.join(tlc.SPEC, cfg)).read() else '')
        res = tlc.run(module, cfg, ctx.work, workers=NPROC, timeout=1700, outname=cfg + '.out', heap='8g')
        tlc.require_ok(res, cfg)
        if res['violated']:
            raise tlc.TLCError('%s: the reference model violates %s - a bug of the specification, see %s' % (
                cfg, res['violated'], res['out']))
        ctx.note('TLC %s: %d states generated, %d distinct, depth %d, invariants hold (%.0fs)' % (
            cfg, res['generated'], res['distinct'], res['depth'], res['wall_s']))
        out.append(res)
    # per-action coverage (vacuity guard) on the first dumped configuration is taken from the graph itself; here TLC's
    # own coverage statistics on a small configuration
    covcfg = 'MCScreen_cov.cfg' if pid == 'C19' else 'MCAnsi_cov.cfg'
    cov = tlc.run('MCScreen' if pid == 'C19' else 'MCAnsi', covcfg, ctx.work, workers=NPROC, timeout=900, coverage=True,
                  outname=covcfg + '.out')
    tlc.require_ok(cov, covcfg)
    need = SCREEN_ACTIONS if pid == 'C19' else ['Feed']
    for a in need:
        if cov['coverage'].get(a, (0, 0))[1] == 0:
            raise tlc.TLCError('action %s never taken in %s (vacuous model run)' % (a, covcfg))
    return out, cov


def graph_coverage(g, pid):
    """transitions per action (C19) / per (parser state, symbol) (C18) in a dumped graph"""
    c = Counter()
    if pid == 'C19':
        for i in range(len(g.lab)):
            c[g.labels[g.lab[i]][0]] += 1
    else:
        for i in range(len(g.lab)):
            c[(g.states[g.pre[i]][4], g.labels[g.lab[i]][1][0])] += 1
    return c


# ---------------------------------------------------------------------------------------------
# C19
# ---------------------------------------------------------------------------------------------
# (encoding, encoding_errors) of the random operation sequences; the screens with encoding=None and the strict ones also
# get rejected operations (rejected_steps)
SCREEN_MODES = [(None, 'replace'), ('latin-1', 'replace'), ('latin-1', 'replace'), ('utf-8', 'replace'), ('cp437', 'replace'),
                ('ascii', 'strict'), ('utf-8', 'strict'), (None, 'strict')]
SIZES_RANDOM = [(24, 80), (1, 1), (1, 7), (5, 1), (3, 5), (7, 3), (4, 5), (10, 10), (2, 2)]


def screen_traces(ctx, quick):
    """seeded random operation sequences on 24x80 and odd sizes -> {(R, C): [trace]}"""
    out = {}
    tid = 0
    for si, (R, C) in enumerate(SIZES_RANDOM):
        n = (20 if quick else 250) if R * C > 500 else (150 if quick else 1500)
        nops = (40 if quick else 50) if R * C > 500 else 30
        lst = []
        for k in range(n):
            rng = random.Random(ctx.seed * 7919 + si * 100003 + k)
            enc, errors = rng.choice(SCREEN_MODES)
            script = random_screen_script(rng, R, C, enc, nops, errors)
            ev = run_screen_script(R, C, enc, script, errors)
            lst.append({'id': tid, 'ev': ev, 'meta': {'kind': 'screen-trace', 'rows': R, 'cols': C, 'enc': enc, 'errors': errors,
                                                      'script': [list(s) for s in script]}})
            tid += 1
        out[(R, C)] = lst
    return out


def report_trace_failures(ctx, pid, traces, verdicts, stats):
    for t in traces:
        v, at = verdicts[t['id']]
        stats['verdicts'][v.split(':')[0] if v.startswith('drift') else v] += 1
        if v.startswith('drift'):
            ctx.drift += 1
            if len(stats['drift_samples']) < 5:
                stats['drift_samples'].append({'verdict': v, 'meta': t['meta'], 'event': at})
            continue
        if v != 'ok' and v.startswith(pid + ':'):
            e = t['ev'][at - 2] if 2 <= at <= len(t['ev']) + 1 else None
            upto = t['ev'][:max(0, at - 1)]
            what = (' '.join(x for ev_ in upto for x in ev_.get('syms', [])) if t['meta']['kind'] == 'ansi-trace' else
                    ' / '.join(describe_multi(t['meta']['hist'])) if t['meta']['kind'] == 'ansi-multi' else
                    '; '.join('%s(%s)' % (ev_['m'], ', '.join(map(str, ev_['a'] + ([repr(ev_['ch'])] if ev_.get('ch') else []))))
                              for ev_ in upto))
            stats.setdefault('fails', []).append((v, t['meta'], {'screen': '%dx%d' % (t['meta']['rows'], t['meta']['cols']),
                                                                 'input_up_to_the_failing_event': what[-700:],
                                                                 'event_index': at - 1, 'event': e}, {
                'method': (e or {}).get('m'), 'rows': t['meta']['rows'], 'cols': t['meta']['cols'],
                'interleaved': t['meta']['kind'] == 'ansi-multi'}))
        elif v != 'ok':
            raise tlc.TLCError('trace %s: verdict %s does not belong to %s' % (t['id'], v, pid))


def run_c19(ctx):
    quick = ctx.quick()
    mc, cov = model_check(ctx, 'C19')
    total = Collector()
    gstats = []
    states = transitions = 0
    samples = []
    seen_actions = Counter()
    for conf in DUMPS[('C19', ctx.tier)]:
        t0 = time.time()
        g, res = dump_graph(ctx, 'C19', conf)
        R, C = conf[0], conf[1]
        table = accessor_table(ctx, conf)
        t1 = time.time()
        seen_actions.update(graph_coverage(g, 'C19'))
        first = {}
        for i, st in enumerate(g.states):         # all argument tuples of get_region once per (grid, variant), a sample otherwise
            k = (st[0], g.nh[i] % len(SVARIANTS))
            if k not in first or (g.nh[i], st) < (g.nh[first[k]], g.states[first[k]]):
                first[k] = i
        shared = {'graph': g, 'R': R, 'C': C, 'cwd': ctx.work, 'table': table, 'seed': ctx.seed, 'full': set(first.values())}
        col = pool_map(_screen_worker, len(g.pre), shared)
        ntr = col.count['evaluations']
        col2 = pool_map(_accessor_worker, len(g.states), shared)
        total.merge(col)
        total.merge(col2)
        states += len(g.states)
        transitions += len(g.pre)
        gstats.append({'screen': '%dx%d' % (R, C), 'chars': conf[2], 'slack': conf[3], 'maxlevel': conf[4], 'states': len(g.states),
                       'transitions': len(g.pre), 'implementation_tests': ntr, 'accessor_calls': col2.count['evaluations'],
                       'tlc_s': round(t1 - t0, 1), 'replay_s': round(time.time() - t1, 1)})
        ctx.note('graph %dx%d %s slack %d%s: %d states, %d transitions -> %d implementation tests + %d accessor calls in %d '
                 'states (TLC+parse %.0fs, replay %.0fs)' % (R, C, conf[2], conf[3], ' level<%d' % conf[4] if conf[4] else '',
                                                           len(g.states), len(g.pre), ntr, col2.count['evaluations'],
                                                           len(g.states), t1 - t0, time.time() - t1))
        if len(samples) < 3 and len(g.pre) > 10:
            i = (len(g.pre) * 2) // 3
            samples.append({'screen': '%dx%d' % (R, C), 'pre': st_json(g.states[g.pre[i]]), 'action': list(g.labels[g.lab[i]]),
                            'post': [st_json(e) for e in g.expected(i)]})
        last = (g, R, C, table)
    for a in SCREEN_ACTIONS:
        if seen_actions[a] == 0:
            raise tlc.TLCError('no transition of action %s in the dumped graphs' % a)
    # rejected spellings: every character operation was refused for both reasons and the state compared with the pre-state
    rej_tr = {k[9:]: v for k, v in total.count.items() if k.startswith('rejected:')}
    if not total.nfail:
        for a in sorted(CHAR_OPS):
            for kind in ('bytes', 'decode', 'empty'):
                if rej_tr.get('%s:%s' % (METHOD[a], kind), 0) == 0:
                    raise tlc.TLCError('no rejected (%s) spelling of %s was exercised on the dumped graphs' % (kind, METHOD[a]))
    ctx.note('rejected operations on the graphs: %d character-operation transitions repeated with an argument the screen refuses '
             '(bytes on encoding=None -> TypeError, undecodable bytes under strict -> UnicodeDecodeError, an empty character -> IndexError; %s), state compared with '
             'the pre-state%s' % (total.count['rejected'], ', '.join('%s x%d' % kv for kv in sorted(rej_tr.items())),
                                  '; %d not refused by the codec (nothing to compare)' % total.count['not_rejected']
                                  if total.count['not_rejected'] else ''))
    # binding self-test 1: a transition whose expected post-state was corrupted must be noticed
    g, R, C, table = last
    if R * C == 1:
        raise tlc.TLCError('C19 self-test needs a screen with more than one cell')
    cands = [i for i in range(len(g.pre)) if g.labels[g.lab[i]][0] == 'PutAbs' and g.pre[i] != g.post[i]][:200]
    noticed = None
    for k in cands:
        probe = Collector()
        good = g.expected(k)
        name, args = g.labels[g.lab[k]]
        screen_transition(Objects(), R, C, g.states[g.pre[k]], name, args, g.vi(k), good, probe)
        if probe.fail:
            continue                      # the real code fails this one by itself: nothing to learn from corrupting it
        bad = [(e[0], (e[1][0] % R + 1, e[1][1]), e[2], e[3]) if R > 1 else (e[0], (e[1][0], e[1][1] % C + 1), e[2], e[3]) for e in good]
        screen_transition(Objects(), R, C, g.states[g.pre[k]], name, args, g.vi(k), bad, probe)
        n1 = len(probe.fail)
        bad2 = [(g.states[g.pre[k]][0],) + e[1:] for e in good]
        screen_transition(Objects(), R, C, g.states[g.pre[k]], name, args, g.vi(k), bad2, probe)
        if n1 == 0 or len(probe.fail) == n1:
            raise tlc.TLCError('C19 self-test: a corrupted expected post-state was not noticed')
        noticed = [f[0] for f in probe.fail]
        break
    if noticed is None:
        ctx.note('binding self-test (transition): every candidate transition already fails on the real code; nothing to corrupt')
    else:
        ctx.note('binding self-test: expected cursor / expected grid of one transition corrupted -> %s' % ', '.join(noticed))
    # seeded random sequences on 24x80 and odd sizes, validated by TLC against ScreenAnsiTrace
    t0 = time.time()
    corpus = screen_traces(ctx, quick)
    gen_s = time.time() - t0
    tstats = {'verdicts': Counter(), 'drift_samples': [], 'tlc_states': 0, 'traces': 0, 'events': 0, 'cmd': ''}
    t0 = time.time()
    allv, st = validate_many(ctx, corpus, 'st')
    tstats['tlc_states'], tstats['cmd'] = st['distinct'], st['cmd']
    for (R, C), traces in corpus.items():
        report_trace_failures(ctx, 'C19', traces, allv[(R, C)], tstats)
        tstats['traces'] += len(traces)
        tstats['events'] += sum(len(t['ev']) for t in traces)
    ctx.note('%d random operation sequences (%d events) on %s executed in %.0fs and validated by TLC in %.0fs: %s' % (
        tstats['traces'], tstats['events'], ', '.join('%dx%d' % s for s in corpus), gen_s, time.time() - t0,
        ', '.join('%s x%d' % kv for kv in sorted(tstats['verdicts'].items()))))
    rej_ev = Counter()
    reads_after = 0
    for traces in corpus.values():
        for t in traces:
            for i, e in enumerate(t['ev']):
                if e.get('rej') and e['obs']['raised'] == REJ_EXC[e['rej']]:
                    rej_ev['%s:%s' % (e['m'], e['rej'])] += 1
                    j = i + 1
                    while j < len(t['ev']) and t['ev'][j]['k'] == 'acc':
                        reads_after += 1
                        j += 1
    if not tstats.get('fails'):
        for a in sorted(CHAR_OPS):
            for kind in ('bytes', 'decode', 'empty'):
                if rej_ev['%s:%s' % (METHOD[a], kind)] == 0:
                    raise tlc.TLCError('no rejected (%s) %s in the random operation sequences' % (kind, METHOD[a]))
    ctx.note('rejected operations in those sequences: %d operations refused by the screen (%s), each followed by reads through the '
             'accessors (%d reads): TLC requires grid, cursor, saved cursor and region unchanged and the reads to describe that grid' % (
                 sum(rej_ev.values()), ', '.join('%s x%d' % kv for kv in sorted(rej_ev.items())), reads_after))
    # binding self-test 2: a corrupted observation in a recorded trace must be rejected
    st2, st3 = side_by_side(lambda: trace_self_test(ctx, 'C19'), lambda: rejected_self_test(ctx))
    ctx.note('binding self-test (trace): ' + ', '.join('%s -> %s' % kv for kv in sorted(st2.items())))
    ctx.note('binding self-test (rejected operation): ' + ', '.join('%s -> %s' % kv for kv in sorted(st3.items())))
    for clause, case, detail, sig in total.fail + tstats.get('fails', []):      # minimal (per-transition) cases first
        ctx.fail(clause, case, detail, sig)
    extra = sum(total.nfail.values()) - len(total.fail)
    if extra:
        ctx.note('%d further failing transition tests not listed individually: %s' % (extra, dict(total.nfail)))
    status, nviol, nknown = common.conclude(ctx)
    nviol_all = nviol + extra if nviol else 0
    evidence.write('C19', ctx.tier, ctx.seed, 'model_checking', {
        'states': states, 'transitions': transitions,
        'traces_validated_against_impl': tstats['traces'],
        'samples': samples + [{'trace_meta': corpus[(3, 5)][0]['meta'], 'events': corpus[(3, 5)][0]['ev'][:6]}],
        'evaluations': total.count['evaluations'] + tstats['events'],
        'distinct_nontrivial': total.count['nontrivial'],
        'rule': 'one implementation test per transition (pre-state, action+arguments, post-state) of the dumped TLC state '
                'graphs, per python spelling of the action (explicit / default arguments), on a real screen object built in '
                'the pre-state; plus every accessor with every argument tuple in every state of the graphs against the table '
                'TLC evaluated; non-trivial = the test passed and the state changed (or the accessor returned the expected '
                'value); plus every character-operation transition repeated with an argument the screen rejects (state must '
                'equal the pre-state); plus seeded random sequences, with rejected operations followed by reads through every '
                'accessor, validated by TLC (ScreenAnsiTrace)',
        'exhaustive': True,
        'graphs': gstats,
        'model': {'module': 'MCScreen', 'runs': [{'cfg': r['cmd'].split('-config ')[1].split()[0], 'distinct': r['distinct'],
                                                  'generated': r['generated'], 'depth': r['depth'], 'wall_s': r['wall_s']} for r in mc],
                  'action_coverage': {k: v[1] for k, v in cov['coverage'].items()}},
        'trace_validation': {'module': 'ScreenAnsiTrace', 'tlc_states': tstats['tlc_states'], 'cmd': tstats['cmd'],
                             'verdict_counts': dict(tstats['verdicts']), 'self_test': st2},
        'rejected_operations': {'on_graph_transitions': total.count['rejected'], 'per_method_and_reason': rej_tr,
                                'not_refused_by_codec': total.count['not_rejected'],
                                'in_random_sequences': sum(rej_ev.values()), 'in_random_sequences_per_method_and_reason': dict(rej_ev),
                                'accessor_reads_after_rejection': reads_after, 'self_test': st3,
                                'screens': ['encoding=None (bytes -> TypeError)', 'ascii / utf-8 / shift_jis / utf-16-le with '
                                            'encoding_errors=strict (undecodable bytes -> UnicodeDecodeError)'],
                                'left_out': 'arguments that decode to no character (empty, incomplete multi-byte character): the '
                                            'unchanged tree shifts the row in insert / insert_abs before raising IndexError'},
        'failing_tests_total': dict(total.nfail), 'known_findings_hit': nknown,
    }, assumptions=[
        'a character operation whose argument the screen refuses (TypeError on encoding=None, UnicodeDecodeError under strict) '
        'changes nothing (Screen!RejectedS); arguments that decode to no character at all are outside the checked domain',
        'cell contents are abstracted to {blank, x, other}: the code never branches on a cell value',
        'exhaustive per-transition conformance on the dumped small screens (every reachable state x every action x every '
        'argument in the domain); larger screens are covered by seeded random sequences',
        'character arguments are single characters given as str or as bytes in the object encoding',
    ], wall_s=ctx.wall(), violations=nviol_all)
    return status


def side_by_side(*fns):
    """the self-tests are independent TLC runs (file names differ by tag): run them at the same time"""
    from concurrent.futures import ThreadPoolExecutor
    with ThreadPoolExecutor(len(fns)) as ex:
        return [f.result() for f in [ex.submit(fn) for fn in fns]]


def rejected_self_test(ctx):
    """a run with a rejected insert_abs is accepted; the same run with the row shifted by the rejected call, with the cursor
    moved by it, and with the exception dropped must be rejected with the clause of that field"""
    import copy
    R, C = 3, 5
    script = [('op', 'PutAbs', [2, 1], 'x'), ('op', 'PutAbs', [2, 3], u'\xe9'), ('op', 'CursorHome', [2, 2], None),
              ('op', 'InsertAbs', [2, 1], arg_json(b'x'), 'bytes'), ('acc', 'dump', []), ('acc', 'get_region', [1, 1, R, C]),
              ('op', 'Insert', [], 'x'), ('acc', 'str', [])]
    t = {'id': 'clean', 'ev': run_screen_script(R, C, None, script)}
    if len(t['ev']) != len(script) or t['ev'][3]['obs']['raised'] != 'TypeError':
        return {'skipped': 'the real code does not refuse insert_abs(2, 1, b"x") on an encoding=None screen with TypeError'}
    a = copy.deepcopy(t); a['id'] = 'row-shifted'
    a['ev'][3]['obs']['rows'] = [[2, ['x', 'x', ' ', 'y', ' ']]]
    b = copy.deepcopy(t); b['id'] = 'cursor-moved'
    b['ev'][3]['obs']['cur'] = [2, 3]
    c = copy.deepcopy(t); c['id'] = 'no-exception'
    c['ev'][3]['obs']['raised'] = ''
    want = {'clean': 'ok', 'row-shifted': 'C19:insert_abs-frame', 'cursor-moved': 'C19:insert_abs-cursor',
            'no-exception': 'C19:insert_abs-bytes-accepted'}
    v, _ = validate(ctx, [t, a, b, c], R, C, 'rejtest')
    res = {k: v[k][0] for k in v}
    if res.get('clean') != 'ok':
        return {'skipped': 'the real code fails the fixed run by itself (%s)' % res.get('clean')}
    if res != want:
        raise tlc.TLCError('binding self-test (rejected operation): trace verdicts %s, expected %s' % (res, want))
    return res


def multi_self_test(ctx):
    """a fixed interleaved history of the real emulator is accepted; with the last observation of one terminal corrupted
    in the way a decoder shared between terminals would (one more cell written, cursor one further) the trace must end
    with C18:chunking; with a terminal id swapped the per-terminal reference must notice"""
    import copy
    R, C = 2, 3
    euro = u'\u20ac'.encode('utf-8')
    a = {'enc': 'utf-8', 'errors': 'replace', 'form': 'bytes', 'syms': ['x', 'y', 'ESC', '[', 'H', 'x'],
         'units': [arg_json(u) for u in [b'x', euro, b'\x1b', b'[', b'H', b'x']], 'tail': None, 'cuts': [2, 5], 'lazy': False}
    b = {'enc': 'utf-8', 'errors': 'replace', 'form': 'bytes', 'syms': ['x', 'x', 'LF', 'y'],
         'units': [arg_json(u) for u in [b'x', b'x', b'\n', u'\xe9'.encode('utf-8')]], 'tail': arg_json(b'\xe2'), 'cuts': [1], 'lazy': True}
    hist = {'shape': 'alternate', 'terms': [a, b], 'schedule': [0, 1, 0, 1, 0]}
    ev, finals = run_multi(R, C, hist)
    t = {'id': 'clean', 'ev': ev}
    if finals is None or any(x != y for x, y in finals):
        return {'skipped': 'the real code fails the fixed interleaved history by itself'}
    last1 = max(i for i, e in enumerate(ev) if e['k'] == 'feed' and e['t'] == 1)
    x = copy.deepcopy(t); x['id'] = 'leaked'
    x['ev'][last1]['obs']['cur'] = [1, 3]
    x['ev'][last1]['obs']['rows'] = [[1, ['x', 'y', ' ']]]
    y = copy.deepcopy(t); y['id'] = 'swapped-id'
    first2 = min(i for i, e in enumerate(ev) if e['k'] == 'feed' and e['t'] == 2)
    y['ev'][first2]['t'] = 1
    v, _ = validate(ctx, [t, x, y], R, C, 'multitest')
    res = {k: v[k][0] for k in v}
    if res.get('clean') != 'ok':
        return {'skipped': 'the real code fails the fixed interleaved history by itself (%s)' % res.get('clean')}
    if res.get('leaked') != 'C18:chunking' or res.get('swapped-id') in ('ok', None):
        raise tlc.TLCError('binding self-test (interleaved history): trace verdicts %s' % res)
    return res


def trace_self_test(ctx, pid):
    """a fixed run of the real object must be accepted, and the same trace with one observed field corrupted must be
    rejected with the clause of that field.  When the real code fails the fixed run by itself (the main corpus reports
    that), a second, simpler run is tried; if that fails too there is nothing to corrupt."""
    import copy
    R, C = 3, 5
    if pid == 'C19':
        scripts = [[('op', 'FillRegion', [1, 2, 2, 4], 'x'), ('op', 'CursorHome', [2, 3], None), ('op', 'Put', [], u'\xe9'),
                    ('op', 'InsertAbs', [1, 1], 'x'), ('op', 'Cr', [], None), ('op', 'Lf', [], None),
                    ('op', 'CursorForward', [2], None), ('acc', 'dump', []), ('op', 'Lf', [], None), ('op', 'Lf', [], None)],
                   [('op', 'PutAbs', [1, 2], 'x'), ('op', 'CursorHome', [2, 3], None), ('op', 'PutAbs', [2, 2], 'x'),
                    ('op', 'CursorHome', [1, 1], None), ('op', 'PutAbs', [3, 3], 'x'), ('op', 'PutAbs', [3, 4], 'x'),
                    ('acc', 'dump', [])]]
        runs = [{'id': 'clean', 'ev': run_screen_script(R, C, 'latin-1', sc)} for sc in scripts]
        wants = [{'corrupt-cursor': 'C19:insert_abs-cursor', 'corrupt-cell': 'C19:lf-frame', 'lost-row': 'C19:cr-shape'},
                 {'corrupt-cursor': 'C19:cursor_home-cursor', 'corrupt-cell': 'C19:put_abs-frame', 'lost-row': 'C19:put_abs-shape'}]
    else:
        inputs = [['x', 'y', 'CR', 'LF', 'ESC', '[', '2', ';', '3', 'H', 'x', 'ESC', '[', 'K', 'ESC', '7', 'LF', 'LF', 'x', 'ESC', '8'],
                  ['x', 'y', 'x', 'ESC', '[', 'H', 'ESC', '[', '2', ';', '3', 'H', 'x', 'x', 'ESC', '[', 'm', 'x']]
        runs = [{'id': 'clean', 'ev': run_feed(R, C, 'utf-8', [(SYMCHR.get(x, x).encode('ascii'), [x]) for x in syms])}
                for syms in inputs]
        wants = [{'corrupt-cursor': 'drift:cursor', 'corrupt-cell': 'drift:grid', 'lost-row': 'C18:shape', 'residue': 'C18:residue',
                  'cursor-off-screen': 'C18:cursor'}] * 2
    final_at = [9, 11]                                        # index of an event that completes a sequence (H)
    tried = []
    for ti, (t, want) in enumerate(zip(runs, wants)):
        a = copy.deepcopy(t); a['id'] = 'corrupt-cursor'
        e = a['ev'][3]['obs']
        e['cur'] = [e['cur'][0], e['cur'][1] % C + 1]
        b = copy.deepcopy(t); b['id'] = 'corrupt-cell'
        b['ev'][5]['obs']['rows'] = [[3, ['y'] * C]]
        c = copy.deepcopy(t); c['id'] = 'lost-row'
        c['ev'][4]['obs']['nrows'] = R - 1
        extra = []
        if pid == 'C18':
            d = copy.deepcopy(t); d['id'] = 'residue'
            d['ev'][final_at[ti]]['obs']['stack'] = [2]      # after a final byte
            f = copy.deepcopy(t); f['id'] = 'cursor-off-screen'
            f['ev'][10]['obs']['cur'] = [R + 1, 1]
            extra = [d, f]
        v, _ = validate(ctx, [t, a, b, c] + extra, R, C, 'selftest')
        res = {k: v[k][0] for k in v}
        if res['clean'] != 'ok':
            tried.append(res['clean'])
            continue
        bad = [k for k in want if res.get(k) != want[k]]
        if bad:
            raise tlc.TLCError('binding self-test: trace verdicts %s, expected %s' % (res, want))
        return res
    return {'skipped': 'the real code fails the fixed self-test runs by itself (%s)' % ', '.join(tried)}


# ---------------------------------------------------------------------------------------------
# C18
# ---------------------------------------------------------------------------------------------
CHUNK_MODES = [(None, 'str'), ('utf-8', 'bytes'), ('latin-1', 'bytes'), ('cp437', 'bytes'), ('utf-8', 'str'), ('utf-8', 'bytes')]


def full_state(o, R, C, exc):
    ok = grid_shape_ok(o.w, R, C)
    return (proj_screen(o, None, False) if ok else ('bad-shape', repr(o.w)[:200]), str(o.state.current_state),
            tuple(repr(x) for x in o.state.memory[1:]) if type(o.state.memory) is list else repr(o.state.memory),
            type(exc).__name__ if exc is not None else '')


def run_pieces_full(R, C, enc, pieces):
    """-> [(symbols consumed so far, full state)] after every piece"""
    with warnings.catch_warnings():
        warnings.simplefilter('ignore')
        o = ANSI.ANSI(R, C, encoding=enc)
    out, n = [(0, full_state(o, R, C, None))], 0
    for data, done in pieces:
        exc = None
        try:
            o.write(data)
        except Exception as e:
            exc = e
        n += len(done)
        out.append((n, full_state(o, R, C, exc)))
        if exc is not None:
            break
    return out


def chunk_case(R, C, syms, enc, form, units, col, maxcuts, limit, rng, only_cuts=None):
    """reference = one write per symbol; every split into <= maxcuts+1 pieces must pass through the reference states"""
    whole = (b'' if form == 'bytes' else '').join(units)
    ends, n = [], 0
    for u in units:
        n += len(u)
        ends.append(n)
    ref = run_pieces_full(R, C, enc, pieces_of(units, ends[:-1], form))
    raised_at = next((k for k, (_, st) in enumerate(ref) if st[3]), None)
    refmap = dict(ref)
    cutsets = [tuple(only_cuts)] if only_cuts is not None else all_cuts(len(whole), maxcuts, limit, rng)
    for cuts in cutsets:
        pcs = pieces_of(units, cuts, form)
        got = run_pieces_full(R, C, enc, pcs)
        col.count['evaluations'] += 1
        inside = sum(1 for c in cuts if c not in ends)
        if inside:
            col.count['cuts_inside_multibyte'] += 1
        for k, (nsym, st) in enumerate(got[1:]):
            want = refmap.get(nsym)
            if raised_at is not None and nsym >= ref[raised_at][0]:
                want = ref[raised_at][1]
            if st != want:
                col.add('C18:chunking', {'kind': 'chunking', 'rows': R, 'cols': C, 'enc': enc, 'form': form, 'syms': syms,
                                         'units': [arg_json(u) for u in units], 'cuts': list(cuts)},
                        {'piece': k, 'symbols_consumed': nsym, 'state_after_piece': repr(st)[:600],
                         'state_when_fed_symbol_by_symbol': repr(want)[:600]}, {'rows': R, 'cols': C, 'enc': enc})
                break
            if st[3]:
                break
        else:
            col.count['nontrivial'] += 1 if cuts else 0


def _chunk_worker(rng_):
    lo, hi = rng_
    os.chdir(_G['cwd'])
    col = Collector()
    col.traces = []
    for i in range(lo, hi):
        R, C, syms = _G['inputs'][i]
        rng = random.Random(_G['seed'] * 104729 + i)
        enc, form = CHUNK_MODES[i % len(CHUNK_MODES)]
        units = concretize(rng, syms, enc, form)
        chunk_case(R, C, syms, enc, form, units, col, 3, _G['limit'], rng)
        # the symbol-by-symbol run and the whole-input run go to TLC
        ends, n = [], 0
        for u in units:
            n += len(u)
            ends.append(n)
        meta = {'kind': 'ansi-trace', 'rows': R, 'cols': C, 'enc': enc, 'form': form, 'units': [arg_json(u) for u in units],
                'syms': syms}
        col.traces.append({'id': 'sym-%d' % i, 'ev': run_feed(R, C, enc, [(d, [syms[k] for k in done]) for d, done in
                                                                       pieces_of(units, ends[:-1], form)]),
                           'meta': dict(meta, cuts=ends[:-1])})
        col.traces.append({'id': 'whole-%d' % i, 'ev': run_feed(R, C, enc, [(d, [syms[k] for k in done]) for d, done in
                                                                         pieces_of(units, [], form)]),
                           'meta': dict(meta, cuts=[])})
    return col


# ---------------------------------------------------------------------------------------------
# C18: interleaved histories - several terminals alive at once, their pieces fed alternately
# ---------------------------------------------------------------------------------------------
# Chunk independence is a statement about one terminal and *its* input: what other objects of the process are given
# in between is not part of "the same input".  A history has 2 or 3 terminals (same encoding and error policy, or
# different ones; stateful multi-byte encodings), each with its own input cut into pieces - at least one cut inside a
# multi-byte character when there is one, possibly truncated trailing input (the first bytes of a character and then
# nothing) - and a schedule: the order in which the pieces of the terminals are fed.  Before the schedule starts the same
# inputs are fed at once to fresh objects of their own ("twins").  The trace carries the terminal id of every write;
# ScreenAnsiTrace keeps one reference state per terminal and decides: C18:raised / shape / cursor / residue per write,
# and C18:chunking when the last observation of a terminal differs from that of its twin ("same" events).  The exact
# cell contents (which the trace abstracts to three classes) are compared here.
MB_ENCODINGS = ['utf-8', 'utf-16-le', 'shift_jis', 'gb18030']
MB_Y = {'utf-8': [u'\xe9', u'\u20ac', u'\U0001f600', u'\u231b', 'y'], 'utf-16-le': [u'\xe9', u'\u20ac', u'\U0001f600', 'y', u'\u6f22'],
        'shift_jis': [u'\u3042', u'\u6f22', u'\uff71', 'y', u'\uff03'], 'gb18030': [u'\xe9', u'\u20ac', u'\U0001f600', u'\u6f22', 'y']}
MB_BAD = {'utf-8': [b'\xff', b'\x80']}        # malformed, one U+FFFD each under errors='replace' wherever the input is cut
ERRORS = ['replace', 'ignore', 'strict']       # ignore / strict terminals get well-formed input (strict would raise by contract)
MULTI_SIZES = [(2, 3), (3, 4), (4, 5), (1, 3), (2, 2)]
MULTI_SHAPES = ['alternate', 'alternate', 'lazy', 'truncated-then-fresh']


def multi_term(rng, R, C, enc, errors, form, tail_p, lazy):
    syms = random_input(rng, R, C, rng.randint(1, 3))
    for _ in range(rng.randint(1, 3)):                     # multi-byte characters anywhere, also inside escape sequences
        syms.insert(rng.randint(0, len(syms)), 'y')
    pool = [c.encode(enc) for c in MB_Y[enc]] + (MB_BAD.get(enc, []) if errors == 'replace' else [])
    units = []
    for sym in syms:
        if sym == 'y':
            units.append(rng.choice(MB_Y[enc]) if form == 'str' else rng.choice(pool))
        else:
            c = SYMCHR.get(sym, sym)
            units.append(c if form == 'str' else c.encode(enc))
    tail = None
    if form == 'bytes' and rng.random() < tail_p:
        full = rng.choice([b for b in (c.encode(enc) for c in MB_Y[enc]) if len(b) > 1])
        tail = full[:rng.randint(1, len(full) - 1)]
    n = sum(len(u) for u in units) + len(tail or b'')
    ends, k = set(), 0
    for u in units:
        k += len(u)
        ends.add(k)
    inside = [q for q in range(1, n) if q not in ends]
    cuts = set()
    if n > 1:
        if inside:
            cuts.add(rng.choice(inside))
        want = min(n - 1, rng.randint(1, 3))
        while len(cuts) < want:
            cuts.add(rng.randint(1, n - 1))
    return {'enc': enc, 'errors': errors, 'form': form, 'syms': syms, 'units': [arg_json(u) for u in units],
            'tail': arg_json(tail) if tail else None, 'cuts': sorted(cuts), 'lazy': lazy}


def multi_history(rng, R, C):
    k = rng.choice([2, 2, 3])
    shape = rng.choice(MULTI_SHAPES)
    if rng.random() < 0.6:
        modes = [(rng.choice(MB_ENCODINGS), rng.choice(ERRORS))] * k            # one decoder configuration for all
    else:
        modes = [(rng.choice(MB_ENCODINGS), rng.choice(ERRORS)) for _ in range(k)]
    terms = []
    for i, (enc, errors) in enumerate(modes):
        form = 'str' if i > 0 and rng.random() < 0.1 else 'bytes'
        if shape == 'truncated-then-fresh':
            # terminal 1 is left with truncated trailing input; the others are created afterwards and get well-formed input
            t = multi_term(rng, R, C, enc, errors, 'bytes' if i == 0 else form, 1.0 if i == 0 else 0.0, i > 0)
            if i > 0 and rng.random() < 0.5:
                t['cuts'] = []
        else:
            t = multi_term(rng, R, C, enc, errors, form, 0.3, shape == 'lazy')
        terms.append(t)
    left = [len(t['cuts']) + 1 for t in terms]
    order = []
    if shape == 'truncated-then-fresh':
        order += [0] * left[0]
        left[0] = 0
    while any(left):
        cand = [i for i in range(k) if left[i]]
        other = [i for i in cand if not order or i != order[-1]]
        i = rng.choice(other) if other and rng.random() < 0.85 else rng.choice(cand)
        order.append(i)
        left[i] -= 1
    return {'shape': shape, 'terms': terms, 'schedule': order}


def term_pieces(t):
    units = [arg_unjson(u) for u in t['units']]
    return units, (arg_unjson(t['tail']) if t['tail'] else None)


def multi_exposure(hist):
    """-> (writes to a terminal while another terminal with the same (encoding, errors) holds back an incomplete character,
           ... while any other terminal does, cuts inside a multi-byte character)"""
    terms = hist['terms']
    held = [False] * len(terms)
    fed = [0] * len(terms)
    same = other = inside = 0
    for i in hist['schedule']:
        t = terms[i]
        if t['form'] == 'bytes':
            for j, u in enumerate(terms):
                if j != i and held[j]:
                    other += 1
                    if (u['enc'], u['errors']) == (t['enc'], t['errors']):
                        same += 1
        units, tail = term_pieces(t)
        ends, n = {0}, 0
        for u in units:
            n += len(u)
            ends.add(n)
        bounds = list(t['cuts']) + [n + len(tail or b'')]
        b = bounds[fed[i]]
        fed[i] += 1
        held[i] = t['form'] == 'bytes' and b not in ends
        if held[i] and fed[i] <= len(t['cuts']):
            inside += 1
    return same, other, inside


def run_multi(R, C, hist):
    """-> (trace events with terminal ids, [(final full state of terminal i, of its twin)] or None when a write raised)"""
    terms = hist['terms']
    k = len(terms)
    ev, objs, recs = [], {}, {}

    def create(tid, t):
        with warnings.catch_warnings():
            warnings.simplefilter('ignore')
            objs[tid] = ANSI.ANSI(R, C, encoding=t['enc'], encoding_errors=t['errors'])
        recs[tid] = Recorder(objs[tid], R, C, True)

    def write(tid, data, syms):
        exc = None
        try:
            objs[tid].write(data)
        except Exception as e:
            exc = e
        syms = list(syms)
        while len(syms) > PART:
            ev.append({'k': 'part', 't': tid, 'syms': syms[:PART]})
            syms = syms[PART:]
        ev.append({'k': 'feed', 't': tid, 'syms': syms, 'obs': recs[tid].obs(exc)})
        return exc

    pcs = []
    for i, t in enumerate(terms):            # the twins: the same input at once, each on a fresh object of its own
        units, tail = term_pieces(t)
        pcs.append(pieces_of(units, t['cuts'], t['form'], tail))
        create(k + i + 1, t)
        data, done = pieces_of(units, [], t['form'], tail)[0]
        if write(k + i + 1, data, [t['syms'][j] for j in done]) is not None:
            return ev, None
    for i, t in enumerate(terms):
        if not t['lazy']:
            create(i + 1, t)
    nxt = [0] * k
    for i in hist['schedule']:
        if i + 1 not in objs:
            create(i + 1, terms[i])
        data, done = pcs[i][nxt[i]]
        nxt[i] += 1
        if write(i + 1, data, [terms[i]['syms'][j] for j in done]) is not None:
            return ev, None
    for i in range(k):
        ev.append({'k': 'same', 't': i + 1, 'u': k + i + 1})
    return ev, [(full_state(objs[i + 1], R, C, None), full_state(objs[k + i + 1], R, C, None)) for i in range(k)]


def describe_multi(hist):
    out = []
    for i, t in enumerate(hist['terms']):
        units, tail = term_pieces(t)
        out.append('terminal %d (%s/%s, %s%s): %s' % (i + 1, t['enc'], t['errors'], t['form'], ', created at its first write' if t['lazy'] else '',
                                                     ' | '.join(repr(d) for d, _ in pieces_of(units, t['cuts'], t['form'], tail))))
    return out + ['order of the writes (terminal ids): %s' % ' '.join(str(i + 1) for i in hist['schedule'])]


def multi_case(R, C, hist, col, tid):
    """run one interleaved history; exact final states of every terminal against its twin; -> trace for TLC"""
    ev, finals = run_multi(R, C, hist)
    case = {'kind': 'ansi-multi', 'rows': R, 'cols': C, 'hist': hist}
    col.count['evaluations'] += 1
    if finals is not None:
        bad = [i for i, (a, b) in enumerate(finals) if a != b]
        if bad:
            i = bad[0]
            col.add('C18:chunking', case, {'history': describe_multi(hist), 'terminal': i + 1,
                                           'state_after_its_pieces': repr(finals[i][0])[:600],
                                           'state_of_a_fresh_terminal_fed_the_same_input_at_once': repr(finals[i][1])[:600]},
                    {'rows': R, 'cols': C, 'enc': hist['terms'][i]['enc'], 'interleaved': True})
        else:
            col.count['nontrivial'] += 1
    return {'id': tid, 'ev': ev, 'meta': dict(case)}


def _multi_worker(rng_):
    lo, hi = rng_
    os.chdir(_G['cwd'])
    col = Collector()
    col.traces = []
    for i in range(lo, hi):
        rng = random.Random(_G['seed'] * 86028121 + i)
        R, C = MULTI_SIZES[i % len(MULTI_SIZES)]
        hist = multi_history(rng, R, C)
        same, other, inside = multi_exposure(hist)
        col.count['multi:histories'] += 1
        col.count['multi:terminals'] += len(hist['terms'])
        col.count['multi:writes'] += len(hist['schedule'])
        col.count['multi:shape:' + hist['shape']] += 1
        col.count['multi:cuts_inside_multibyte'] += inside
        col.count['multi:exposed_same_decoder_config'] += 1 if same else 0
        col.count['multi:exposed_any'] += 1 if other else 0
        col.count['multi:truncated_tail'] += sum(1 for t in hist['terms'] if t['tail'])
        modes = set((t['enc'], t['errors']) for t in hist['terms'])
        col.count['multi:one_config' if len(modes) == 1 else 'multi:mixed_configs'] += 1
        for t in hist['terms']:
            col.count['multi:enc:' + t['enc']] += 1
            col.count['multi:errors:' + t['errors']] += 1
        col.traces.append(multi_case(R, C, hist, col, 'm-%d' % i))
    return col


def pool_map_traces(fn, n, shared):
    """like pool_map, for workers that also return col.traces"""
    _G.clear()
    _G.update(shared)
    step = max(1, (n + NPROC * 4 - 1) // (NPROC * 4))
    ranges = [(i, min(n, i + step)) for i in range(0, n, step)]
    total = Collector()
    total.traces = []
    ctxm = multiprocessing.get_context('fork')
    with ctxm.Pool(NPROC) as pool:
        for col in pool.imap(fn, ranges):
            total.merge(col)
            total.traces += col.traces
    return total


def ansi_random_traces(ctx, quick):
    out = {}
    for si, (R, C) in enumerate(SIZES_RANDOM):
        n = (30 if quick else 300) if R * C > 500 else (150 if quick else 1200)
        lst = []
        for k in range(n):
            rng = random.Random(ctx.seed * 15485863 + si * 1000003 + k)
            enc, form = rng.choice(CHUNK_MODES)
            syms = random_input(rng, R, C, rng.randint(8, 40 if R * C > 500 else 20))
            units = concretize(rng, syms, enc, form)
            total = sum(len(u) for u in units)
            ncuts = rng.choice([0, 1, 2, max(1, total // 7), max(1, total // 3)])
            cuts = sorted(rng.sample(range(1, total), min(ncuts, total - 1))) if total > 1 else []
            pcs = [(d, [syms[j] for j in done]) for d, done in pieces_of(units, cuts, form)]
            ev = run_feed(R, C, enc, pcs)
            lst.append({'id': 'r%d-%d' % (si, k), 'ev': ev, 'meta': {'kind': 'ansi-trace', 'rows': R, 'cols': C, 'enc': enc,
                                                                   'form': form, 'units': [arg_json(u) for u in units],
                                                                   'syms': syms, 'cuts': cuts}})
        out[(R, C)] = lst
    return out


def run_c18(ctx):
    quick = ctx.quick()
    mc, cov = model_check(ctx, 'C18')
    total = Collector()
    gstats, samples = [], []
    states = transitions = 0
    pairs = Counter()
    last = None
    for conf in DUMPS[('C18', ctx.tier)]:
        t0 = time.time()
        g, res = dump_graph(ctx, 'C18', conf)
        R, C = conf[0], conf[1]
        t1 = time.time()
        pairs.update(graph_coverage(g, 'C18'))
        col = pool_map(_ansi_worker, len(g.pre), {'graph': g, 'R': R, 'C': C, 'cwd': ctx.work, 'seed': ctx.seed})
        total.merge(col)
        states += len(g.states)
        transitions += len(g.pre)
        gstats.append({'screen': '%dx%d' % (R, C), 'chars': conf[2], 'maxlevel': conf[4], 'maxstack': conf[5], 'states': len(g.states),
                       'transitions': len(g.pre), 'implementation_tests': col.count['evaluations'], 'drift': col.count['drift'],
                       'tlc_s': round(t1 - t0, 1), 'replay_s': round(time.time() - t1, 1)})
        ctx.note('graph %dx%d %s stack<=%d%s: %d states, %d transitions -> %d implementation tests (TLC+parse %.0fs, replay %.0fs)%s' % (
            R, C, conf[2], conf[5], ' level<%d' % conf[4] if conf[4] else '', len(g.states), len(g.pre), col.count['evaluations'],
            t1 - t0, time.time() - t1, ', SPEC-DRIFT on %d' % col.count['drift'] if col.count['drift'] else ''))
        if len(samples) < 3 and len(g.pre) > 10:
            i = (len(g.pre) * 2) // 3
            samples.append({'screen': '%dx%d' % (R, C), 'pre': st_json(g.states[g.pre[i]]), 'action': list(g.labels[g.lab[i]]),
                            'post': [st_json(e) for e in g.expected(i)]})
        last = (g, R, C)
    # every (parser state, input class) pair was replayed
    from itertools import product
    syms_all = set(s for (_, s) in pairs)
    missing = [(st, s) for st, s in product(ANSI_STATES, sorted(syms_all)) if pairs[(st, s)] == 0]
    if missing or len(syms_all) < 40:
        raise tlc.TLCError('dumped graphs lack transitions for %d (state, symbol) pairs, e.g. %s' % (len(missing), missing[:3]))
    ctx.drift += total.count['drift']
    # binding self-test 1: a transition whose expected post-state was corrupted must be noticed
    g, R, C = last
    cands = [i for i in range(len(g.pre)) if g.labels[g.lab[i]][1][0] == 'H' and g.states[g.pre[i]][4] == 'NUMBER_2'
             and g.pre[i] != g.post[i]][:200]
    done = False
    for k in cands:
        probe = Collector()
        good = g.expected(k)
        ansi_transition(Objects(), R, C, g.states[g.pre[k]], 'H', g.vi(k), good, probe)
        if probe.fail or probe.count['drift']:
            continue                      # the real code leaves the reference here by itself
        bad = [e[:5] + ((1,),) for e in good]                # expected residue on the stack
        ansi_transition(Objects(), R, C, g.states[g.pre[k]], 'H', g.vi(k), bad, probe)
        n1 = probe.count['drift'] + len(probe.fail)
        bad2 = [e[:4] + ('ELB', ()) for e in good]           # expected: sequence not completed
        ansi_transition(Objects(), R, C, g.states[g.pre[k]], 'H', g.vi(k), bad2, probe)
        if n1 != 1 or probe.count['drift'] + len(probe.fail) != 2:
            raise tlc.TLCError('C18 self-test: a corrupted expected post-state was not noticed (%s)' % dict(probe.count))
        done = True
        break
    ctx.note('binding self-test: expected stack / expected parser state of one transition corrupted -> noticed (2 of 2)' if done else
             'binding self-test (transition): every candidate transition already leaves the reference on the real code; nothing to corrupt')
    # chunk independence: TLC -simulate behaviours + grammar-generated input, every split into <= 4 pieces
    t0 = time.time()
    inputs = []
    simres = []
    for (R, C, num, depth) in ([(2, 3, 150, 12), (1, 2, 60, 10), (3, 4, 60, 14)] if quick else
                               [(2, 3, 1500, 13), (1, 2, 400, 10), (3, 4, 800, 15), (1, 1, 200, 10), (4, 1, 300, 12)]):
        seqs, res = sim_symbols(ctx, R, C, num, depth, ctx.seed + 1)
        simres.append(res['cmd'])
        inputs += [(R, C, s) for s in seqs]
    nsim = len(inputs)
    for k in range(250 if quick else 3000):
        rng = random.Random(ctx.seed * 32452843 + k)
        R, C = rng.choice([(2, 2), (2, 3), (3, 4), (1, 3), (3, 1), (4, 5)])
        inputs.append((R, C, random_input(rng, R, C, rng.randint(1, 3))))
    for k in range(40 if quick else 400):
        rng = random.Random(ctx.seed * 7919 + k)
        R, C = rng.choice([(2, 3), (3, 4), (1, 3), (4, 5)])
        base = random_input(rng, R, C, rng.randint(1, 2))
        pos = rng.randint(0, len(base))
        inputs.append((R, C, base[:pos] + ['y', 'y'] + (['y', 'y'] if rng.random() < 0.4 else []) + base[pos:]))
    ch = pool_map_traces(_chunk_worker, len(inputs), {'inputs': inputs, 'cwd': ctx.work, 'seed': ctx.seed,
                                                      'limit': 250 if quick else 600})
    total.merge(ch)
    ctx.note('chunk independence: %d inputs (%d TLC -simulate behaviours, %d grammar-generated), %d splits into <= 4 pieces fed to '
             'the real emulator (%d with a cut inside a multi-byte character) in %.0fs' % (
                 len(inputs), nsim, len(inputs) - nsim, ch.count['evaluations'], ch.count['cuts_inside_multibyte'], time.time() - t0))
    # interleaved histories: 2-3 terminals alive at once, pieces fed alternately, twins fed at once
    t0 = time.time()
    mh = pool_map_traces(_multi_worker, 400 if quick else 6000, {'cwd': ctx.work, 'seed': ctx.seed})
    total.merge(mh)
    mc_ = {k[6:]: v for k, v in mh.count.items() if k.startswith('multi:')}
    if not mh.nfail:
        for need in ['exposed_same_decoder_config', 'exposed_any', 'truncated_tail', 'cuts_inside_multibyte', 'one_config',
                     'mixed_configs'] + ['shape:' + x for x in set(MULTI_SHAPES)] + ['enc:' + x for x in MB_ENCODINGS] + \
                ['errors:' + x for x in ERRORS]:
            if mc_.get(need, 0) == 0:
                raise tlc.TLCError('interleaved histories: nothing of kind %s was generated (%s)' % (need, mc_))
    ctx.note('interleaved histories: %d histories of 2-3 terminals alive at once (%d terminals, %d writes fed alternately; %d with '
             'one encoding+error policy for all, %d mixed; %s; %s; shapes %s), %d pieces ending inside a multi-byte character, %d '
             'terminals left with truncated trailing input; in %d histories a terminal was written to while another one with the '
             'same encoding+policy held back an incomplete character (%d: any other terminal); every terminal compared with a '
             'fresh terminal fed the same input at once (%.0fs)' % (
                 mc_.get('histories', 0), mc_.get('terminals', 0), mc_.get('writes', 0), mc_.get('one_config', 0),
                 mc_.get('mixed_configs', 0), ', '.join('%s x%d' % (e, mc_.get('enc:' + e, 0)) for e in MB_ENCODINGS),
                 ', '.join('%s x%d' % (e, mc_.get('errors:' + e, 0)) for e in ERRORS),
                 ', '.join('%s x%d' % (x, mc_.get('shape:' + x, 0)) for x in sorted(set(MULTI_SHAPES))),
                 mc_.get('cuts_inside_multibyte', 0), mc_.get('truncated_tail', 0), mc_.get('exposed_same_decoder_config', 0),
                 mc_.get('exposed_any', 0), time.time() - t0))
    # TLC validates the symbol-by-symbol and the whole-input runs of those inputs, the interleaved histories (one
    # reference state per terminal), and the random sequences
    t0 = time.time()
    corpus = ansi_random_traces(ctx, quick)
    for t in ch.traces + mh.traces:
        corpus.setdefault((t['meta']['rows'], t['meta']['cols']), []).append(t)
    gen_s = time.time() - t0
    tstats = {'verdicts': Counter(), 'drift_samples': [], 'tlc_states': 0, 'traces': 0, 'events': 0, 'cmd': ''}
    t0 = time.time()
    allv, st = validate_many(ctx, corpus, 'at')
    tstats['tlc_states'], tstats['cmd'] = st['distinct'], st['cmd']
    for (R, C), traces in corpus.items():
        report_trace_failures(ctx, 'C18', traces, allv[(R, C)], tstats)
        tstats['traces'] += len(traces)
        tstats['events'] += sum(len(t['ev']) for t in traces)
    ctx.note('%d recorded runs (%d write() events) on %s validated by TLC in %.0fs (recording %.0fs): %s' % (
        tstats['traces'], tstats['events'], ', '.join('%dx%d' % s for s in sorted(corpus)), time.time() - t0, gen_s,
        ', '.join('%s x%d' % kv for kv in sorted(tstats['verdicts'].items()))))
    st2, st3 = side_by_side(lambda: trace_self_test(ctx, 'C18'), lambda: multi_self_test(ctx))
    ctx.note('binding self-test (trace): ' + ', '.join('%s -> %s' % kv for kv in sorted(st2.items())))
    ctx.note('binding self-test (interleaved history): ' + ', '.join('%s -> %s' % kv for kv in sorted(st3.items())))
    if ctx.drift:
        d = (total.drift + tstats['drift_samples'])[:3]
        print('SPEC-DRIFT property=C18: %d disagreement(s) with AnsiFsm that keep the stated property, e.g. %s' % (
            ctx.drift, json.dumps(d, default=str)[:900]))
    for clause, case, detail, sig in total.fail + tstats.get('fails', []):      # minimal (per-transition) cases first
        ctx.fail(clause, case, detail, sig)
    extra = sum(total.nfail.values()) - len(total.fail)
    if extra:
        ctx.note('%d further failing tests not listed individually: %s' % (extra, dict(total.nfail)))
    # the FSM library itself (pexpect/FSM.py), for every table - not only the one ANSI.py builds
    from . import fsmlib
    fsm_stats = fsmlib.part(ctx)
    status, nviol, nknown = common.conclude(ctx)
    evidence.write('C18', ctx.tier, ctx.seed, 'model_checking', {
        'fsm_library': fsm_stats,
        'states': states + fsm_stats['fsmlib_states'], 'transitions': transitions,
        'traces_validated_against_impl': tstats['traces'],
        'samples': samples + [{'trace_meta': corpus[(3, 5)][0]['meta'], 'events': corpus[(3, 5)][0]['ev'][:4]}],
        'evaluations': total.count['evaluations'] + tstats['events'],
        'distinct_nontrivial': total.count['nontrivial'],
        'rule': 'one implementation test per transition (pre-state, Feed(symbol), post-state) of the dumped TLC state graphs on a '
                'real ANSI object built in the pre-state (str / bytes in latin-1, utf-8, cp437; write / process / process_list); '
                'non-trivial = passed and the state changed (distinct (state, symbol) pairs; exhaustive refers to these graphs); plus '
                'every split of every chunking input into <= 4 pieces (non-trivial = a real split that passed); plus interleaved '
                'histories of 2-3 terminals (non-trivial = every terminal equals its twin fed at once); plus recorded '
                'runs validated by TLC (ScreenAnsiTrace, one reference state per terminal)',
        'exhaustive': True,
        'graphs': gstats, 'state_symbol_pairs_replayed': len(pairs),
        'chunking': {'inputs': len(inputs), 'from_tlc_simulate': nsim, 'splits': ch.count['evaluations'],
                     'cuts_inside_multibyte': ch.count['cuts_inside_multibyte'], 'simulate_cmd': simres[:1]},
        'interleaved_histories': dict(mc_, self_test=st3, oracle='ScreenAnsiTrace keeps one reference state per terminal id; '
                                      'C18:chunking = last observation of a terminal differs from its twin fed at once; exact '
                                      'cell contents compared by the harness'),
        'model': {'module': 'MCAnsi', 'runs': [{'cfg': r['cmd'].split('-config ')[1].split()[0], 'distinct': r['distinct'],
                                                'generated': r['generated'], 'depth': r['depth'], 'wall_s': r['wall_s']} for r in mc],
                  'action_coverage': {k: v[1] for k, v in cov['coverage'].items()}},
        'trace_validation': {'module': 'ScreenAnsiTrace', 'tlc_states': tstats['tlc_states'], 'cmd': tstats['cmd'],
                             'verdict_counts': dict(tstats['verdicts']), 'self_test': st2},
        'spec_drift': ctx.drift, 'failing_tests_total': dict(total.nfail), 'known_findings_hit': nknown,
    }, assumptions=[
        'cell contents are abstracted to {blank, x, other} and numeric parameters saturate at max(rows, cols, 2) + 2: the code '
        'treats all larger values alike',
        'input classes: ESC CR LF BS blank x, every character of the transition table, and one class for all other characters',
        'parameters longer than the interpreter limit for int() (4300 digits) are outside the bounded input length',
        'a disagreement with AnsiFsm that keeps the stated property (after follow-up input) is SPEC-DRIFT, not a violation',
        'terminals are independent objects: what is written to one terminal is not part of the input of another; interleaved '
        'histories use utf-8, utf-16-le, shift_jis, gb18030 with replace / ignore / strict (malformed bytes only under replace)',
    ], wall_s=ctx.wall(), violations=nviol + (extra if nviol else 0))
    return status


# ---------------------------------------------------------------------------------------------
# replay
# ---------------------------------------------------------------------------------------------
def replay(ctx):
    d = json.load(open(ctx.replay))
    c = d['case']
    if 'fsm_session' in c:
        from . import fsmlib
        v = fsmlib.replay_case(ctx, c)
        if v != 'ok':
            print('VIOLATION property=%s replay=%s' % (ctx.pid, ctx.replay))
            return 1
        return 0
    kind = c['kind']
    R, C = c['rows'], c['cols']
    col = Collector()
    print('replaying %s (%s) on %dx%d' % (kind, d['clause'], R, C))
    if kind == 'screen-transition':
        screen_transition(Objects(), R, C, st_unjson(c['pre']), c['action'], tuple(c['args']), c['variant'],
                          [st_unjson(e) for e in c['expected']], col)
    elif kind == 'screen-rejected':
        screen_rejected(Objects(), R, C, st_unjson(c['pre']), c['action'], tuple(c['args']), c['reject'], col)
    elif kind == 'screen-accessor':
        st = st_unjson(c['state'])
        variant = SVARIANTS[c['variant'] % len(SVARIANTS)]
        o = Objects().get(SCR.screen, R, C, variant[0])
        load_screen(o, st, variant[2])
        got = str(o) if c['accessor'] == 'str' else getattr(o, c['accessor'])(*c['args'])
        print('   %s(%s) returned %r, the definition over the grid gives %r' % (c['accessor'], c['args'], got, c['expected']))
        if got != c['expected']:
            col.add(d['clause'], c, {'returned': repr(got)}, {})
    elif kind == 'ansi-transition':
        ansi_transition(Objects(), R, C, st_unjson(c['pre']), c['sym'], c['variant'], [st_unjson(e) for e in c['expected']], col)
    elif kind == 'chunking':
        units = [arg_unjson(u) for u in c['units']]
        chunk_case(R, C, c['syms'], c['enc'], c['form'], units, col, 3, 1, random.Random(0), only_cuts=c['cuts'])
    elif kind == 'ansi-multi':
        for line in describe_multi(c['hist']):
            print('   ' + line)
        t = multi_case(R, C, c['hist'], col, 'replay')
        v, _ = validate(ctx, [{'id': 'replay', 'ev': t['ev']}], R, C, 'replay', procs=1)
        print('   TLC verdict: %s at event %d' % v['replay'])
        for e in t['ev'][:v['replay'][1]]:
            print('     ', json.dumps(e)[:300])
        if v['replay'][0] != 'ok' and not v['replay'][0].startswith('drift'):
            col.add(v['replay'][0], c, {'event_index': v['replay'][1] - 1}, {})
    elif kind in ('screen-trace', 'ansi-trace'):
        if kind == 'screen-trace':
            ev = run_screen_script(R, C, c['enc'], [tuple(s) for s in c['script']], c.get('errors', 'replace'))
        else:
            units = [arg_unjson(u) for u in c['units']]
            ev = run_feed(R, C, c['enc'], [(dd, [c['syms'][k] for k in done]) for dd, done in pieces_of(units, c['cuts'], c['form'])])
        v, _ = validate(ctx, [{'id': 'replay', 'ev': ev}], R, C, 'replay', procs=1)
        print('   TLC verdict: %s at event %d' % v['replay'])
        for e in ev[:v['replay'][1]]:
            print('     ', json.dumps(e)[:300])
        if v['replay'][0] != 'ok' and not v['replay'][0].startswith('drift'):
            col.add(v['replay'][0], c, {'event_index': v['replay'][1] - 1}, {})
    else:
        raise tlc.TLCError('unknown replay kind %s' % kind)
    for clause, case, detail, sig in col.fail:
        if clause.startswith(ctx.pid + ':'):
            ctx.fail(clause, case, detail, sig)
    if not ctx.failures:
        print('   the case no longer fails')
    status, _, _ = common.conclude(ctx)
    return status


def run(ctx):
    pid = ctx.pid
    os.chdir(ctx.work)      # the emulator appends to ./log on unknown sequences
    if ctx.replay:
        return replay(ctx)
    print('[%s] %s - tier %s seed %d' % (pid, DESCR[pid], ctx.tier, ctx.seed), flush=True)
    return run_c19(ctx) if pid == 'C19' else run_c18(ctx)

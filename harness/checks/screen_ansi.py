"""C18 (ANSI emulator) and C19 (screen operations).

 1. TLC: spec/Screen.tla (C19) and spec/AnsiFsm.tla (C18) are model checked; invariants Shape,
    CursorOnScreen, SavedOnScreen, RegionValid, AccessorsAgree, Laws / NoResidue, Total, StackShape;
    per-action coverage guards against vacuity.
 2. spec -> code, transition coverage: the state graph of small configurations is dumped
    (-dump dot,actionlabels) and EVERY transition (pre-state, action with arguments, post-state)
    becomes one implementation test on the real pexpect.screen.screen / pexpect.ANSI.ANSI object
    built in the pre-state; the full projected state afterwards must be one of the post-states TLC
    computed.  C19 also calls every read accessor in every state of the graph and compares with
    the table TLC evaluated from the accessor definitions (spec/ScreenAccessors.tla).
 3. code -> spec: runs of the real objects (TLC -simulate behaviours and seeded grammar-generated
    input under every split into <= 4 pieces; seeded random operation / input sequences on 24x80
    and odd sizes) are recorded and validated by TLC against spec/ScreenAnsiTrace.tla.
 4. binding self-test: a corrupted expected post-state / a corrupted recorded observation must be
    noticed.

C18 reports only what its statement forbids: an exception, a broken grid shape, a cursor off the
screen, parser residue after a completed sequence, and dependence on the chunking.  A transition
of the real emulator that merely disagrees with AnsiFsm is followed up (line feeds, reverse
indexes, printables are fed to the diverged object): if the stated property breaks, that concrete
input is the violation; if not, the disagreement is counted as SPEC-DRIFT.
"""
import json, multiprocessing, os, random, re, time, warnings
from array import array
from collections import Counter
from .. import tlc, tracecheck, evidence, common

with warnings.catch_warnings():
    warnings.simplefilter('ignore')
    from pexpect import screen as SCR
    from pexpect import ANSI

NPROC = 8
MAXFAIL = 40            # failing cases kept per clause and worker

DESCR = {'C18': 'ANSI emulator: total, shape-preserving, chunk-independent',
         'C19': 'screen operations do what is documented and nothing else'}

# ---------------------------------------------------------------------------------------------
# configurations
# ---------------------------------------------------------------------------------------------
# state graphs dumped for the per-transition tests: (rows, cols, chars, slack, maxlevel[, maxstack])
DUMPS = {
    ('C19', 'quick'): [(1, 1, 'Chars3', 2, 0), (1, 2, 'Chars3', 2, 0), (2, 1, 'Chars3', 2, 0), (2, 2, 'Chars2', 1, 0)],
    ('C19', 'thorough'): [(1, 1, 'Chars3', 2, 0), (1, 2, 'Chars3', 2, 0), (2, 1, 'Chars3', 2, 0), (1, 3, 'Chars3', 2, 0),
                          (3, 1, 'Chars3', 2, 0), (2, 2, 'Chars3', 1, 0), (3, 2, 'Chars2', 1, 3), (2, 3, 'Chars2', 1, 3)],
    ('C18', 'quick'): [(1, 1, 'Chars3', 1, 0, 3), (1, 2, 'Chars3', 1, 0, 2), (2, 1, 'Chars3', 1, 0, 2), (2, 2, 'Chars3', 1, 9, 3)],
    ('C18', 'thorough'): [(1, 1, 'Chars3', 1, 0, 3), (1, 2, 'Chars3', 1, 0, 3), (2, 1, 'Chars3', 1, 0, 3),
                          (2, 2, 'Chars2', 1, 0, 2), (2, 2, 'Chars3', 1, 11, 3), (3, 2, 'Chars3', 1, 9, 3)],
}
MC_CFG = {('C19', 'quick'): ['MCScreen_quick.cfg'], ('C19', 'thorough'): ['MCScreen_thorough.cfg', 'MCScreen_thorough2.cfg'],
          ('C18', 'quick'): ['MCAnsi_quick.cfg'], ('C18', 'thorough'): ['MCAnsi_thorough.cfg', 'MCAnsi_thorough2.cfg']}

SCREEN_ACTIONS = ['Put', 'PutAbs', 'Insert', 'InsertAbs', 'Fill', 'FillRegion', 'Cr', 'Lf', 'Crlf', 'Newline', 'CursorHome',
                  'CursorForcePosition', 'CursorBack', 'CursorDown', 'CursorForward', 'CursorUp', 'CursorUpReverse',
                  'CursorSave', 'CursorSaveAttrs', 'CursorUnsave', 'CursorRestoreAttrs', 'ScrollScreen', 'ScrollScreenRows',
                  'ScrollDown', 'ScrollUp', 'EraseEndOfLine', 'EraseStartOfLine', 'EraseLine', 'EraseDown', 'EraseUp',
                  'EraseScreen']
METHOD = {'Put': 'put', 'PutAbs': 'put_abs', 'Insert': 'insert', 'InsertAbs': 'insert_abs', 'Fill': 'fill',
          'FillRegion': 'fill_region', 'Cr': 'cr', 'Lf': 'lf', 'Crlf': 'crlf', 'Newline': 'newline', 'CursorHome': 'cursor_home',
          'CursorForcePosition': 'cursor_force_position', 'CursorBack': 'cursor_back', 'CursorDown': 'cursor_down',
          'CursorForward': 'cursor_forward', 'CursorUp': 'cursor_up', 'CursorUpReverse': 'cursor_up_reverse',
          'CursorSave': 'cursor_save', 'CursorSaveAttrs': 'cursor_save_attrs', 'CursorUnsave': 'cursor_unsave',
          'CursorRestoreAttrs': 'cursor_restore_attrs', 'ScrollScreen': 'scroll_screen', 'ScrollScreenRows': 'scroll_screen_rows',
          'ScrollDown': 'scroll_down', 'ScrollUp': 'scroll_up', 'EraseEndOfLine': 'erase_end_of_line',
          'EraseStartOfLine': 'erase_start_of_line', 'EraseLine': 'erase_line', 'EraseDown': 'erase_down', 'EraseUp': 'erase_up',
          'EraseScreen': 'erase_screen'}
CHAR_OPS = {'Put', 'PutAbs', 'Insert', 'InsertAbs', 'Fill', 'FillRegion'}

# how the cell class "y" and character arguments are made concrete: (encoding of the object, str/bytes argument, the character)
SVARIANTS = [(None, 'str', 'y'), ('latin-1', 'str', u'\xe9'), ('latin-1', 'bytes', u'\xe9'), ('utf-8', 'str', u'€'),
             ('utf-8', 'bytes', u'€'), ('cp437', 'bytes', u'█'), ('latin-1', 'bytes', 'y'), ('utf-8', 'bytes', u'\U0001f600'),
             ('cp437', 'str', '#')]
# ... and for the emulator additionally the entry point
AVARIANTS = [(None, 'str', 'y', 'write'), ('latin-1', 'str', u'\xe9', 'write'), ('latin-1', 'bytes', u'\xe9', 'write'),
             ('utf-8', 'bytes', u'€', 'write'), ('utf-8', 'bytes', u'\U0001f600', 'process'), ('cp437', 'bytes', u'█', 'write'),
             ('latin-1', 'str', '\t', 'process'), ('utf-8', 'str', 'Z', 'process_list'), ('latin-1', 'bytes', '\x00', 'write'),
             ('utf-8', 'str', '\x7f', 'write'), ('latin-1', 'bytes', 'u', 'process_list')]
SYMCHR = {'ESC': '\x1b', 'CR': '\r', 'LF': '\n', 'BS': '\x08'}
HUGE_STR = ['%d', '99', '65536', '4294967296', '1' + '0' * 30]
ANSI_STATES = ['INIT', 'ESC', 'G0SCS', 'G1SCS', 'GRAPHICS_POUND', 'ELB', 'MODECRAP', 'MODECRAP_NUM', 'NUMBER_1', 'SEMICOLON',
               'NUMBER_2', 'SEMICOLON_X', 'NUMBER_X']


def huge_of(R, C):
    return max(R, C, 2) + 2


# ---------------------------------------------------------------------------------------------
# TLC state graph (dot) -> arrays
# ---------------------------------------------------------------------------------------------
_NODE = re.compile(r'^(-?\d+) \[label="(.*?)",(?:style = filled\]|tooltip=")')
_EDGE = re.compile(r'^(-?\d+) -> (-?\d+) \[label="(.*?)",color=')
_ENV = {'__builtins__': {}, 'TRUE': True, 'FALSE': False}


def tla_value(txt):
    return eval(txt.replace('<<>>', '()').replace('<<', '(').replace('>>', ',)'), _ENV)


def parse_state(label):
    """'/\\\\ cur = <<1, 1>>\\n/\\\\ grid = ...' -> (grid, cur, saved, region[, fsm, stack])"""
    d = {}
    for part in label.split('\\n'):
        part = part.replace('\\"', '"')
        k, v = part[4:].split(' = ', 1)
        d[k] = tla_value(v)
    st = (d['grid'], d['cur'], d['saved'], d['region'])
    if 'fsm' in d:
        st += (d['fsm'], d['stack'])
    return st


def parse_label(label):
    label = label.replace('\\"', '"')
    i = label.find('(')
    if i < 0:
        return label, ()
    return label[:i], tla_value('<<' + label[i + 1:-1] + '>>')


class Graph(object):
    def __init__(self, path):
        ids, self.states, labs = {}, [], {}
        self.labels = []
        self.pre, self.post, self.lab = array('l'), array('l'), array('l')
        self.init = None
        with open(path) as f:
            for line in f:
                m = _EDGE.match(line)
                if m:
                    a, b, l = m.group(1), m.group(2), m.group(3)
                    for x in (a, b):
                        if x not in ids:
                            ids[x] = len(ids)
                            self.states.append(None)
                    li = labs.get(l)
                    if li is None:
                        li = labs[l] = len(self.labels)
                        self.labels.append(parse_label(l))
                    self.pre.append(ids[a]); self.post.append(ids[b]); self.lab.append(li)
                    continue
                m = _NODE.match(line)
                if m:
                    x = m.group(1)
                    if x not in ids:
                        ids[x] = len(ids)
                        self.states.append(None)
                    self.states[ids[x]] = parse_state(m.group(2))
                    if self.init is None and 'style = filled' in line:
                        self.init = ids[x]
        if any(s is None for s in self.states):
            raise tlc.TLCError('state graph %s: node without a label' % path)
        # nondeterministic steps: (pre, label) -> set of allowed post-states
        self.nd = {}
        for i in range(len(self.pre)):
            n = self.labels[self.lab[i]]
            if n[0] == 'ScrollScreenRows' or (n[0] == 'Feed' and n[1][0] == 'r'):
                self.nd.setdefault((self.pre[i], self.lab[i]), set()).add(self.post[i])

    def expected(self, i):
        k = (self.pre[i], self.lab[i])
        if k in self.nd:
            return [self.states[j] for j in sorted(self.nd[k])]
        return [self.states[self.post[i]]]


def dump_cfg(ctx, pid, conf):
    R, C, chars, slack, maxlevel = conf[:5]
    consts = [('Rows', '= %d' % R), ('Cols', '= %d' % C), ('Chars', '<- ' + chars), ('Slack', '= %d' % slack),
              ('MaxLevel', '= %d' % maxlevel)]
    invs = ['Shape', 'CursorOnScreen', 'SavedOnScreen', 'RegionValid']
    cons = ['LevelBound']
    if pid == 'C18':
        consts.append(('MaxStack', '= %d' % conf[5]))
        invs += ['FsmTypeOK', 'NoResidue', 'Total', 'StackShape']
        cons.append('StackBound')
    else:
        invs += ['AccessorsAgree', 'Laws']
    name = '%s_%dx%d_%s_l%d' % (pid, R, C, chars, maxlevel)
    p = os.path.join(ctx.work, name + '.cfg')
    tlc.write_cfg(p, spec='SSpec' if pid == 'C19' else 'ASpec', constants=consts, invariants=invs, constraints=cons)
    return name, p


def dump_graph(ctx, pid, conf):
    name, cfg = dump_cfg(ctx, pid, conf)
    dot = os.path.join(ctx.work, name + '.dot')
    res = tlc.run('MCScreen' if pid == 'C19' else 'MCAnsi', cfg, ctx.work, workers=NPROC, timeout=1500,
                  extra=['-dump', 'dot,actionlabels', dot], outname=name + '.out')
    if not res['ok']:
        raise tlc.TLCError('%s: TLC failed on the reference model (violated=%s), see %s' % (name, res['violated'], res['out']))
    g = Graph(dot)
    os.remove(dot)
    if len(g.states) != res['distinct'] or len(g.pre) != res['generated'] - 1:
        raise tlc.TLCError('%s: dumped graph has %d states / %d transitions, TLC reports %d / %d' % (
            name, len(g.states), len(g.pre), res['distinct'], res['generated'] - 1))
    return g, res


# ---------------------------------------------------------------------------------------------
# the real objects: build in a state, project the state
# ---------------------------------------------------------------------------------------------
class Objects(object):
    """one real object per (class, size, encoding), reused (fields are overwritten before every test)"""

    def __init__(self):
        self.cache = {}

    def get(self, cls, R, C, enc):
        k = (cls, R, C, enc)
        o = self.cache.get(k)
        if o is None:
            with warnings.catch_warnings():
                warnings.simplefilter('ignore')
                o = self.cache[k] = cls(R, C, encoding=enc)
        return o


def load_screen(o, st, ych):
    o.w = [[ych if ch == 'y' else ch for ch in row] for row in st[0]]
    o.cur_r, o.cur_c = st[1]
    o.cur_saved_r, o.cur_saved_c = st[2]
    o.scroll_row_start, o.scroll_row_end = st[3]
    if o.decoder is not None:
        o.decoder.reset()


def numstr(n, huge, style):
    if n >= huge:
        s = HUGE_STR[style % len(HUGE_STR)]
        return s % huge if '%' in s else s
    return ('0' * (style % 3)) + str(n)


def load_ansi(o, st, ych, huge, style):
    load_screen(o, st, ych)
    o.state.current_state = st[4]
    o.state.memory = [o] + [numstr(n, huge, style + i) for i, n in enumerate(st[5])]
    o.state.input_symbol = None
    o.state.next_state = None


def grid_shape_ok(w, R, C):
    if type(w) is not list or len(w) != R:
        return False
    for row in w:
        if type(row) is not list or len(row) != C:
            return False
        for ch in row:
            if type(ch) is not str or len(ch) != 1:
                return False
    return True


def proj_screen(o, ych, strict):
    """abstract state of the real object; the grid must have been checked with grid_shape_ok"""
    if strict:
        g = tuple(tuple(ch if ch == ' ' or ch == 'x' else 'y' if ch == ych else '?' + ch for ch in row) for row in o.w)
    else:
        g = tuple(tuple(ch if ch == ' ' or ch == 'x' else 'y' for ch in row) for row in o.w)
    return (g, (o.cur_r, o.cur_c), (o.cur_saved_r, o.cur_saved_c), (o.scroll_row_start, o.scroll_row_end))


def proj_parser(o, huge):
    """(fsm state, stack capped at huge, memory[0] is the emulator and the rest are digit strings)"""
    mem = o.state.memory
    head = type(mem) is list and len(mem) >= 1 and mem[0] is o
    try:
        stack = tuple(min(int(x), huge) for x in mem[1:]) if all(type(x) is str and x.isdigit() for x in mem[1:]) else None
    except Exception:
        stack = None
    return o.state.current_state, stack, head


def raw_state(o):
    d = {'w': repr(getattr(o, 'w', None))[:400], 'cur': [o.cur_r, o.cur_c], 'saved': [o.cur_saved_r, o.cur_saved_c],
         'region': [o.scroll_row_start, o.scroll_row_end]}
    if hasattr(o, 'state'):
        d['fsm'] = o.state.current_state
        d['memory'] = [repr(x)[:40] for x in o.state.memory[1:]] if type(o.state.memory) is list else repr(o.state.memory)[:80]
    return d


def on_screen(p, R, C):
    return type(p[0]) is int and type(p[1]) is int and 1 <= p[0] <= R and 1 <= p[1] <= C


class Collector(object):
    """failures / counters gathered inside a worker process"""

    def __init__(self):
        self.fail = []
        self.nfail = Counter()
        self.count = Counter()
        self.drift = []

    def add(self, clause, case, detail, signature):
        self.nfail[clause] += 1
        if self.nfail[clause] <= MAXFAIL:
            self.fail.append((clause, case, detail, signature))

    def merge(self, other):
        self.fail += other.fail
        self.nfail.update(other.nfail)
        self.count.update(other.count)
        self.drift += other.drift[:20]


# ---------------------------------------------------------------------------------------------
# C19: one implementation test per transition of the Screen graph
# ---------------------------------------------------------------------------------------------
def char_arg(ch, variant):
    enc, form, ych = variant
    c = ych if ch == 'y' else ch
    return c.encode(enc) if form == 'bytes' else c


def screen_calls(name, args, variant):
    """the python calls that spell this action: [(method, args)]; default arguments are separate spellings"""
    m = METHOD[name]
    a = list(args)
    if name in CHAR_OPS:
        ch = a[-1]
        a[-1] = char_arg(ch, variant)
    calls = [(m, tuple(a))]
    if name in ('Fill', 'FillRegion') and args[-1] == ' ':
        calls.append((m, tuple(a[:-1])))
    if name == 'CursorHome':
        if args[1] == 1:
            calls.append((m, (args[0],)))
        if args == (1, 1):
            calls.append((m, ()))
    if name in ('CursorBack', 'CursorDown', 'CursorForward', 'CursorUp') and args == (1,):
        calls.append((m, ()))
    return calls


def classify_screen(method, pre, expected, got):
    """name the first field in which the observed post-state is outside what the reference allows"""
    P = 'C19:' + method
    if not any(e[0] == got[0] for e in expected):
        want = expected[0][0]
        for r, row in enumerate(got[0]):
            for c, ch in enumerate(row):
                if ch != want[r][c] and want[r][c] == pre[0][r][c]:
                    return P + '-frame'
        return P + '-effect'
    if not any(e[1] == got[1] for e in expected):
        return P + '-cursor'
    if not any(e[2] == got[2] for e in expected):
        return P + '-saved-cursor'
    if not any(e[3] == got[3] for e in expected):
        return P + '-region'
    return P + '-state'


def st_json(st):
    d = {'grid': [''.join(r) for r in st[0]], 'cur': list(st[1]), 'saved': list(st[2]), 'region': list(st[3])}
    if len(st) > 4:
        d['fsm'], d['stack'] = st[4], list(st[5])
    return d


def st_unjson(d):
    st = (tuple(tuple(r) for r in d['grid']), tuple(d['cur']), tuple(d['saved']), tuple(d['region']))
    if 'fsm' in d:
        st += (d['fsm'], tuple(d['stack']))
    return st


def arg_json(a):
    return {'bytes': list(a)} if isinstance(a, bytes) else a


def arg_unjson(a):
    return bytes(a['bytes']) if isinstance(a, dict) else a


def screen_transition(objs, R, C, pre, name, args, vi, expected, col):
    variant = SVARIANTS[vi % len(SVARIANTS)]
    o = objs.get(SCR.screen, R, C, variant[0])
    ych = variant[2]
    for m, cargs in screen_calls(name, args, variant):
        col.count['evaluations'] += 1
        load_screen(o, pre, ych)
        case = {'kind': 'screen-transition', 'rows': R, 'cols': C, 'pre': st_json(pre), 'action': name, 'args': list(args),
                'variant': vi, 'call': '%s(%s)' % (m, ', '.join(repr(x) for x in cargs)),
                'expected': [st_json(e) for e in expected]}
        sig = {'method': m, 'rows': R, 'cols': C}
        try:
            getattr(o, m)(*cargs)
        except Exception as e:
            col.add('C19:%s-raised' % m, case, {'exception': '%s: %s' % (type(e).__name__, e), 'observed': raw_state(o)}, sig)
            continue
        if not grid_shape_ok(o.w, R, C):
            col.add('C19:%s-shape' % m, case, {'observed': raw_state(o)}, sig)
            continue
        got = proj_screen(o, ych, True)
        if got not in expected:
            col.add(classify_screen(m, pre, expected, got), case, {'observed': st_json(got)}, sig)
        elif got != pre:
            col.count['nontrivial'] += 1


_G = {}


def _screen_worker(rng_):
    lo, hi = rng_
    g, R, C = _G['graph'], _G['R'], _G['C']
    os.chdir(_G['cwd'])
    col, objs = Collector(), Objects()
    for i in range(lo, hi):
        name, args = g.labels[g.lab[i]]
        screen_transition(objs, R, C, g.states[g.pre[i]], name, args, i, g.expected(i), col)
    return col


def _accessor_worker(rng_):
    lo, hi = rng_
    g, R, C, table = _G['graph'], _G['R'], _G['C'], _G['table']
    os.chdir(_G['cwd'])
    col, objs = Collector(), Objects()
    seen = set()
    for i in range(lo, hi):
        vi = i % len(SVARIANTS)
        full = (g.states[i][0], vi) not in seen
        seen.add((g.states[i][0], vi))
        accessor_test(objs, R, C, g.states[i], vi, table, col, full, random.Random(_G['seed'] * 1000003 + i))
    return col


def conc(v, ych):
    """concrete value of an abstract accessor value (sequence of cell classes / nested)"""
    return ''.join(ych if x == 'y' else x for x in v)


def accessor_test(objs, R, C, st, vi, table, col, full, rng, only=None):
    variant = SVARIANTS[vi % len(SVARIANTS)]
    o = objs.get(SCR.screen, R, C, variant[0])
    ych = variant[2]
    ent = table['by_grid'][st[0]]
    ra, ca = table['rowargs'], table['colargs']
    load_screen(o, st, ych)
    todo = [('get', (), conc([ent['get'][st[1][0] - 1][st[1][1] - 1]], ych)),
            ('dump', (), conc(ent['dump'], ych)), ('str', (), conc(ent['str'], ych)), ('pretty', (), conc(ent['pretty'], ych))]
    for i, r in enumerate(ra):
        for j, c in enumerate(ca):
            todo.append(('get_abs', (r, c), conc([ent['get_abs'][i][j]], ych)))
    quads = [(i, j, k, m) for i in range(len(ra)) for j in range(len(ca)) for k in range(len(ra)) for m in range(len(ca))]
    if not full:
        quads = rng.sample(quads, min(12, len(quads)))
    for i, j, k, m in quads:
        todo.append(('get_region', (ra[i], ca[j], ra[k], ca[m]), [conc(row, ych) for row in ent['get_region'][i][j][k][m]]))
    for name, a, want in todo:
        if only and (name, list(a)) != only:
            continue
        col.count['evaluations'] += 1
        case = {'kind': 'screen-accessor', 'rows': R, 'cols': C, 'state': st_json(st), 'variant': vi, 'accessor': name,
                'args': list(a), 'expected': want}
        sig = {'method': name, 'rows': R, 'cols': C}
        try:
            got = str(o) if name == 'str' else getattr(o, name)(*a)
        except Exception as e:
            col.add('C19:accessor-%s-raised' % name, case, {'exception': '%s: %s' % (type(e).__name__, e)}, sig)
            load_screen(o, st, ych)
            continue
        if got != want or type(got) is not type(want):
            col.add('C19:accessor-%s' % name, case, {'returned': repr(got)}, sig)
        else:
            col.count['nontrivial'] += 1
        if not grid_shape_ok(o.w, R, C) or proj_screen(o, ych, True) != st[:4]:
            col.add('C19:accessor-%s-changed-the-screen' % name, case, {'observed': raw_state(o)}, sig)
            load_screen(o, st, ych)


def accessor_table(ctx, conf):
    R, C, chars, slack = conf[:4]
    name = 'acc_%dx%d_%s' % (R, C, chars)
    cfg = tlc.write_cfg(os.path.join(ctx.work, name + '.cfg'), spec='AccSpec', constants=[
        ('Rows', '= %d' % R), ('Cols', '= %d' % C), ('Chars', '<- ' + chars), ('Slack', '= %d' % slack)])
    out = os.path.join(ctx.work, name + '.json')
    res = tlc.run('ScreenAccessors', cfg, ctx.work, workers=2, timeout=600, env={'OUT_FILE': out}, outname=name + '.out')
    if not res['ok'] or not os.path.exists(out):
        raise tlc.TLCError('ScreenAccessors %dx%d: TLC failed (the accessor definitions disagree?), see %s' % (R, C, res['out']))
    t = json.load(open(out))
    os.remove(out)
    t['by_grid'] = {tuple(tuple(r) for r in e['grid']): e for e in t['table']}
    return t


def pool_map(fn, n, shared):
    """run fn over [0, n) split into chunks, in forked workers that inherit `shared`"""
    _G.clear()
    _G.update(shared)
    if n == 0:
        return Collector()
    step = max(1, min(20000, (n + NPROC * 4 - 1) // (NPROC * 4)))
    ranges = [(i, min(n, i + step)) for i in range(0, n, step)]
    total = Collector()
    if n < 2000:
        for r in ranges:
            total.merge(fn(r))
        return total
    ctxm = multiprocessing.get_context('fork')
    with ctxm.Pool(NPROC) as pool:
        for col in pool.imap_unordered(fn, ranges):
            total.merge(col)
    return total


# ---------------------------------------------------------------------------------------------
# C18: one implementation test per transition of the AnsiFsm graph
# ---------------------------------------------------------------------------------------------
def sym_text(sym, variant):
    """concrete text of a symbol under a variant: str or bytes"""
    enc, form, ych = variant[:3]
    c = SYMCHR.get(sym) or (ych if sym == 'y' else sym)
    return c.encode(enc) if form == 'bytes' else c


def feed(o, data, api):
    if api == 'process':
        o.process(data)
    elif api == 'process_list':
        o.process_list(data)
    else:
        o.write(data)


def ansi_invariants(o, R, C, exc, completed):
    """the clauses of C18 that need no reference state; None when they hold"""
    if exc is not None:
        return 'C18:raised'
    if not grid_shape_ok(o.w, R, C):
        return 'C18:shape'
    if not (on_screen((o.cur_r, o.cur_c), R, C)):
        return 'C18:cursor'
    if completed:
        mem = o.state.memory
        if o.state.current_state != 'INIT' or type(mem) is not list or len(mem) != 1 or mem[0] is not o:
            return 'C18:residue'
    return None


def followups(R, C):
    return [['LF'] * (R + 1), ['ESC', 'M'] * (R + 1), ['x'] * (R * C + 1), ['ESC', '[', 'H'] + ['LF'] * (R + 1),
            ['ESC', '[', 'H', 'ESC', 'M', 'ESC', 'M']]


def snapshot(o):
    return ([list(r) if type(r) is list else r for r in o.w] if type(o.w) is list else o.w, o.cur_r, o.cur_c, o.cur_saved_r,
            o.cur_saved_c, o.scroll_row_start, o.scroll_row_end, o.state.current_state, list(o.state.memory))


def restore(o, s):
    o.w = [list(r) if type(r) is list else r for r in s[0]] if type(s[0]) is list else s[0]
    (o.cur_r, o.cur_c, o.cur_saved_r, o.cur_saved_c, o.scroll_row_start, o.scroll_row_end) = s[1:7]
    o.state.current_state = s[7]
    o.state.memory = list(s[8])
    if o.decoder is not None:
        o.decoder.reset()


def consequence(o, R, C):
    """the real emulator left the reference: does the stated property break on ordinary further input?"""
    snap = snapshot(o)
    for fu in followups(R, C):
        restore(o, snap)
        for k, sym in enumerate(fu):
            exc = None
            try:
                o.write(SYMCHR.get(sym, sym))
            except Exception as e:
                exc = e
            bad = ansi_invariants(o, R, C, exc, False)
            if bad:
                return bad, fu[:k + 1], ('%s: %s' % (type(exc).__name__, exc)) if exc else None
    return None, None, None


def ansi_transition(objs, R, C, pre, sym, vi, expected, col, fixed_followup=None):
    variant = AVARIANTS[vi % len(AVARIANTS)]
    enc, form, ych, api = variant
    o = objs.get(ANSI.ANSI, R, C, enc)
    huge = huge_of(R, C)
    style = vi // len(AVARIANTS)
    load_ansi(o, pre, ych, huge, style)
    data = sym_text(sym, variant)
    col.count['evaluations'] += 1
    case = {'kind': 'ansi-transition', 'rows': R, 'cols': C, 'pre': st_json(pre), 'sym': sym, 'variant': vi,
            'input': repr(data), 'memory': [repr(x) for x in o.state.memory[1:]], 'expected': [st_json(e) for e in expected]}
    sig = {'sym': sym, 'fsm': pre[4], 'rows': R, 'cols': C}
    exc = None
    try:
        feed(o, data, api)
    except Exception as e:
        exc = e
    completed = all(e[4] == 'INIT' for e in expected)
    bad = ansi_invariants(o, R, C, exc, completed)
    if bad:
        col.add(bad, case, {'exception': ('%s: %s' % (type(exc).__name__, exc)) if exc else None, 'observed': raw_state(o)}, sig)
        return
    got = proj_screen(o, ych, False)
    f, stack, head = proj_parser(o, huge)
    if head and stack is not None and (got + (f, stack)) in expected:
        if got + (f, stack) != pre:
            col.count['nontrivial'] += 1
        return
    # disagreement with AnsiFsm that keeps the stated property so far: follow it up
    observed = raw_state(o)
    bad, fu, why = consequence(o, R, C)
    if bad:
        case['followup'] = fu
        col.add(bad, case, {'after_symbol': observed, 'exception': why, 'observed': raw_state(o),
                            'note': 'state after the symbol is outside the reference; the follow-up input then breaks the property'}, sig)
    else:
        col.count['drift'] += 1
        col.drift.append({'case': case, 'observed': observed})


def _ansi_worker(rng_):
    lo, hi = rng_
    g, R, C = _G['graph'], _G['R'], _G['C']
    os.chdir(_G['cwd'])
    col, objs = Collector(), Objects()
    for i in range(lo, hi):
        name, args = g.labels[g.lab[i]]
        ansi_transition(objs, R, C, g.states[g.pre[i]], args[0], i, g.expected(i), col)
    return col


# ---------------------------------------------------------------------------------------------
# recording runs of the real objects for ScreenAnsiTrace
# ---------------------------------------------------------------------------------------------
def abstract_rows(w):
    return [[ch if ch == ' ' or ch == 'x' else 'y' for ch in row] for row in w]


class Recorder(object):
    def __init__(self, o, R, C, ansi):
        self.o, self.R, self.C, self.ansi = o, R, C, ansi
        self.prev = [[' '] * C for _ in range(R)]
        self.huge = huge_of(R, C)

    def obs(self, exc):
        o, R, C = self.o, self.R, self.C
        w = o.w
        nrows = len(w) if type(w) is list else -1
        cellsok = type(w) is list and all(type(row) is list and len(row) == C and all(type(ch) is str and len(ch) == 1 for ch in row)
                                          for row in w)
        rows = []
        if cellsok and nrows == R:
            cur = abstract_rows(w)
            rows = [[i + 1, cur[i]] for i in range(R) if cur[i] != self.prev[i]]
            self.prev = cur
        d = {'raised': type(exc).__name__ if exc is not None else '', 'nrows': nrows, 'cellsok': bool(cellsok), 'rows': rows,
             'cur': [int(o.cur_r), int(o.cur_c)], 'saved': [int(o.cur_saved_r), int(o.cur_saved_c)],
             'region': [cap32(o.scroll_row_start), cap32(o.scroll_row_end)], 'fsm': 'INIT', 'stack': [], 'memhead': True}
        if self.ansi:
            mem = o.state.memory
            d['fsm'] = str(o.state.current_state)
            d['memhead'] = bool(type(mem) is list and len(mem) >= 1 and mem[0] is o
                                and all(type(x) is str and x.isdigit() for x in mem[1:]))
            d['stack'] = [min(int(x), 1000000) for x in mem[1:]] if d['memhead'] else [-1]
        return d


def cap32(n):
    return max(-1000000, min(1000000, int(n)))


def proj_ret(name, v):
    """accessor return value -> JSON value over the abstract alphabet (structure characters kept)"""
    def cls(ch):
        return ch if ch in ' x\n+-|' else 'y'
    if name in ('get', 'get_abs'):
        return cls(v) if type(v) is str and len(v) == 1 else 'bad:' + repr(v)
    if name == 'get_region':
        if type(v) is list and all(type(s) is str for s in v):
            return [[cls(ch) for ch in s] for s in v]
        return 'bad:' + repr(v)[:60]
    return [cls(ch) for ch in v] if type(v) is str else 'bad:' + repr(v)[:60]


YPOOL = ['y', 'Z', u'\xe9', '#', '~', u'\xff']          # encodable in latin-1; never ' ', 'x', '+', '-', '|', newline


def run_screen_script(R, C, enc, script):
    """script: [('op', action, args, ch|None) | ('acc', name, args)] with concrete characters -> trace events"""
    with warnings.catch_warnings():
        warnings.simplefilter('ignore')
        o = SCR.screen(R, C, encoding=enc)
    rec = Recorder(o, R, C, False)
    ev = []
    for step in script:
        exc = None
        if step[0] == 'op':
            _, action, args, ch = step
            m = METHOD[action]
            a = list(args) + ([arg_unjson(ch)] if ch is not None else [])
            try:
                getattr(o, m)(*a)
            except Exception as e:
                exc = e
            if ch is None:
                cc = ''
            else:
                try:
                    t = ch if isinstance(ch, str) else arg_unjson(ch).decode(enc)
                except Exception:
                    t = '?'
                cc = t if t in (' ', 'x') else 'y'
            ev.append({'k': 'op', 'm': m, 'op': action, 'a': list(args), 'ch': cc, 'obs': rec.obs(exc)})
        else:
            _, name, args = step
            ret = None
            cur = [o.cur_r, o.cur_c]
            try:
                ret = str(o) if name == 'str' else getattr(o, name)(*args)
            except Exception as e:
                exc = e
            ev.append({'k': 'acc', 'm': name, 'a': list(args), 'ret': proj_ret(name, ret) if exc is None else 'raised',
                       'obs': rec.obs(exc)})
        if exc is not None:
            break
    return ev


def random_screen_script(rng, R, C, enc, nops):
    def coord(n):
        return rng.choice([rng.randint(1, n), rng.randint(1, n), 0, 1, n, n + 1, -1, n + 3, rng.randint(-5, n + 5), 10 ** 5, -10 ** 5])

    def count(n):
        return rng.choice([1, 1, 0, rng.randint(0, n), n, n + 1, -1, rng.randint(-3, n + 3), 10 ** 5])

    def char():
        c = rng.choice(['x', 'x', ' ', rng.choice(YPOOL), rng.choice(YPOOL)])
        if enc is not None and rng.random() < 0.5:
            try:
                return arg_json(c.encode(enc))
            except UnicodeEncodeError:
                return c
        return c
    script = []
    # start from a busy screen so that frame conditions are visible
    if rng.random() < 0.8:
        for _ in range(rng.randint(1, 4)):
            script.append(('op', 'FillRegion', [coord(R), coord(C), coord(R), coord(C)], char()))
    for _ in range(nops):
        x = rng.random()
        if x < 0.18:
            name = rng.choice(['get', 'get_abs', 'get_region', 'dump', 'str', 'pretty'])
            args = {'get_abs': lambda: [coord(R), coord(C)], 'get_region': lambda: [coord(R), coord(C), coord(R), coord(C)]}.get(
                name, lambda: [])()
            script.append(('acc', name, args))
            continue
        a = rng.choice(SCREEN_ACTIONS)
        if a in ('Put', 'Insert', 'Fill'):
            script.append(('op', a, [], char()))
        elif a in ('PutAbs', 'InsertAbs'):
            script.append(('op', a, [coord(R), coord(C)], char()))
        elif a == 'FillRegion':
            script.append(('op', a, [coord(R), coord(C), coord(R), coord(C)], char()))
        elif a in ('CursorHome', 'CursorForcePosition'):
            script.append(('op', a, [coord(R), coord(C)], None))
        elif a in ('CursorBack', 'CursorForward'):
            script.append(('op', a, [count(C)], None))
        elif a in ('CursorDown', 'CursorUp'):
            script.append(('op', a, [count(R)], None))
        elif a == 'ScrollScreenRows':
            script.append(('op', a, [coord(R), coord(R)], None))
        else:
            script.append(('op', a, [], None))
    return script


# ----- emulator input: symbols <-> concrete text --------------------------------------------------
Y_STR = ['y', 'Z', '~', '\t', '\x00', '\x7f', 'u', 's', u'\xe9', u'€', u'\U0001f600', u'█']
Y_BYTES = {'utf-8': [b'y', b'Z', b'\t', b'\x00', u'\xe9'.encode('utf-8'), u'€'.encode('utf-8'), u'\U0001f600'.encode('utf-8'),
                     b'\xff', b'\x80'],
           'latin-1': [b'y', b'Z', b'\x00', b'\xe9', b'\xff', b'\x80', b'\x9b'],
           'cp437': [b'y', b'~', b'\x82', b'\xdb', b'\xff']}


def concretize(rng, syms, enc, form):
    """-> list of per-symbol str or bytes"""
    out = []
    for s in syms:
        if s == 'y':
            out.append(rng.choice(Y_BYTES[enc]) if form == 'bytes' else rng.choice(
                [c for c in Y_STR if enc is None or form == 'str']))
        else:
            c = SYMCHR.get(s, s)
            out.append(c.encode('ascii') if form == 'bytes' else c)
    return out


def run_feed(R, C, enc, pieces):
    """pieces: [(data, [symbols completed by this piece])] -> trace events (one feed event per piece)"""
    with warnings.catch_warnings():
        warnings.simplefilter('ignore')
        o = ANSI.ANSI(R, C, encoding=enc)
    rec = Recorder(o, R, C, True)
    ev = []
    for data, syms in pieces:
        exc = None
        try:
            o.write(data)
        except Exception as e:
            exc = e
        ev.append({'k': 'feed', 'syms': list(syms), 'obs': rec.obs(exc)})
        if exc is not None:
            break
    return ev


def pieces_of(units, cuts, form):
    """units: per-symbol data; cuts: sorted offsets into the concatenation (chars for str, bytes for bytes)"""
    whole = (b'' if form == 'bytes' else '').join(units)
    ends, n = [], 0
    for u in units:
        n += len(u)
        ends.append(n)
    bounds = [0] + list(cuts) + [len(whole)]
    out, k = [], 0
    for a, b in zip(bounds, bounds[1:]):
        done = []
        while k < len(ends) and ends[k] <= b:
            done.append(k)
            k += 1
        out.append((whole[a:b], done))
    return out


def all_cuts(n, maxcuts, limit, rng):
    """every set of <= maxcuts cut points in 1..n-1 when there are at most `limit`, else all single cuts + a sample"""
    import itertools
    pos = list(range(1, n))
    sets = [()]
    for k in range(1, maxcuts + 1):
        sets += list(itertools.combinations(pos, k))
        if len(sets) > limit * 20:
            break
    if len(sets) <= limit:
        return sets
    single = [s for s in sets if len(s) <= 1]
    rest = [s for s in sets if len(s) > 1]
    return single + rng.sample(rest, max(0, limit - len(single)))


def sim_symbols(ctx, R, C, num, depth, seed):
    """symbol sequences of TLC -simulate behaviours of MCAnsi!SimSpec"""
    d = os.path.join(ctx.work, 'sim_%dx%d' % (R, C))
    os.makedirs(d, exist_ok=True)
    cfg = tlc.write_cfg(os.path.join(ctx.work, 'sim_%dx%d.cfg' % (R, C)), spec='SimSpec', constants=[
        ('Rows', '= %d' % R), ('Cols', '= %d' % C), ('Chars', '<- Chars3'), ('Slack', '= 1'), ('MaxLevel', '= 0'), ('MaxStack', '= 9')],
        invariants=['Shape', 'CursorOnScreen', 'NoResidue', 'Total'])
    res = tlc.run('MCAnsi', cfg, ctx.work, workers=1, timeout=600, simulate='file=%s/t,num=%d' % (d, num), depth=depth, seed=seed,
                  outname='sim_%dx%d.out' % (R, C))
    if res['violated'] or res['machinery_error'] or res['timed_out']:
        raise tlc.TLCError('simulation of MCAnsi failed: %s' % res['out'])
    out = []
    pat = re.compile(r'^\\\* <SimFeed\((.*?)\) line', re.M)
    for fn in sorted(os.listdir(d)):
        txt = open(os.path.join(d, fn)).read()
        syms = [json.loads(x) for x in pat.findall(txt)]
        if syms:
            out.append(syms)
        os.remove(os.path.join(d, fn))
    return out, res


# grammar-based input: well-formed sequences with parameters from {0, 1, in-range, == size, > size, huge},
# unknown and truncated sequences, controls, printables
def param(rng, n):
    return rng.choice(['0', '1', str(rng.randint(1, max(1, n))), str(n), str(n + 1), str(n + 2), '007', '99', '65536',
                       '4294967296', '1' + '0' * 25, '00'])


def random_input(rng, R, C, nitems):
    syms = []
    for _ in range(nitems):
        x = rng.random()
        if x < 0.30:
            syms += rng.choice([['x'], ['x', 'x', 'x'], ['y'], [' '], ['x'] * rng.randint(1, C + 2), ['y', 'x'], ['LF'], ['CR'],
                                ['BS'], ['CR', 'LF'], ['LF'] * rng.randint(1, R + 1)])
        elif x < 0.40:
            syms += ['ESC', rng.choice(['7', '8', 'M', 'M', '>', '<', '=', 'y'])] if rng.random() < 0.8 else \
                ['ESC', rng.choice(['(', ')', '#']), rng.choice(['A', 'B', '0', '1', '2', 'y', 'x'])]
        elif x < 0.52:
            syms += ['ESC', '[', rng.choice(['H', 'D', 'B', 'C', 'A', 'J', 'K', 'r', 'm', 'y', 'f', 'l'])]
        elif x < 0.70:
            n = R if rng.random() < 0.5 else C
            syms += ['ESC', '['] + list(param(rng, n)) + [rng.choice(['D', 'B', 'C', 'A', 'J', 'K', 'l', 'm', 'q', 'y', 'H', 'r'])]
        elif x < 0.88:
            syms += ['ESC', '['] + list(param(rng, R)) + [';'] + list(param(rng, rng.choice([R, C]))) + \
                [rng.choice(['H', 'f', 'r', 'r', 'm', 'q', 'y', 'A', ';'])]
        elif x < 0.93:
            syms += ['ESC', '[', '?'] + list(param(rng, 50)) + [rng.choice(['h', 'l', 'y'])]
        elif x < 0.97:
            k = rng.randint(3, 5)
            syms += ['ESC', '['] + sum([list(param(rng, 9)) + [';'] for _ in range(k)], [])[:-1] + [rng.choice(['m', 'q', 'H', 'y'])]
        else:
            syms += rng.choice([['ESC'], ['ESC', '['], ['ESC', '[', '1'], ['ESC', '[', '1', ';'], ['ESC', '[', '?'], ['ESC', '(']])
    return syms

"""C05: deadlines.

 1. TLC checks spec/Deadline.tla (expect_loop's remaining-time arithmetic, the -1/None/0
    conventions of every entry point, waitnoecho) for every arrival schedule in the bound, and
    that the named deviations (an entry point forgetting the -1 mapping, a per-read instead of
    an overall timeout) are caught.
 2. The read_nonblocking level: the transport models (PtyRead, FdRead, SockRead) with
    timeouts {None, 0, T} - every single-call interleaving replayed on the real transports,
    including the pty child that closes its terminal but keeps running.
 3. Timed executions of every entry point on the real transports under the virtual clock
    (peer output placed at chosen virtual times relative to the deadline) are recorded and
    validated by TLC against DeadlineTrace: the C05 clauses are evaluated by TLC on the
    observation, and the execution must also be a behaviour of Deadline (else SPEC-DRIFT).
"""
import itertools, json, os, random, re, sys, time, traceback
from multiprocessing import Pool
import pexpect
from .. import tlc, evidence, common
from ..world import PtyWorld, FdWorld, SockWorld, PopenWorld, WouldBlock
from ..budget import Hung, wall_budget, ReadBound, pmap, CASE_BUDGET
from . import transport as TR

NONE, DEFAULT = -1000, -1
INST_T = 2
ENTRIES = ['expect', 'expect_exact', 'expect_list', 'expect_loop', 'read_nonblocking', 'waitnoecho']
TRANSPORTS = ['pty', 'pipe', 'socket', 'popen']
FD_KINDS = ('pipe', 'pty', 'sockfd', 'fifo', 'tcp')
MAX_READS = 5000       # read_nonblocking calls per call of an entry point (the longest legitimate wait: 14 ticks of 20 polls)
WALL_BUDGET = 15       # seconds of wall-clock time per call (they take milliseconds)


def make_world(transport, workdir, k=0):
    if transport == 'pty':
        return PtyWorld(workdir, use_poll=bool(k % 2))
    if transport == 'pipe':
        return FdWorld(workdir, kind=FD_KINDS[k % len(FD_KINDS)], use_poll=bool((k // len(FD_KINDS)) % 2))
    if transport == 'tcpfd':
        # the descriptor on which the peer can wake the wait without data (urgent data), select() and poll() flavour
        return FdWorld(workdir, kind='tcp', use_poll=bool(k % 2))
    if transport == 'socket':
        return SockWorld(workdir, user_timeout=None)
    if transport == 'popen':
        return PopenWorld(workdir)
    raise ValueError(transport)


def execute(args):
    try:
        with wall_budget(CASE_BUDGET):
            return execute_(args)
    except Hung:
        workdir, tid, transport, entry, targ, start, events, k = args
        return {'id': tid, 'entry': entry, 'targ': targ, 'start': start, 'events': [list(e) for e in events], 'transport': transport, 'k': k,
                'error': 'the case did not finish within %d s (world construction / peer synchronisation)' % CASE_BUDGET}


def execute_(args):
    """run one timed schedule on a real transport; returns the trace record"""
    workdir, tid, transport, entry, targ, start, events, k = args
    tick = 0.1 if entry == 'waitnoecho' else 1.0
    rec = {'id': tid, 'entry': entry, 'targ': targ, 'start': start, 'events': [list(e) for e in events],
           'transport': transport, 'k': k}
    w = None
    try:
        w = make_world(transport, workdir, k)
        child = w.child
        child.timeout = INST_T * tick
        kinds = [e[1] for e in events if e[1] in ('x', 'm')]
        w.unit = lambda i: kinds[i].encode('ascii') if i < len(kinds) else b'?'
        hang = 'PeerExit' if transport == 'pty' else 'PeerClose'
        lab = {'x': 'PeerWrite(1)', 'm': 'PeerWrite(1)', 'H': hang, 'C': 'PeerCloseTty', 'E': 'EchoOff', 'U': 'PeerUrgent'}
        if entry == 'waitnoecho':
            import termios
            orig_peer = w.peer

            def peer(name, a):
                if name == 'EchoOff':
                    fd = w.slave
                    attr = termios.tcgetattr(fd)
                    attr[3] &= ~termios.ECHO
                    termios.tcsetattr(fd, termios.TCSANOW, attr)
                else:
                    orig_peer(name, a)
            w.peer = peer
            import termios as _t
            attr = _t.tcgetattr(w.slave)
            attr[3] |= _t.ECHO
            _t.tcsetattr(w.slave, _t.TCSANOW, attr)
        w.timed = [(t * tick + w.clock.now, lab[kd]) for t, kd in events]
        base = w.clock.now
        w.clock.set(base + start * tick)                  # everything scheduled up to the call time happens first
        readable = sum(1 for t, kd in events if t <= start and kd in ('x', 'm'))
        arg = {NONE: None, DEFAULT: -1}.get(targ, targ * tick)
        kw = {} if targ == DEFAULT else {'timeout': arg}
        t0 = w.clock.now
        # a call that does not come back is the violation, not a reason to hang: the number of reads of one call is bounded
        # (a loop that spins in virtual time), and so is its wall-clock time (a loop without reads, a blocking system call)
        ReadBound(child, MAX_READS)
        w.active = True
        out, consumed = None, 0
        try:
            with wall_budget(WALL_BUDGET):
                if entry == 'expect':
                    child.expect(b'm', **kw)
                elif entry == 'expect_exact':
                    child.expect_exact(b'm', **kw)
                elif entry == 'expect_list':
                    child.expect_list([re.compile(b'm')], **kw)
                elif entry == 'expect_loop':
                    child.expect_loop(pexpect.expect.searcher_re([re.compile(b'm')]), **kw)
                elif entry == 'read_nonblocking':
                    if transport == 'popen':
                        d = child.read_nonblocking(10, -1 if targ == DEFAULT else arg)
                    else:
                        d = child.read_nonblocking(10, **kw)
                    consumed = len(d)
                    out = 'match' if d else 'TIMEOUT'        # PopenSpawn reports "nothing yet" as an empty read
                elif entry == 'waitnoecho':
                    out = str(child.waitnoecho(**kw))
                if out is None:
                    out = 'match'
        except pexpect.TIMEOUT:
            out = 'TIMEOUT'
        except pexpect.EOF:
            out = 'EOF'
        except WouldBlock:
            out = 'BLOCK'
        except Hung as e:
            out = 'HUNG'
            rec['hung'] = str(e)
        except Exception as e:
            out = 'ERR:' + type(e).__name__
        finally:
            w.active = False
        if entry not in ('read_nonblocking', 'waitnoecho') and not out.startswith(('ERR', 'BLOCK', 'HUNG')):
            if out == 'match':
                consumed = len(child.before or b'') + len(child.after) + len(child.buffer)
            else:
                consumed = len(child.before or b'')          # all pending text = everything read by this call
        rec['obs'] = {'outcome': out, 'elapsed': min(100000, int(round((w.clock.now - t0) / tick))), 'consumed': consumed,
                      'readable': readable, 'elapsed_raw': round(w.clock.now - t0, 4)}
        if out == 'BLOCK':
            rec['obs']['hangup_seen_by'] = TR.hangup_seen_by(w.events)
    except Exception:
        rec['error'] = traceback.format_exc()
    finally:
        if w is not None:
            try:
                w.close()
            except Exception:
                pass
    return rec


def gen_schedules(rng, quick):
    """timed schedules: (entry, targ, start, events)"""
    out = []
    targs = [DEFAULT, NONE, 0, 1, 2]
    times = range(0, 5)
    # exhaustive: up to 2 peer events at every tick 0..4, kinds x/m/H, call at tick 0..2
    evsets = [()]
    for t1 in times:
        for k1 in 'xmH':
            evsets.append(((t1, k1),))
            for t2 in range(t1, 5):
                for k2 in 'xmH':
                    if k1 == 'H':
                        continue
                    evsets.append(((t1, k1), (t2, k2)))
    for entry in ('expect', 'expect_exact', 'expect_list', 'expect_loop'):
        for targ in targs:
            for start in (0, 1):
                for ev in evsets:
                    out.append((entry, targ, start, ev))
    # trickles of non-matching output (the case that tells an overall from a per-read timeout)
    for entry in ('expect', 'expect_exact', 'expect_list', 'expect_loop'):
        for targ in (DEFAULT, 1, 2):
            for n in (3, 4, 5):
                for last in 'xm':
                    ev = tuple((t, 'x') for t in range(1, n)) + ((n, last),)
                    out.append((entry, targ, 0, ev))
    for targ in targs:
        for start in (0, 1):
            for ev in evsets:
                if all(k != 'x' for t, k in ev):
                    out.append(('read_nonblocking', targ, start, ev))
    # the peer wakes the wait without data (urgent data on a TCP descriptor): alone, before / after output or a hang-up
    uvsets = []
    for t1 in times:
        uvsets.append(((t1, 'U'),))
        for t2 in range(t1, 5):
            for k2 in 'xmH':
                uvsets.append(((t1, 'U'), (t2, k2)))
        for t0 in range(0, t1 + 1):
            for k0 in 'xm':
                uvsets.append(((t0, k0), (t1, 'U')))
    for entry in ('expect', 'expect_exact', 'expect_list', 'expect_loop', 'read_nonblocking'):
        for targ in targs:
            for start in (0, 1):
                for ev in uvsets:
                    if entry == 'read_nonblocking' and any(k == 'x' for t, k in ev):
                        continue
                    out.append((entry, targ, start, ev))
    for targ in [DEFAULT, NONE, 0, 2, 3]:
        for start in (0, 1):
            for te in list(range(0, 6)) + [None]:
                out.append(('waitnoecho', targ, start, () if te is None else ((te, 'E'),)))
    # executions that would block for ever are not generated: timeout None needs a terminating event
    def terminates(s):
        entry, targ, start, ev = s
        eff = INST_T if targ == DEFAULT else targ
        if eff != NONE:
            return True
        if entry == 'waitnoecho':
            return any(k == 'E' for t, k in ev)
        return any(k in 'mH' for t, k in ev)
    out = [s for s in out if terminates(s)]
    return out


def wall_case(args):
    """real time, no interposition: a silent (or late-talking) peer, T with a fractional part, select and poll;
    optionally a signal handled by the parent every 50 ms while it waits (the real select()/poll() are interrupted and
    re-entered), or urgent data pending on a TCP descriptor (an exceptional condition, nothing readable)"""
    kind, use_poll, T, talk_at = args[:4]
    signals = len(args) > 4 and args[4]
    import time as _t, threading, signal, socket
    from pexpect import fdpexpect
    res = {'kind': kind, 'use_poll': use_poll, 'T': T, 'talk_at': talk_at, 'signals': bool(signals)}
    nsig = [0]
    try:
        if kind == 'pty':
            child = pexpect.spawn('/bin/sh', ['-c', 'sleep %s; echo m; sleep 5' % talk_at if talk_at else 'sleep 5'], use_poll=use_poll, echo=False)
            closer = lambda: child.close(force=True)
        elif kind == 'tcp-urgent':
            ls = socket.socket(socket.AF_INET, socket.SOCK_STREAM)
            ls.bind(('127.0.0.1', 0))
            ls.listen(1)
            b = socket.create_connection(ls.getsockname())
            a, _ = ls.accept()
            ls.close()
            b.send(b'!', socket.MSG_OOB)
            import select as _sel
            t1 = _t.time()
            while not _sel.select([], [], [a], 0)[2]:
                if _t.time() - t1 > 30:
                    raise RuntimeError('urgent data did not arrive')
                _t.sleep(0.001)
            child = fdpexpect.fdspawn(a.fileno(), use_poll=use_poll)
            th = None
            if talk_at:
                th = threading.Timer(talk_at, lambda: b.sendall(b'm'))
                th.start()
            closer = lambda: (th and th.cancel(), b.close(), a.close())
        else:
            r, w = os.pipe()
            child = fdpexpect.fdspawn(r, use_poll=use_poll)
            th = None
            if talk_at:
                th = threading.Timer(talk_at, lambda: os.write(w, b'm'))
                th.start()
            closer = lambda: (th and th.cancel(), os.close(w), os.close(r))
        if signals:
            def handler(signum, frame):
                nsig[0] += 1
            old = signal.signal(signal.SIGALRM, handler)
            signal.setitimer(signal.ITIMER_REAL, 0.05, 0.05)
        t0 = _t.time()
        try:
            with wall_budget(T + 20):
                child.expect_exact(b'm', timeout=T)
            res['outcome'] = 'match'
        except pexpect.TIMEOUT:
            res['outcome'] = 'TIMEOUT'
        except pexpect.EOF:
            res['outcome'] = 'EOF'
        except Hung:
            res['outcome'] = 'HUNG'
        finally:
            res['elapsed'] = round(_t.time() - t0, 3)
            if signals:
                signal.setitimer(signal.ITIMER_REAL, 0, 0)
                signal.signal(signal.SIGALRM, old)
                res['signals_handled'] = nsig[0]
        closer()
    except Exception:
        res['error'] = traceback.format_exc()
    return res


def wall_clock(ctx, pool):
    jobs = []
    for kind in ('pty', 'pipe'):
        for use_poll in (False, True):
            for T in (0.4, 0.8, 1.5):
                jobs.append((kind, use_poll, T, None))
            jobs.append((kind, use_poll, 0.9, 0.3))
            # signals handled by the parent while it waits
            jobs.append((kind, use_poll, 0.7, None, True))
            jobs.append((kind, use_poll, 0.9, 0.3, True))
    # an exceptional condition on the descriptor while it waits (select() flavour; see make_world for poll())
    for use_poll in (False, True):
        jobs.append(('tcp-urgent', use_poll, 0.6, None))
        jobs.append(('tcp-urgent', use_poll, 0.9, 0.3))
        jobs.append(('tcp-urgent', use_poll, 0.7, None, True))
    outs = pmap(pool, wall_case, jobs, chunksize=1, timeout=600)

    def bad(o):
        if o.get('talk_at'):
            return o['outcome'] != 'match' or o['elapsed'] > o['T']
        return o['outcome'] != 'TIMEOUT' or o['elapsed'] < o['T'] - 0.02 or o['elapsed'] > o['T'] + 1.5
    # wall-clock runs depend on the machine's load: a failing one is repeated twice (alone) and counts only if it fails every time
    for i, o in enumerate(outs):
        if 'error' not in o and bad(o):
            again = [wall_case(jobs[i]) for _ in range(2)]
            if not all('error' not in a and bad(a) for a in again):
                outs[i] = [a for a in again if 'error' in a or not bad(a)][0]
    for o in outs:
        if 'error' in o:
            raise tlc.TLCError('wall-clock run crashed: %s' % o['error'])
        if o['signals'] and o['outcome'] == 'TIMEOUT' and o['elapsed'] >= 0.5 and o['signals_handled'] < 3:
            raise tlc.TLCError('wall-clock run: the interval timer did not interrupt the wait (%s)' % o)
        case = {'wall_clock': True, 'transport': o['kind'], 'use_poll': o['use_poll'], 'T': o['T'], 'peer_talks_at': o['talk_at'],
                'signals': o['signals']}
        sig = {'transport': o['kind'], 'wall_clock': True}
        if o['talk_at']:
            if o['outcome'] != 'match' or o['elapsed'] > o['T']:
                ctx.fail('C05:match-arrived-before-deadline-but-not-reported', case, detail=o, signature=sig)
        else:
            if o['outcome'] == 'HUNG':
                ctx.fail('C05:call-did-not-return', case, detail=o, signature=sig)
            elif o['outcome'] != 'TIMEOUT':
                ctx.fail('C05:other-exception', case, detail=o, signature=sig)
            elif o['elapsed'] < o['T'] - 0.02:
                ctx.fail('C05:timeout-before-deadline', case, detail=o, signature=sig)
            elif o['elapsed'] > o['T'] + 1.5:
                ctx.fail('C05:returned-after-deadline', case, detail=o, signature=sig)
    return len(outs)


def run(ctx):
    if ctx.replay:
        return replay(ctx)
    print('[C05] deadlines - tier %s seed %d' % (ctx.tier, ctx.seed), flush=True)
    quick = ctx.quick()
    # 1. the model
    res = tlc.run('MCDeadline', 'Deadline_quick.cfg' if quick else 'Deadline_thorough.cfg', ctx.work, workers=16,
                  timeout=2400, outname='deadline.out')
    if not res['ok']:
        raise tlc.TLCError('Deadline: %s, see %s' % (res['violated'] or 'TLC failed', res['out']))
    cov = tlc.run('MCDeadline', 'Deadline_cov.cfg', ctx.work, workers=8, timeout=600, coverage=True, outname='deadline_cov.out')
    for act in ('Enter', 'Check', 'Read', 'Waiting', 'Woken', 'Recompute', 'WnePoll', 'WneRecompute', 'Tick', 'PeerEmit', 'PeerHangup', 'PeerEchoOff', 'EnvWake'):
        if cov['coverage'].get(act, (0, 0))[1] == 0:
            raise tlc.TLCError('Deadline: action %s never taken (vacuous run)' % act)
    ctx.note('TLC Deadline: %d distinct states, %d generated, depth %d; Bounded / NotEarly / NoneNeverTimesOut / ZeroStillLooks / '
             'MinusOneIsDefault / MatchBeatsTimeout hold' % (res['distinct'], res['generated'], res['depth']))
    sens = {}
    for dev, inv in (('DevExpectLoop', 'MinusOneIsDefault'), ('DevPerRead', 'Bounded'), ('DevWake', 'NotEarly')):
        txt = open(os.path.join(tlc.SPEC, 'Deadline_quick.cfg')).read().replace('Devs = {}', 'Devs <- ' + dev)
        p = os.path.join(ctx.work, dev + '.cfg')
        open(p, 'w').write(txt)
        r = tlc.run('MCDeadline', p, ctx.work, workers=8, timeout=600, outname=dev + '.out', only=inv)
        if r['violated'] != inv:
            raise tlc.TLCError('Deadline with %s should violate %s, got %s' % (dev, inv, r['violated']))
        sens[dev] = inv
    ctx.note('model sensitivity: ' + ', '.join('%s -> %s violated' % kv for kv in sens.items()))
    # 2. read_nonblocking level on the transport models, timeouts incl. None, incl. behaviours that end blocked
    rng = random.Random(ctx.seed * 131 + 7)
    tstats = {}
    with Pool(14) as pool:
        for tr in ('pty', 'fd', 'socket'):
            T = TR.TRANSPORTS[tr]
            saved = T['consts']
            T['consts'] = (lambda q, f=saved: [(k, ('<- TmosAll' if k == 'Tmos' else v)) for k, v in f(q)])
            try:
                r = TR.run_transport(ctx, pool, tr, include_blocked=True)
            finally:
                T['consts'] = saved
            tstats[tr] = dict(r[2], states=r[0]['distinct'], transitions=r[1].n_edges())
        # 3. timed executions of every entry point
        scheds = gen_schedules(rng, quick)
        jobs = []
        tid = 0
        for s in scheds:
            entry, targ, start, ev = s
            trs = ['pty'] if entry == 'waitnoecho' else TRANSPORTS
            if entry == 'read_nonblocking':
                trs = ['pty', 'pipe', 'socket']      # PopenSpawn.read_nonblocking never waits: "nothing yet" is an empty read
            if any(k == 'U' for t, k in ev):
                trs = ['tcpfd']
            for tr in trs:
                if quick and entry != 'waitnoecho' and rng.random() > 0.12:
                    continue
                jobs.append((ctx.work, tid, tr, entry, targ, start, ev, tid))
                tid += 1
                # the pty child that hangs up its terminal but keeps running
                if tr == 'pty' and any(k == 'H' for t, k in ev) and (not quick or rng.random() < 0.3):
                    ev2 = tuple((t, 'C' if k == 'H' else k) for t, k in ev)
                    jobs.append((ctx.work, tid, tr, entry, targ, start, ev2, tid))
                    tid += 1
        # always there (not sampled): the pty child hangs up its terminal strictly inside the timed wait of the call and stays
        # alive - every entry point x T in {2, None, default} x select / poll (k picks the flavour)
        for entry in ('expect', 'expect_exact', 'expect_list', 'expect_loop', 'read_nonblocking'):
            for targ in (2, NONE, DEFAULT):
                for k in (0, 1):
                    jobs.append((ctx.work, tid, 'pty', entry, targ, 0, ((1, 'C'),), k))
                    tid += 1
        t0 = time.time()
        recs = pmap(pool, execute, jobs, chunksize=4, timeout=1500 if quick else 7200)
        nwall = wall_clock(ctx, pool)
    nurg = sum(1 for j in jobs if j[2] == 'tcpfd')
    ctx.note('%d timed executions of %d entry points on %d transports (fd: pipe / FIFO / pty / socketpair / TCP descriptor x select / poll) in %.0fs; '
             '%d of them on a TCP descriptor whose peer sends urgent data at some tick (the wait is woken without data; select and poll)' % (
                 len(recs), len(ENTRIES), len(TRANSPORTS), time.time() - t0, nurg))
    ctx.note('%d wall-clock runs (pty and pipe, select and poll, T in {0.4, 0.8, 1.5} s with a silent peer, a match arriving 0.3 s into a 0.9 s wait; '
             'the same with SIGALRM handled by the parent every 50 ms while it waits; a TCP descriptor with urgent data pending, select and poll): '
             'TIMEOUT not before T, not later than T + 1.5 s' % nwall)
    errs = [r for r in recs if 'error' in r]
    if errs:
        raise tlc.TLCError('timed execution crashed: %s\n%s' % ({k: errs[0].get(k) for k in ('transport', 'entry', 'targ', 'start', 'events', 'k')}, errs[0]['error']))
    # TLC validates: 'C' (hang-up without exit) is a hang-up for the specification
    traces = [to_trace(r) for r in recs]
    clauses, accepted, st = validate(ctx, traces)
    # a failing real-process execution is re-run twice; it counts only if it fails every time
    suspects = [r for r in recs if clauses[r['id']] != 'ok']
    flaky = 0
    if suspects:
        again = []
        for r in suspects[:400]:
            for rep in (1, 2):
                again.append((ctx.work, 1000000 + 2 * r['id'] + rep - 1, r['transport'], r['entry'], r['targ'], r['start'],
                              [tuple(e) for e in r['events']], r['k']))
        with Pool(14) as pool:
            recs2 = pmap(pool, execute, again, chunksize=2, timeout=1500)
        tr2 = [to_trace(r) for r in recs2 if 'obs' in r]
        cl2, _, _ = validate(ctx, tr2, tag='confirm') if tr2 else ({}, set(), {})
        for r in suspects[:400]:
            ids = (1000000 + 2 * r['id'], 1000000 + 2 * r['id'] + 1)
            if any(cl2.get(i) != clauses[r['id']] for i in ids):
                clauses[r['id']] = 'ok'
                accepted.add(r['id'])
                flaky += 1
        if flaky:
            ctx.note('%d failing execution(s) did not fail again when re-run twice: not counted' % flaky)
    drift = 0
    nontrivial = set()
    from collections import Counter
    cnt = Counter()
    for r in recs:
        v = clauses[r['id']]
        cnt[v] += 1
        if r['events']:
            nontrivial.add(json.dumps([r['entry'], r['targ'], r['start'], r['events']]))
        if v != 'ok':
            ctx.fail(v, {'transport': r['transport'], 'entry': r['entry'], 'targ': r['targ'], 'start': r['start'],
                         'events': r['events'], 'k': r['k']}, detail={'obs': r['obs']},
                     signature={'transport': r['transport'], 'entry': r['entry'], 'targ': r['targ'],
                                'outcome': r['obs']['outcome'], 'hangup_without_exit': any(e[1] == 'C' for e in r['events']),
                                'hangup_seen_by': r['obs'].get('hangup_seen_by')})
        elif r['id'] not in accepted:
            drift += 1
            if drift <= 3:
                ctx.note('SPEC-DRIFT: %s/%s targ=%s start=%s events=%s observed %s not a behaviour of Deadline' % (
                    r['transport'], r['entry'], r['targ'], r['start'], r['events'], r['obs']))
    ctx.note('TLC DeadlineTrace: %d traces, %d states; clause verdicts: %s; %d accepted as behaviours of Deadline, SPEC-DRIFT %d' % (
        len(traces), st['distinct'], ', '.join('%s x%d' % kv for kv in sorted(cnt.items())), len(accepted), drift))
    # binding self-test: a corrupted duration / outcome must be rejected by TLC
    good = [t for t in traces if clauses[t['id']] == 'ok' and t['obs']['outcome'] == 'TIMEOUT' and t['obs']['elapsed'] >= 1]
    import copy
    if common.selftest_possible(ctx, good, 'a TIMEOUT outcome'):
        a = copy.deepcopy(good[0]); a['id'] = 900001; a['obs']['elapsed'] -= 1
        b = copy.deepcopy(good[0]); b['id'] = 900002; b['obs']['elapsed'] += 2
        c2, acc2, _ = validate(ctx, [a, b], tag='selftest')
        if c2[900001] == 'ok' or c2[900002] == 'ok' or acc2:
            raise tlc.TLCError('self-test: corrupted durations accepted: %s %s' % (c2, acc2))
        ctx.note('binding self-test: early TIMEOUT -> %s, late return -> %s' % (c2[900001], c2[900002]))
    ctx.failures = [f for f in ctx.failures if f.clause.startswith('C05:')]
    status, nviol, nknown = common.conclude(ctx)
    evidence.write('C05', ctx.tier, ctx.seed, 'model_checking', {
        'states': res['distinct'] + sum(v['states'] for v in tstats.values()),
        'transitions': res['generated'] + sum(v['transitions'] for v in tstats.values()),
        'traces_validated_against_impl': len(traces) + sum(v['replayed'] for v in tstats.values()),
        'samples': [recs[len(recs) // 3], recs[-1]],
        'evaluations': len(recs) + sum(v['replayed'] for v in tstats.values()),
        'distinct_nontrivial': len(nontrivial),
        'rule': 'timed executions: exhaustive schedules of <= 2 peer events (non-matching chunk, matching chunk, hang-up, urgent data = wake-up without data) at ticks 0..4 '
                'x call at tick 0/1 x timeout in {-1, None, 0, 1, 2} x entry point x transport (quick: sampled), trickles, waitnoecho '
                'with the echo flag cleared at every tick; distinct non-trivial = distinct (entry, timeout, start, events) with at least '
                'one peer event; plus every single-call interleaving of the read_nonblocking models',
        'exhaustive': not quick, 'spec_drift': drift, 'accepted_by_model': len(accepted),
        'clause_verdicts': dict(cnt), 'read_nonblocking_level': tstats, 'deviation_sensitivity': sens,
        'known_findings_hit': nknown,
    }, assumptions=['durations are measured on the virtual clock the harness advances (timed waits and sleeps of the code under test advance it); '
                    'rounding to ticks hides overheads below half a tick (delayafterread)',
                    'signals handled by the parent while it waits: Python itself retries an interrupted select()/poll() (PEP 475), so the EINTR '
                    'branches of select_ignore_interrupts / poll_ignore_interrupts are unreachable; exercised in real time only (wall-clock runs with '
                    'an interval timer), in the model as the EnvWake / Woken actions'],
        wall_s=ctx.wall(), violations=nviol)
    return status


def to_trace(r):
    return {'id': r['id'], 'entry': 'expect' if r['entry'] == 'read_nonblocking' else r['entry'], 'targ': r['targ'],
            'start': r['start'], 'events': [[e[0], 'H' if e[1] == 'C' else e[1]] for e in r['events']],
            'obs': {k: r['obs'][k] for k in ('outcome', 'elapsed', 'consumed', 'readable')}}


_CL = re.compile(r'<<"CLAUSES", (\d+), (\d+), "([^"]*)">>')
_AC = re.compile(r'<<"ACCEPT", (\d+), (\d+)>>')


def validate(ctx, traces, tag='dtrace'):
    """-> ({id: clause verdict}, set of accepted ids, stats)"""
    procs = max(1, min(16, len(traces) // 100))
    parts = [traces[i::procs] for i in range(procs)]
    cfg = tlc.write_cfg(os.path.join(ctx.work, tag + '.cfg'), spec='TraceSpec', constants=[
        ('TArgs', '= {}'), ('InstT', '= %d' % INST_T), ('Entries', '= {}'), ('MaxTime', '= 14'), ('MaxPeer', '= 20'), ('Devs', '= {}')])
    from concurrent.futures import ThreadPoolExecutor

    def one(i):
        tf = os.path.join(ctx.work, '%s.%d.json' % (tag, i))
        json.dump(parts[i], open(tf, 'w'))
        r = tlc.run('DeadlineTrace', cfg, ctx.work, workers=1, timeout=1200, env={'TRACE_FILE': tf}, outname='%s.%d.out' % (tag, i), heap='3g')
        txt = open(r['out'], errors='replace').read()
        cl = {int(m.group(2)): m.group(3) for m in _CL.finditer(txt)}
        ac = set(int(m.group(2)) for m in _AC.finditer(txt))
        if r['machinery_error'] or r['timed_out'] or r['violated'] or len(cl) != len(parts[i]):
            raise tlc.TLCError('DeadlineTrace run failed (%d/%d verdicts): %s' % (len(cl), len(parts[i]), r['out']))
        return cl, ac, r
    clauses, accepted = {}, set()
    dist = 0
    with ThreadPoolExecutor(procs) as ex:
        for cl, ac, r in ex.map(one, range(procs)):
            clauses.update(cl)
            accepted |= ac
            dist += r['distinct']
    return clauses, accepted, {'distinct': dist}


def replay(ctx):
    d = json.load(open(ctx.replay))
    c = d['case']
    if 'schedule' in c:
        return TR.replay(ctx)
    if c.get('wall_clock'):
        o = wall_case((c['transport'], c['use_poll'], c['T'], c['peer_talks_at'], c.get('signals', False)))
        print(json.dumps(o))
        bad = (o['peer_talks_at'] if 'peer_talks_at' in o else o['talk_at'])
        ok = (o['outcome'] == 'match' and o['elapsed'] <= o['T']) if o['talk_at'] else (o['outcome'] == 'TIMEOUT' and o['T'] - 0.02 <= o['elapsed'] <= o['T'] + 0.5)
        if not ok:
            print('VIOLATION property=C05 replay=%s' % ctx.replay)
            return 1
        return 0
    r = execute((ctx.work, 1, c['transport'], c['entry'], c['targ'], c['start'], [tuple(e) for e in c['events']], c.get('k', 0)))
    print(json.dumps(r, indent=1))
    t = {'id': 1, 'entry': 'expect' if r['entry'] == 'read_nonblocking' else r['entry'], 'targ': r['targ'], 'start': r['start'],
         'events': [[e[0], 'H' if e[1] == 'C' else e[1]] for e in r['events']],
         'obs': {k: r['obs'][k] for k in ('outcome', 'elapsed', 'consumed', 'readable')}}
    cl, ac, _ = validate(ctx, [t], tag='replay')
    print('clause verdict:', cl[1], '; behaviour of Deadline:', 1 in ac)
    if cl[1] != 'ok':
        print('VIOLATION property=C05 replay=%s' % ctx.replay)
        return 1
    return 0

"""The FSM library under the ANSI emulator (part of C18: "per-character FSM with exact > any > default
transition precedence", pexpect/FSM.py).

 1. TLC checks spec/FsmLib.tla for EVERY table over 2 states x 2 symbols x 1 action (109 k tables, every input of
    <= 2 symbols and resets): Precedence, ActionSeesBothStates, UndefinedChangesNothing, TableStable; two named
    deviations (any-table consulted first, action run after the state changed) must each be refuted.
 2. Sessions of the real pexpect.FSM.FSM - random tables over 3 states x 3 symbols x 2 actions built with
    add_transition / add_transition_list / add_transition_any / set_default_transition (later calls overriding
    earlier ones, next_state=None meaning "stay"), then process() / process_list() / reset() calls with recording
    action functions - are judged by TLC (spec/FsmTrace.tla, which computes the expected transition with the
    model's own LookupIn).
"""
import copy, os, random
from collections import Counter
from .. import tlc, tracecheck, common

STATES = ['s0', 's1', 's2']
SYMBOLS = ['x', 'y', 'z']
ACTS = ['a', 'b']
TRACE_CONSTS = [('States', '= {"s0", "s1", "s2"}'), ('Symbols', '= {"x", "y", "z"}'), ('Acts', '= {"a", "b"}'),
                ('Initial', '= "s0"'), ('MaxLen', '= 0'), ('Dev', '= "none"')]


def session(rng, tid, FSM, ExceptionFSM):
    calls = []

    def mk(name):
        def action(fsm):
            calls.append({'act': name, 'sym': fsm.input_symbol, 'cur': str(fsm.current_state), 'next': str(fsm.next_state)})
        return action
    actions = {a: mk(a) for a in ACTS}
    initial = rng.choice(STATES)
    f = FSM(initial, memory=[])
    exact, any_, dflt = [], [], {'act': 'absent', 'next': 'absent'}
    for _ in range(rng.randint(0, 7)):
        k = rng.random()
        act = rng.choice(ACTS + ['none'])
        fn = actions.get(act)
        st = rng.choice(STATES)
        nxt = rng.choice(STATES + [None])
        eff = st if nxt is None else nxt             # "The next_state may be set to None in which case the current state will be unchanged"
        if k < 0.45:
            sym = rng.choice(SYMBOLS)
            f.add_transition(sym, st, fn, nxt)
            exact.append({'sym': sym, 'st': st, 'act': act, 'next': eff})
        elif k < 0.6:
            syms = rng.sample(SYMBOLS, rng.randint(1, 3))
            f.add_transition_list(''.join(syms) if rng.random() < 0.5 else syms, st, fn, nxt)
            for sym in syms:
                exact.append({'sym': sym, 'st': st, 'act': act, 'next': eff})
        elif k < 0.8:
            f.add_transition_any(st, fn, nxt)
            any_.append({'st': st, 'act': act, 'next': eff})
        else:
            nd = rng.choice(STATES)
            f.set_default_transition(fn, nd)
            dflt = {'act': act, 'next': nd}
    ev = []

    def observe(op, sym, raised):
        e = {'op': op, 'sym': sym, 'cur': str(f.current_state), 'inp': str(f.input_symbol), 'raised': raised, 'ncalls': len(calls),
             'call': dict(calls[-1]) if calls else {'act': '', 'sym': '', 'cur': '', 'next': ''}}
        ev.append(e)
    for _ in range(rng.randint(1, 8)):
        k = rng.random()
        if k < 0.1:
            f.reset()
            observe('reset', '', '')
        elif k < 0.25:
            # process_list: the same as process() per element - observed per element through a wrapper
            syms = [rng.choice(SYMBOLS) for _ in range(rng.randint(1, 3))]
            for sym in syms:
                raised = ''
                try:
                    f.process_list(sym)
                except ExceptionFSM:
                    raised = 'ExceptionFSM'
                except Exception as e:
                    raised = type(e).__name__
                observe('process', sym, raised)
        else:
            sym = rng.choice(SYMBOLS)
            raised = ''
            try:
                f.process(sym)
            except ExceptionFSM:
                raised = 'ExceptionFSM'
            except Exception as e:
                raised = type(e).__name__
            observe('process', sym, raised)
    return {'id': tid, 'initial': initial, 'exact': exact, 'any': any_, 'def': dflt, 'ev': ev}


def part(ctx):
    """runs as a part of ./check C18; returns a dict of counters for the evidence file"""
    from pexpect.FSM import FSM, ExceptionFSM
    quick = ctx.quick()
    res = tlc.run('FsmLib', 'FsmLib_quick.cfg', ctx.work, workers=8, timeout=1800, outname='fsmlib.out')
    if not res['ok']:
        raise tlc.TLCError('FsmLib: %s, see %s' % (res['violated'] or 'TLC failed', res['out']))
    sens = {}
    for dev, want in (('any_first', 'Precedence'), ('late_action', 'ActionSeesBothStates')):
        txt = open(os.path.join(tlc.SPEC, 'FsmLib_quick.cfg')).read().replace('Dev = "none"', 'Dev = "%s"' % dev)
        p = os.path.join(ctx.work, 'fsmlib_%s.cfg' % dev)
        open(p, 'w').write(txt)
        r = tlc.run('FsmLib', p, ctx.work, workers=4, timeout=900, outname='fsmlib_%s.out' % dev, only=want)
        if r['violated'] not in (want, 'temporal'):
            raise tlc.TLCError('FsmLib with Dev=%s should violate %s, got %s (%s)' % (dev, want, r['violated'], r['out']))
        sens[dev] = want
    ctx.note('TLC FsmLib (pexpect/FSM.py for every table over 2 states x 2 symbols x 1 action, inputs <= 2 symbols, reset): %d distinct '
             'states; Precedence, ActionSeesBothStates, UndefinedChangesNothing, TableStable hold; deviations refuted: %s' % (
                 res['distinct'], ', '.join('%s -> %s' % kv for kv in sorted(sens.items()))))
    rng = random.Random(ctx.seed * 97 + 5)
    traces = [session(rng, i, FSM, ExceptionFSM) for i in range(3000 if quick else 60000)]
    verdicts, st = tracecheck.validate(traces, 'FsmTrace', ctx.work, constants=TRACE_CONSTS, procs=8, tag='fsmtrace', pass_through=True)
    cnt = Counter(v[0] for v in verdicts.values())
    kinds = Counter()
    for t in traces:
        for e in t['ev']:
            kinds['raised' if e['raised'] else e['op']] += 1
    for need in ('process', 'reset', 'raised'):
        if not kinds[need]:
            raise tlc.TLCError('FSM sessions: no %s event in the corpus' % need)
    for t in traces:
        v, at = verdicts[t['id']]
        if v != 'ok':
            ctx.fail(v, {'fsm_session': {k: t[k] for k in ('initial', 'exact', 'any', 'def')}, 'events': t['ev']},
                     detail={'failing_event': at, 'event': t['ev'][at - 1] if at else None}, signature={'part': 'fsm-library'})
    ctx.note('%d sessions of the real FSM class (random tables over 3 states x 3 symbols x 2 actions; %d process / process_list calls, '
             '%d of them undefined transitions, %d resets) judged by TLC (FsmTrace): %s' % (
                 len(traces), kinds['process'] + kinds['raised'], kinds['raised'], kinds['reset'],
                 ', '.join('%s x%d' % kv for kv in sorted(cnt.items()))))
    # binding self-test: a corrupted observation must be rejected
    good = [t for t in traces if verdicts[t['id']][0] == 'ok' and any(e['op'] == 'process' and not e['raised'] and e['ncalls'] for e in t['ev'])]
    if common.selftest_possible(ctx, good, 'an action call'):
        a = copy.deepcopy(good[0]); a['id'] = 'wrong-state'
        for e in a['ev']:
            if e['op'] == 'process' and not e['raised']:
                e['cur'] = [s for s in STATES if s != e['cur']][0]
                break
        b = copy.deepcopy(good[0]); b['id'] = 'late-action'
        for e in b['ev']:
            if e['op'] == 'process' and not e['raised'] and e['ncalls']:
                e['call']['cur'] = 'sX'
                break
        v2, _ = tracecheck.validate([a, b], 'FsmTrace', ctx.work, constants=TRACE_CONSTS, procs=1, tag='fsmself', pass_through=True)
        if v2['wrong-state'][0] == 'ok' or v2['late-action'][0] == 'ok':
            raise tlc.TLCError('FSM self-test: corrupted sessions accepted: %s' % v2)
        ctx.note('binding self-test (FSM library): wrong state after process() -> %s, action saw another state -> %s' % (
            v2['wrong-state'][0], v2['late-action'][0]))
    return {'fsmlib_states': res['distinct'], 'fsm_sessions': len(traces), 'fsm_events': sum(kinds.values()), 'fsm_verdicts': dict(cnt),
            'fsm_deviation_sensitivity': sens}


def replay_case(ctx, case):
    """re-build the table of a reported session, re-run its process() / reset() calls on the real class, judge again"""
    from pexpect.FSM import FSM, ExceptionFSM
    t0 = case['fsm_session']
    calls = []

    def mk(name):
        def action(fsm):
            calls.append({'act': name, 'sym': fsm.input_symbol, 'cur': str(fsm.current_state), 'next': str(fsm.next_state)})
        return action
    actions = {a: mk(a) for a in ACTS}
    f = FSM(t0['initial'], memory=[])
    for e in t0['exact']:
        f.add_transition(e['sym'], e['st'], actions.get(e['act']), e['next'])
    for e in t0['any']:
        f.add_transition_any(e['st'], actions.get(e['act']), e['next'])
    if t0['def']['act'] != 'absent':
        f.set_default_transition(actions.get(t0['def']['act']), t0['def']['next'])
    ev = []
    for e0 in case['events']:
        raised = ''
        if e0['op'] == 'reset':
            f.reset()
        else:
            try:
                f.process(e0['sym'])
            except ExceptionFSM:
                raised = 'ExceptionFSM'
            except Exception as e:
                raised = type(e).__name__
        ev.append({'op': e0['op'], 'sym': e0['sym'], 'cur': str(f.current_state), 'inp': str(f.input_symbol), 'raised': raised,
                   'ncalls': len(calls), 'call': dict(calls[-1]) if calls else {'act': '', 'sym': '', 'cur': '', 'next': ''}})
    tr = dict(t0, id='replay', ev=ev)
    v, _ = tracecheck.validate([tr], 'FsmTrace', ctx.work, constants=TRACE_CONSTS, procs=1, tag='fsmreplay', pass_through=True)
    print('replay verdict (FSM session): %s at event %d' % v['replay'])
    return v['replay'][0]

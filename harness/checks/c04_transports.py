"""C04 on the real transports: every entry point of the expect family driven to EOF and to
TIMEOUT (virtual clock) on pty / fd (pipe, FIFO, pty, socket descriptor; select and poll) / SocketSpawn /
PopenSpawn, in bytes and unicode mode, with the EOF / TIMEOUT markers absent / listed at several positions,
read sizes (maxread) that leave a remainder of the last chunk behind when the stream ends, the call repeated
after EOF (EOF is sticky).  The calls are recorded with harness/recorder.py and validated by TLC against
ExpectTrace, like the scripted-transport corpus.  The single-call interleavings of the PtyRead and FdRead
state graphs are replayed at the expect level (the stream's end is EOF, never TIMEOUT; EOF again afterwards)."""
import itertools, json, random, re, traceback
from multiprocessing import Pool
import pexpect
from pexpect.exceptions import EOF, TIMEOUT
from .. import pat as P
from ..recorder import Recorder, install
from ..world import PtyWorld, FdWorld, SockWorld, PopenWorld, WouldBlock
from ..budget import Hung, wall_budget, ReadBound, pmap, CASE_BUDGET

MAX_READS = 5000       # read_nonblocking calls per call of the expect family (the longest legitimate one: LONG characters one by one)
WALL_BUDGET = 20       # seconds of wall-clock time per call (they take milliseconds)

MAP_B = P.Mapping({'a': 'a', 'b': 'b', 'x': 'x'})
MAP_U = P.Mapping({'a': 'é', 'b': 'b', 'x': 'x'}, unicode_mode=True)
TRANSPORTS = ['pty', 'pipe', 'fifo', 'ptyfd', 'sockfd', 'socket', 'popen']
HAS_POLL = ('pty', 'pipe', 'fifo', 'ptyfd', 'sockfd')
# a long output: a little more than the default maxread (2000) and just under two chunks of PopenSpawn's reader thread
# (1024 each), so that the first default-sized read takes everything and leaves a remainder of 40 characters behind
LONG = 2040


def make_world(tr, workdir, encoding, use_poll=False):
    if tr == 'pty':
        return PtyWorld(workdir, encoding=encoding, use_poll=use_poll)
    if tr in ('pipe', 'fifo', 'ptyfd', 'sockfd'):
        return FdWorld(workdir, kind={'pipe': 'pipe', 'fifo': 'fifo', 'ptyfd': 'pty', 'sockfd': 'sockfd'}[tr], encoding=encoding,
                       use_poll=use_poll)
    if tr == 'socket':
        return SockWorld(workdir, encoding=encoding)
    return PopenWorld(workdir, encoding=encoding)


def expand(stream):
    """'L:<n>' stands for n characters 'abab...' (a long output)"""
    if stream.startswith('L:'):
        return ('ab' * int(stream[2:]))[:int(stream[2:])]
    return stream


def attach_read_log(child):
    child.reads = []
    orig = child.read_nonblocking

    def rn(size=1, timeout=-1):
        try:
            s = orig(size, timeout)
        except EOF:
            child.reads.append(('eof',))
            raise
        except TIMEOUT:
            child.reads.append(('timeout',))
            raise
        except WouldBlock:
            raise
        except BaseException as e:
            child.reads.append(('error', type(e).__name__))
            raise
        child.reads.append(('data', s))
        return s
    child.read_nonblocking = rn


def run_case(args):
    try:
        with wall_budget(CASE_BUDGET):
            return run_case_(args)
    except Hung:
        return {'id': args[1], 'meta': {'transport': args[2], 'stream': args[7]},
                'error': 'the case did not finish within %d s (world construction / peer synchronisation)' % CASE_BUDGET}


def run_case_(args):
    workdir, tid, tr, unicode_mode, ending, entry, pats, stream = args[:8]
    opts = args[8] if len(args) > 8 else {}
    mapping = MAP_U if unicode_mode else MAP_B
    install()
    w = None
    out = {'id': tid, 'meta': {'transport': tr, 'unicode': unicode_mode, 'ending': ending, 'entry': entry, 'pats': pats, 'stream': stream,
                               'opts': opts}}
    try:
        w = make_world(tr, workdir, mapping.encoding if unicode_mode else None, use_poll=bool(opts.get('use_poll')))
        child = w.child
        if opts.get('maxread'):
            child.maxread = opts['maxread']
        attach_read_log(child)
        rec = Recorder(child, mapping)
        raw = mapping.raw(expand(stream))
        if opts.get('cut_tail'):
            # the stream ends inside a multi-byte character (a child killed mid-character, truncated output): the text
            # before it is delivered and the end of the stream is reported as for any other stream
            raw += '\u2596'.encode(mapping.encoding)[:-1]
        data = list(raw)
        w.unit = lambda i: bytes([data[i]]) if i < len(data) else b'?'
        hang = 'PeerExit' if tr == 'pty' else 'PeerClose'
        t0 = w.clock.now
        if opts.get('early'):
            # the peer has written everything and gone before the first call (a command that has already finished)
            if raw:
                w.peer('PeerWrite', [len(raw)])
            if ending == 'eof':
                w.peer(hang, [])
        else:
            w.timed = [(t0 + 0.5, 'PeerWrite(%d)' % len(raw))] if raw else []
            if ending == 'eof':
                w.timed.append((t0 + 1.0, hang))
        child.timeout = 2.0
        w.active = True
        exact = entry == 'expect_exact'
        rec.annot = {'pats': pats}
        conc = [mapping.concrete(p, exact) for p in pats]
        kw = {'timeout': opts['tmo']} if 'tmo' in opts else {}        # a polling call: timeout=0
        bound = ReadBound(child, MAX_READS)
        for rep in range(opts.get('reps', 2) if ending == 'eof' else opts.get('reps', 1)):
            bound.reset()
            try:
              with wall_budget(WALL_BUDGET):
                if entry == 'expect':
                    child.expect(conc, **kw)
                elif entry == 'expect_exact':
                    child.expect_exact(conc, **kw)
                elif entry == 'expect_list':
                    child.expect_list(child.compile_pattern_list(conc), **kw)
                elif entry == 'read':
                    rec.annot = {'pats': [P.EOFM]}
                    v = child.read()
                    rec.emit(e='flret', fn='read_all', val=rec.ab(v))
                elif entry == 'readline':
                    rec.annot = {'pats': [P.lit(['r', 'n']) if tr != 'popen' else P.lit(['n']), P.EOFM]}
                    v = child.readline()
                    rec.emit(e='flret', fn='readline', val=rec.ab(v))
            except (EOF, TIMEOUT):
                pass
            except Hung as e:
                # the call did not come back: stopped by the harness (judged outside the trace specification)
                out['hung'] = {'call': rep, 'why': str(e), 'timeout': kw.get('timeout', 'default (2.0)')}
                break
            except WouldBlock:
                rec.emit(e='ret', kind='error', idx=-1, raised='WouldBlock', before=[], after=[], afterk='None', buffer=[], mi=-1, mk='None', mok=True, tok=True)
                break
            except Exception as e:
                if not rec.events or rec.events[-1].get('e') != 'ret':
                    rec.emit(e='ret', kind='error', idx=-1, raised=type(e).__name__, before=[], after=[], afterk='None', buffer=[], mi=-1, mk='None', mok=True, tok=True)
                break
        w.active = False
        # empty reads add nothing: a piped subprocess that has nothing yet; in unicode mode a read that ended inside a character
        ev = []
        for e in rec.events:
            if e['e'] == 'read' and not e['d'] and (tr == 'popen' or unicode_mode):
                continue
            ev.append(e)
        out['ev'] = ev
    except Exception:
        out['error'] = traceback.format_exc()
    finally:
        if w is not None:
            try:
                w.close()
            except Exception:
                pass
    return out


def corpus(ctx, pool):
    rng = random.Random(ctx.seed * 59 + 3)
    lists = [
        [P.lit('x')], [P.lit('x'), P.EOFM], [P.TMOM, P.lit('x')], [P.EOFM, P.lit('x'), P.TMOM], [P.lit('ab'), P.TMOM, P.EOFM],
        [P.lit('b')], [P.EOFM], [P.TMOM],
    ]
    jobs = []
    tid = 0
    for tr in TRANSPORTS:
        for uni in (False, True):
            for ending in ('eof', 'timeout'):
                for entry in ('expect', 'expect_exact', 'expect_list', 'read', 'readline'):
                    for pl in (lists if entry.startswith('expect') else [None]):
                        for stream in ('', 'ab', 'aab'):
                            if ctx.quick() and rng.random() > 0.35:
                                continue
                            # select / poll: alternating (the stream's end is a hang-up alone on a pipe / FIFO that holds no data)
                            opts = {'use_poll': bool(tid % 2)} if tr in HAS_POLL else {}
                            jobs.append((ctx.work, tid, tr, uni, ending, entry, pl or [], stream, opts))
                            tid += 1
    nbase = len(jobs)
    # read sizes that leave a remainder of the last chunk behind when the stream ends (in the kernel; in PopenSpawn's own
    # carry-over buffer): one write larger than maxread and not a multiple of it, then the end of the stream, then the
    # call three times - EOF with all of it in `before`, then EOF again with nothing
    rlists = [[P.lit('x')], [P.lit('x'), P.EOFM], [P.EOFM, P.lit('x'), P.TMOM], [P.TMOM, P.lit('x')]]
    for tr in TRANSPORTS:
        for uni in (False, True):
            for entry in ('expect', 'expect_exact', 'expect_list', 'read', 'readline'):
                for pl in (rlists if entry.startswith('expect') else [None]):
                    for stream, maxread in (('aab', 1), ('aab', 2), ('aabab', 2), ('aabab', 3), ('aababab', 3), ('aababab', 5), ('L:%d' % LONG, None)):
                        if stream.startswith('L:') and (entry == 'expect_list' or (pl is not None and pl is not rlists[1] and pl is not rlists[0])):
                            continue
                        # the output arrives and the stream ends while the first call waits / before the first call
                        for early in (False, True):
                            if ctx.quick() and rng.random() > (0.4 if stream.startswith('L:') else 0.15):
                                continue
                            opts = {'maxread': maxread, 'reps': 3, 'early': early}
                            if tr in HAS_POLL:
                                opts['use_poll'] = bool(tid % 2)
                            jobs.append((ctx.work, tid, tr, uni, 'eof', entry, pl or [], stream, opts))
                            tid += 1
    nrem = len(jobs) - nbase
    # polling calls (timeout=0) while the peer is alive: silent, or with text already readable / arriving later - the
    # outcome is TIMEOUT at once (index if listed, else the exception), `before` is what was readable; twice in a row
    plists = [[P.lit('x')], [P.lit('x'), P.TMOM], [P.TMOM, P.lit('x')], [P.EOFM, P.lit('x'), P.TMOM]]
    for tr in TRANSPORTS:
        for uni in (False, True):
            for entry in ('expect', 'expect_exact', 'expect_list'):
                for pl in plists:
                    for stream in ('', 'ab', 'aab'):
                        for early in (False, True):
                            if ctx.quick() and rng.random() > 0.15:
                                continue
                            opts = {'tmo': 0, 'reps': 2, 'early': early}
                            if tr in HAS_POLL:
                                opts['use_poll'] = bool(tid % 2)
                            jobs.append((ctx.work, tid, tr, uni, 'timeout', entry, pl, stream, opts))
                            tid += 1
    npoll = len(jobs) - nbase - nrem
    # unicode objects whose stream ends inside a multi-byte character
    for tr in TRANSPORTS:
        for entry in ('expect', 'expect_exact', 'expect_list', 'read', 'readline'):
            for pl in ([[P.lit('x')], [P.lit('x'), P.EOFM], [P.EOFM, P.TMOM]] if entry.startswith('expect') else [None]):
                for stream in ('', 'ab'):
                    for early in (False, True):
                        if ctx.quick() and rng.random() > 0.3:
                            continue
                        opts = {'cut_tail': True, 'reps': 2, 'early': early}
                        if tr in HAS_POLL:
                            opts['use_poll'] = bool(tid % 2)
                        jobs.append((ctx.work, tid, tr, True, 'eof', entry, pl or [], stream, opts))
                        tid += 1
    outs = pmap(pool, run_case, jobs, chunksize=4, timeout=1500)
    corpus.counts = (nbase, nrem, npoll, len(jobs) - nbase - nrem - npoll)
    return outs


# ---------------------------------------------------------------------------------------------
def replay_expect(args):
    try:
        with wall_budget(CASE_BUDGET):
            return replay_expect_(args)
    except Hung:
        return {'calls': [], 'error': 'the case did not finish within %d s (world construction / peer synchronisation)' % CASE_BUDGET}


def replay_expect_(args):
    """one PtyRead / FdRead schedule (peer actions placed before the k-th reader system call) under expect():
    expect_exact([never-matching, EOF, TIMEOUT]) for every CallStart of the schedule; then the peer goes away (if it
    has not yet) and the call is made three more times"""
    workdir, schedule, k = args[:3]
    transport = args[3] if len(args) > 3 else 'pty'
    w = None
    out = {'calls': [], 'error': None}
    try:
        if transport == 'pty':
            w = PtyWorld(workdir, use_poll=bool(k))
        else:
            from . import transport as TR
            w = FdWorld(workdir, **TR.fd_variant(k))
        w.schedule = [tuple(x) for x in schedule]
        child = w.child
        bound = ReadBound(child, MAX_READS)

        def one_call(size, tmo, tail=False):
            child.maxread = size
            w.active = True
            rec = {'tmo': tmo, 'written_before': w.written.decode('latin-1'), 'peer_open_before': w.peer_open}
            if tail:
                rec['tail'] = True
            bound.reset()
            try:
                with wall_budget(WALL_BUDGET):
                    i = child.expect_exact([b'\xff\xfe', pexpect.EOF, pexpect.TIMEOUT], timeout=float(tmo))
                rec['kind'] = ('match', 'EOF', 'TIMEOUT')[i]
            except WouldBlock:
                rec['kind'] = 'BLOCK'
            except Hung as e:
                rec['kind'] = 'HUNG'
                rec['why'] = str(e)
            except Exception as e:
                rec['kind'] = 'ERR:' + type(e).__name__
            finally:
                w.active = False
            rec['before'] = (child.before or b'').decode('latin-1')
            rec['written_at_return'] = w.written.decode('latin-1')
            rec['peer_open'] = w.peer_open
            out['calls'].append(rec)
            return rec

        stopped = False
        while True:
            w.skip_to_call()
            if w.pos >= len(w.schedule):
                break
            size, tmo = w.schedule[w.pos][1]
            w.pos += 1
            rec = one_call(size, tmo)
            if rec['kind'] in ('BLOCK', 'HUNG') or rec['kind'].startswith('ERR'):
                stopped = True
                break
        if not stopped:
            w.end_stream()
            w.quiet = True
            for _ in range(3):
                rec = one_call(2, 0, tail=True)
                if rec['kind'] in ('BLOCK', 'HUNG') or rec['kind'].startswith('ERR'):
                    break
        out['written'] = w.written.decode('latin-1')
    except Exception:
        out['error'] = traceback.format_exc()
    finally:
        if w is not None:
            try:
                w.close()
            except Exception:
                pass
    return out


def judge_expect(out):
    """the C04 clauses on what the calls of one expect-level replay reported -> [(clause, call index)]"""
    bad = []
    consumed = ''
    seen_eof = False
    for i, c in enumerate(out['calls']):
        if c['kind'] == 'EOF':
            total = consumed + c['before']
            if seen_eof and c['before']:
                bad.append(('C04:output-delivered-after-eof-was-reported', i))
            elif not seen_eof and (total != c['written_at_return'] or c['peer_open']):
                bad.append(('C04:eof-reported-but-before-does-not-hold-all-output', i))
            consumed = total
            seen_eof = True
        elif c['kind'] == 'TIMEOUT':
            if seen_eof:
                bad.append(('C04:timeout-after-eof-instead-of-eof-again', i))
            elif not c['peer_open_before']:
                # the stream had ended before the call started (the peer had closed / exited): the outcome is EOF - the
                # readable rest and the end of the stream are both there at once on every transport
                bad.append(('C04:stream-ended-but-timeout-reported-instead-of-eof', i))
            # before is all pending text: everything written before the call started must be in it
            if len(consumed + c['before']) < len(c['written_before']):
                bad.append(('C04:timeout-before-does-not-hold-all-pending-text', i))
        elif c['kind'] == 'match':
            bad.append(('C04:match-reported-for-a-pattern-that-cannot-occur', i))
        elif c['kind'] == 'HUNG':
            bad.append(('C04:timeout-0-call-did-not-return' if c['tmo'] == 0 else 'C04:call-did-not-return', i))
        elif c['kind'].startswith('ERR'):
            bad.append(('C04:other-exception-instead-of-eof-or-timeout', i))
    return bad


def interleaved(ctx, pool):
    from . import transport as TR
    from .. import tlc
    total = 0
    interleaved.per = {}
    for transport in ('pty', 'fd'):
        T = TR.TRANSPORTS[transport]
        consts = T['consts'](True)
        res, g = TR.model_graph(ctx, T['module'], transport + '_c04.cfg', consts, T['invs'], transport + '_c04')
        reader = set().union(*T['kinds'].values())
        scheds, nstates, npaths = TR.schedules_from_graph(g, 3, reader, T['inter'])
        rng = random.Random(ctx.seed * 7 + 1)
        cap = (1500 if transport == 'pty' else 2500) if ctx.quick() else 20000
        if len(scheds) > cap:
            scheds = rng.sample(scheds, cap)
        jobs = []
        for k, (root, s_, _proj) in enumerate(scheds):
            if transport == 'pty':
                jobs.append((ctx.work, s_, k % 2, 'pty'))
            else:
                # the bytes-mode fd worlds (descriptor kind x select / poll) this schedule can run in
                vs = [v for v in T['variants_for'](s_) if not TR.fd_variant(v)['encoding']]
                if ctx.quick() and len(vs) > 4:
                    o = (k * 3) % len(vs)
                    vs = (vs[o:] + vs[:o])[::len(vs) // 4][:4]
                for v in vs:
                    jobs.append((ctx.work, s_, v, 'fd'))
        outs = pmap(pool, replay_expect, jobs, chunksize=8, timeout=1500 if ctx.quick() else 7200)
        for job, out in zip(jobs, outs):
            if out['error']:
                raise tlc.TLCError('expect-level replay crashed: %s\n%s' % (job[1], out['error']))
            bad = judge_expect(out)
            if bad:
                # a real process / descriptor is involved: a failing case is re-run twice and counts only if it fails every time
                again = [judge_expect(replay_expect(job)) for _ in range(2)]
                if not all(again):
                    continue
            case = {'transport': transport, 'schedule': job[1], 'k': job[2], 'level': 'expect'}
            if transport == 'fd':
                case['world'] = TR.fd_variant(job[2])
            for clause, i in bad:
                ctx.fail(clause, case, detail={'calls': out['calls'], 'written': out.get('written'), 'call': i},
                         signature={'transport': transport})
        interleaved.per[transport] = len(jobs)
        total += len(jobs)
    return total


def replay_case(ctx, case):
    """--replay of a case of this module: re-execute, judge again"""
    from .. import tracecheck
    from .expect_family import TRACE_CONSTS
    if case.get('level') == 'expect':
        out = replay_expect((ctx.work, case['schedule'], case['k'], case['transport']))
        print(json.dumps(out, indent=1)[:3000])
        bad = judge_expect(out)
        print('failing clauses:', bad)
        return 1 if bad or out['error'] else 0
    m = case['real_transport']
    r = run_case((ctx.work, 'replay', m['transport'], m['unicode'], m['ending'], m['entry'], m['pats'], m['stream'], m.get('opts', {})))
    if 'error' in r:
        print(r['error'])
        return 2
    if 'hung' in r:
        print('the call did not come back: %s' % r['hung'])
        for e in r['ev']:
            print('   ', json.dumps(e)[:300])
        return 1
    if any(e['e'] == 'rerr' for e in r['ev']):
        print('a read failed with another exception than EOF / TIMEOUT although the peer only wrote and went away:')
        for e in r['ev']:
            print('   ', json.dumps(e)[:300])
        return 1
    v, st = tracecheck.validate([r], 'ExpectTrace', ctx.work, constants=TRACE_CONSTS, procs=1, tag='replay')
    names = st['all'].get('replay', [v['replay'][0]])
    print('replay verdict: %s at event %d (all failing clauses: %s)' % (v['replay'][0], v['replay'][1], names))
    for e in r['ev']:
        print('   ', json.dumps(e)[:300])
    return 1 if any(x.startswith('C04:') for x in names) else 0

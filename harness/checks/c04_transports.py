"""C04 on the real transports: every entry point of the expect family driven to EOF and to
TIMEOUT (virtual clock) on pty / fd (pipe, pty, socket descriptor) / SocketSpawn / PopenSpawn, in
bytes and unicode mode, with the EOF / TIMEOUT markers absent / listed at several positions, the
call repeated after EOF (EOF is sticky).  The calls are recorded with harness/recorder.py and
validated by TLC against ExpectTrace, like the scripted-transport corpus."""
import itertools, random, re, traceback
from multiprocessing import Pool
import pexpect
from pexpect.exceptions import EOF, TIMEOUT
from .. import pat as P
from ..recorder import Recorder, install
from ..world import PtyWorld, FdWorld, SockWorld, PopenWorld, WouldBlock

MAP_B = P.Mapping({'a': 'a', 'b': 'b', 'x': 'x'})
MAP_U = P.Mapping({'a': 'é', 'b': 'b', 'x': 'x'}, unicode_mode=True)
TRANSPORTS = ['pty', 'pipe', 'ptyfd', 'sockfd', 'socket', 'popen']


def make_world(tr, workdir, encoding):
    if tr == 'pty':
        return PtyWorld(workdir, encoding=encoding)
    if tr in ('pipe', 'ptyfd', 'sockfd'):
        return FdWorld(workdir, kind={'pipe': 'pipe', 'ptyfd': 'pty', 'sockfd': 'sockfd'}[tr], encoding=encoding)
    if tr == 'socket':
        return SockWorld(workdir, encoding=encoding)
    return PopenWorld(workdir, encoding=encoding)


def attach_read_log(child):
    child.reads = []
    orig = child.read_nonblocking

    def rn(size=1, timeout=-1):
        try:
            s = orig(size, timeout)
        except EOF:
            child.reads.append(('eof',))
            raise
        except TIMEOUT:
            child.reads.append(('timeout',))
            raise
        except WouldBlock:
            raise
        except BaseException as e:
            child.reads.append(('error', type(e).__name__))
            raise
        child.reads.append(('data', s))
        return s
    child.read_nonblocking = rn


def run_case(args):
    workdir, tid, tr, unicode_mode, ending, entry, pats, stream = args
    mapping = MAP_U if unicode_mode else MAP_B
    install()
    w = None
    out = {'id': tid, 'meta': {'transport': tr, 'unicode': unicode_mode, 'ending': ending, 'entry': entry, 'pats': pats, 'stream': stream}}
    try:
        w = make_world(tr, workdir, mapping.encoding if unicode_mode else None)
        child = w.child
        attach_read_log(child)
        rec = Recorder(child, mapping)
        raw = mapping.raw(stream)
        data = list(raw)
        w.unit = lambda i: bytes([data[i]]) if i < len(data) else b'?'
        hang = 'PeerExit' if tr == 'pty' else 'PeerClose'
        t0 = w.clock.now
        w.timed = [(t0 + 0.5, 'PeerWrite(%d)' % len(raw))] if raw else []
        if ending == 'eof':
            w.timed.append((t0 + 1.0, hang))
        child.timeout = 2.0
        w.active = True
        exact = entry == 'expect_exact'
        rec.annot = {'pats': pats}
        conc = [mapping.concrete(p, exact) for p in pats]
        for rep in range(2 if ending == 'eof' else 1):
            try:
                if entry == 'expect':
                    child.expect(conc)
                elif entry == 'expect_exact':
                    child.expect_exact(conc)
                elif entry == 'expect_list':
                    child.expect_list(child.compile_pattern_list(conc))
                elif entry == 'read':
                    rec.annot = {'pats': [P.EOFM]}
                    v = child.read()
                    rec.emit(e='flret', fn='read_all', val=rec.ab(v))
                elif entry == 'readline':
                    rec.annot = {'pats': [P.lit(['r', 'n']) if tr != 'popen' else P.lit(['n']), P.EOFM]}
                    v = child.readline()
                    rec.emit(e='flret', fn='readline', val=rec.ab(v))
            except (EOF, TIMEOUT):
                pass
            except WouldBlock:
                rec.emit(e='ret', kind='error', idx=-1, raised='WouldBlock', before=[], after=[], afterk='None', buffer=[], mi=-1, mk='None', mok=True, tok=True)
                break
            except Exception as e:
                if not rec.events or rec.events[-1].get('e') != 'ret':
                    rec.emit(e='ret', kind='error', idx=-1, raised=type(e).__name__, before=[], after=[], afterk='None', buffer=[], mi=-1, mk='None', mok=True, tok=True)
                break
        w.active = False
        # empty reads of a piped subprocess that has nothing yet are not interesting events
        ev = []
        for e in rec.events:
            if e['e'] == 'read' and not e['d'] and tr == 'popen':
                continue
            ev.append(e)
        out['ev'] = ev
    except Exception:
        out['error'] = traceback.format_exc()
    finally:
        if w is not None:
            try:
                w.close()
            except Exception:
                pass
    return out


def corpus(ctx, pool):
    rng = random.Random(ctx.seed * 59 + 3)
    lists = [
        [P.lit('x')], [P.lit('x'), P.EOFM], [P.TMOM, P.lit('x')], [P.EOFM, P.lit('x'), P.TMOM], [P.lit('ab'), P.TMOM, P.EOFM],
        [P.lit('b')], [P.EOFM], [P.TMOM],
    ]
    jobs = []
    tid = 0
    for tr in TRANSPORTS:
        for uni in (False, True):
            for ending in ('eof', 'timeout'):
                for entry in ('expect', 'expect_exact', 'expect_list', 'read', 'readline'):
                    for pl in (lists if entry.startswith('expect') else [None]):
                        for stream in ('', 'ab', 'aab'):
                            if ctx.quick() and rng.random() > 0.35:
                                continue
                            if ending == 'timeout' and entry in ('read', 'readline') and False:
                                continue
                            jobs.append((ctx.work, tid, tr, uni, ending, entry, pl or [], stream))
                            tid += 1
    outs = pool.map(run_case, jobs, chunksize=4)
    return outs


# ---------------------------------------------------------------------------------------------
def replay_expect(args):
    """one PtyRead schedule (peer actions placed before the k-th reader system call) under expect():
    expect_exact([never-matching, EOF, TIMEOUT]) for every CallStart of the schedule, then one more call"""
    workdir, schedule, use_poll = args
    w = None
    out = {'calls': [], 'error': None}
    try:
        w = PtyWorld(workdir, use_poll=use_poll)
        w.schedule = [tuple(x) for x in schedule]
        child = w.child
        ncalls = 0
        while True:
            w.skip_to_call()
            if w.pos >= len(w.schedule):
                break
            size, tmo = w.schedule[w.pos][1]
            w.pos += 1
            child.maxread = size
            w.active = True
            rec = {'tmo': tmo, 'written_before': w.written.decode('latin-1')}
            try:
                i = child.expect_exact([b'\xff\xfe', pexpect.EOF, pexpect.TIMEOUT], timeout=float(tmo))
                rec['kind'] = ('match', 'EOF', 'TIMEOUT')[i]
            except WouldBlock:
                rec['kind'] = 'BLOCK'
            except Exception as e:
                rec['kind'] = 'ERR:' + type(e).__name__
            finally:
                w.active = False
            rec['before'] = (child.before or b'').decode('latin-1')
            rec['written_at_return'] = w.written.decode('latin-1')
            rec['peer_open'] = w.peer_open
            out['calls'].append(rec)
            if rec['kind'] in ('BLOCK',) or rec['kind'].startswith('ERR'):
                break
        out['written'] = w.written.decode('latin-1')
    except Exception:
        out['error'] = traceback.format_exc()
    finally:
        if w is not None:
            try:
                w.close()
            except Exception:
                pass
    return out


def interleaved(ctx, pool):
    from . import transport as TR
    T = TR.TRANSPORTS['pty']
    consts = T['consts'](True)
    res, g = TR.model_graph(ctx, T['module'], 'pty_c04.cfg', consts, T['invs'], 'pty_c04')
    reader = set().union(*T['kinds'].values())
    scheds, nstates, npaths = TR.schedules_from_graph(g, 3, reader, T['inter'])
    rng = random.Random(ctx.seed * 7 + 1)
    cap = 1500 if ctx.quick() else 20000
    if len(scheds) > cap:
        scheds = rng.sample(scheds, cap)
    jobs = [(ctx.work, s_, bool(k % 2)) for k, (root, s_) in enumerate(scheds)]
    outs = pool.map(replay_expect, jobs, chunksize=8)
    for job, out in zip(jobs, outs):
        if out['error']:
            from .. import tlc
            raise tlc.TLCError('expect-level replay crashed: %s\n%s' % (job[1], out['error']))
        consumed = ''
        seen_eof = False
        for i, c in enumerate(out['calls']):
            case = {'transport': 'pty', 'schedule': job[1], 'use_poll': job[2], 'level': 'expect'}
            if c['kind'] == 'EOF':
                total = consumed + c['before']
                if seen_eof and c['before']:
                    ctx.fail('C04:output-delivered-after-eof-was-reported', case, detail={'calls': out['calls']}, signature={'transport': 'pty'})
                elif not seen_eof and (total != c['written_at_return'] or c['peer_open']):
                    ctx.fail('C04:eof-reported-but-before-does-not-hold-all-output', case,
                             detail={'calls': out['calls'], 'written': out.get('written')}, signature={'transport': 'pty'})
                consumed = total
                seen_eof = True
            elif c['kind'] == 'TIMEOUT':
                if seen_eof:
                    ctx.fail('C04:timeout-after-eof-instead-of-eof-again', case, detail={'calls': out['calls']}, signature={'transport': 'pty'})
                if not c['written_before'].startswith(consumed + c['before'][:0]) :
                    pass
                # before is all pending text: everything written before the call started must be in it
                if len(consumed + c['before']) < len(c['written_before']):
                    ctx.fail('C04:timeout-before-does-not-hold-all-pending-text', case, detail={'calls': out['calls']}, signature={'transport': 'pty'})
            elif c['kind'].startswith('ERR'):
                ctx.fail('C04:other-exception-instead-of-eof-or-timeout', case, detail={'calls': out['calls']}, signature={'transport': 'pty'})
    return len(jobs)

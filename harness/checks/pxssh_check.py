"""C17: pxssh.login().

 1. TLC checks spec/Pxssh.tla (login() as written at the level of dialogue tokens against a
    reactive server) for every server configuration of <= 3 stages x 6 final states x options:
    with the deviations off the five invariants hold; with the code as it is TLC produces the
    witness of the recorded findings (True on a silent server / on a banner containing # or $ when
    neither prompt synchronisation nor prompt reset is requested).
 2. The real login() runs against the scripted server (harness/fakessh.py) for every such
    configuration under the virtual clock; the transcript is validated by TLC (PxsshTrace: the
    property's clauses), and compared with the as-is model's prediction for that configuration
    (result and what the client sent): a difference that breaks no clause is SPEC-DRIFT.
"""
import itertools, json, os, random, re, time
from collections import Counter
import pexpect
from pexpect import pxssh
import pexpect.expect
from .. import tlc, tracecheck, evidence, common
from .. import fakessh
from ..fakessh import FakeServer, FakePxssh, UNIQUE, install_shim, uninstall_shim
from ..vclock import VClock

STAGES = ['banner', 'hostkey', 'password', 'passphrase', 'denied', 'termtype']
FINALS = ['shell_sh', 'shell_csh', 'shell_zsh', 'silent', 'closed', 'exit']


def run_login(tid, stages, final, sync, reset, extra=None, h=None):
    if h is None:
        h = tid if isinstance(tid, int) else 0
    clock = VClock().install(pexpect.expect, pxssh)
    install_shim()
    opts = {'sync_original_prompt': sync, 'auto_prompt_reset': reset}
    if extra:
        opts.update(extra)
    hop, custom = opts.pop('_hop', False), opts.pop('_custom', False)
    echo = opts.pop('_echo', False)
    opts.pop('_expiry', None)
    nlog0 = 0
    if hop:
        # two-hop login on one object: the outer host first, then `ssh inner` typed at its shell
        srv = FakeServer([], 'shell:sh')
        p = FakePxssh(srv, clock)
        if p.login('h', 'user', 'secret', sync_original_prompt=False) is not True:
            raise RuntimeError('fake ssh: the plain first login failed')
        srv.hop = (list(stages), final.replace('shell_', 'shell:'), 'pw-inner')
        nlog0 = len(srv.log)
        who = ('inner', 'me', 'pw-inner')
        opts['spawn_local_ssh'] = False
        if custom:
            opts.update(original_prompt=fakessh.INNER_ORIGINAL_PROMPT, password_regex=fakessh.INNER_PASSWORD_REGEX)
    else:
        srv = FakeServer(list(stages), final.replace('shell_', 'shell:'))
        srv.echo = echo
        p = FakePxssh(srv, clock)
        who = ('h', 'user', 'secret')
        if custom:
            opts.update(original_prompt=fakessh.OUTER_ORIGINAL_PROMPT, password_regex=fakessh.OUTER_PASSWORD_REGEX)
    t0 = clock.now
    ret, exc_ok = None, False
    try:
        r = p.login(*who, **opts)
        ret = 'True' if r is True else repr(r)
    except fakessh.LoginHung:
        ret = 'hung'                 # judged by the clause on the configured timeouts (elapsed is far beyond the bound)
    except pexpect.ExceptionPexpect as e:
        ret = 'raise_' + ('Pxssh' if isinstance(e, pxssh.ExceptionPxssh) else type(e).__name__)
        exc_ok = True
    except Exception as e:
        ret = 'raise_' + type(e).__name__
    elapsed = clock.now - t0
    nlog = len(srv.log)
    cmds = []
    if ret == 'True' and reset and not p.closed:
        # after login prompt() delimits each command's output exactly: commands answered one at a time, and commands
        # typed ahead (several results, short and long, waiting in one read); the server's output in pieces of every size
        words = [('xyz', 'a b', ''), ('w' * 70 + ' end', 'id', ''), ('x', 'y' * 150, 'z' * 3000, 'q'),
                 ('ab', 'cd', 'ef', 'gh', 'ij')][h % 4]
        ahead = (h // 4) % 2 == 1
        p.chunk = [None, 1, 7, 64][(h // 8) % 4]

        def one(word):
            want = ('echo ' + word + '\r\n' if srv.echo else '') + word + '\r\n'
            try:
                ok = p.prompt(timeout=5)
                cmds.append({'ok': bool(ok), 'before': p.before.decode('latin-1') if p.before is not None else None, 'want': want})
            except Exception as e:
                cmds.append({'ok': False, 'before': type(e).__name__, 'want': want})
        try:
            if ahead:
                for word in words:
                    p.sendline('echo ' + word)
                for word in words:
                    one(word)
            else:
                for word in words:
                    p.sendline('echo ' + word)
                    one(word)
        except Exception as e:
            cmds.append({'ok': False, 'before': type(e).__name__, 'want': '<send>'})
        p.chunk = None
    clock.uninstall()
    uninstall_shim()
    ev = []
    for x in srv.log[nlog0:nlog]:
        if x[0] == 'hop' or (hop and x[0] == 'cli' and x[2].startswith('ssh ')):
            continue
        if x[0] == 'srv':
            ev.append({'e': 'srv', 'tok': x[1]})
        else:
            st = x[3]
            ev.append({'e': 'cli', 'kind': x[1], 'at': st if st is not None else 'none'})
    # configured timeouts: login_timeout + 3 expects of the default 30 s + sync (worst case 12 s) + 3 x 10 s + sleeps
    bound = 10 + 3 * 30 + 12 + 30 + 1
    return {'id': tid, 'ev': ev, 'opts': {'sync': sync, 'reset': reset},
            'result': {'ret': ret, 'pexpect_exc': exc_ok, 'srv_state': srv.state if srv.state else 'none',
                       'prompt_unique': srv.prompt == UNIQUE, 'closed': bool(p.closed),
                       'elapsed': int(elapsed + 0.999), 'bound': bound},
            'cmds': cmds,
            'meta': {'stages': list(stages), 'final': final, 'sync': sync, 'reset': reset, 'extra': extra or {}, 'h': h}}


_FINAL = re.compile(r'<< ?"FINAL", (<<.*?>>), "(\w+)", (TRUE|FALSE), (TRUE|FALSE), "(\w+)", (<<.*?>>) ?>>')


def predictions(ctx):
    res = tlc.run('MCPxssh', 'MCPxssh_pred.cfg', ctx.work, workers=1, timeout=900, outname='pxpred.out')
    if res['machinery_error'] or res['timed_out']:
        raise tlc.TLCError('Pxssh prediction run failed: ' + res['out'])
    txt = re.sub(r'\s+', ' ', open(res['out'], errors='replace').read())
    pred = {}
    for m in _FINAL.finditer(txt):
        stages = tuple(re.findall(r'"(\w+)"', m.group(1)))
        sent = tuple(re.findall(r'"(\w+)"', m.group(6)))
        pred[(stages, m.group(2), m.group(3) == 'TRUE', m.group(4) == 'TRUE')] = (m.group(5), sent)
    return pred, res


def run(ctx):
    if ctx.replay:
        return replay(ctx)
    print('[C17] pxssh login - tier %s seed %d' % (ctx.tier, ctx.seed), flush=True)
    mc = tlc.run('MCPxssh', 'MCPxssh.cfg', ctx.work, workers=8, timeout=900, outname='mcpx.out')
    if not mc['ok']:
        raise tlc.TLCError('Pxssh (deviations off): %s, see %s' % (mc['violated'] or 'TLC failed', mc['out']))
    asis = tlc.run('MCPxssh', 'MCPxssh_asis.cfg', ctx.work, workers=1, timeout=900, outname='mcpx_asis.out', only='TrueOnlyAtPrompt')
    if asis['violated'] != 'TrueOnlyAtPrompt':
        raise tlc.TLCError('Pxssh as-is should violate TrueOnlyAtPrompt (recorded finding), got %s' % asis['violated'])
    ctx.note('TLC Pxssh: %d distinct states; PasswordOnlyWhenAsked / PasswordAtMostOnce / YesOnlyToHostKey / TrueOnlyAtPrompt / '
             'OtherwiseRaises hold with the deviations off; with the code as it is TrueOnlyAtPrompt has the recorded witness' % mc['distinct'])
    pred, pres = predictions(ctx)
    rng = random.Random(ctx.seed * 733 + 1)
    configs = []
    for k in range(0, 4):
        for stages in itertools.product(STAGES, repeat=k):
            for final in FINALS:
                for sync in (False, True):
                    for reset in (False, True):
                        configs.append((stages, final, sync, reset))
    if ctx.quick():
        configs = rng.sample(configs, 2500)
    t0 = time.time()
    traces = [run_login(i, *c) for i, c in enumerate(configs)]
    # option variants on a sample: quiet / port / ssh_key=True / terminal type / longer login_timeout
    extras = [{'quiet': False}, {'port': 2222}, {'ssh_key': True}, {'terminal_type': 'vt100'}, {'login_timeout': 3}, {'check_local_ip': False}]
    for j, c in enumerate(rng.sample(configs, 300 if ctx.quick() else 1500)):
        traces.append(run_login(len(traces), *c, extra=extras[j % len(extras)]))
    # caller-supplied password_regex / original_prompt (what the options exist for: a message of the day that mentions
    # "password:", prompts of a known form), on a first login and on a second login through a jump host on the same object
    # (login(spawn_local_ssh=False)); the server may be slow ('wait': what follows arrives in a later read)
    stages2 = ['notice', 'wait', 'hostkey', 'password', 'termtype', 'banner']
    cfg2 = []
    for k in range(0, 4):
        for st in itertools.product(stages2, repeat=k):
            for final in FINALS:
                cfg2.append((st, final))
    nhop = 0
    for st, final in (rng.sample(cfg2, 700) if ctx.quick() else cfg2):
        for hop in (False, True):
            sync, reset = rng.random() < 0.5, rng.random() < 0.7
            traces.append(run_login(len(traces), st, final, sync, reset, extra={'_hop': hop, '_custom': True}))
            nhop += 1
    # the remote terminal echoes what is typed at the shell (as a real one does)
    for c in rng.sample(configs, 500 if ctx.quick() else 3000):
        traces.append(run_login(len(traces), *c, extra={'_echo': True}))
        nhop += 1
    # a message of the day that mentions "password" without asking for it (and has a colon further on), default patterns:
    # nothing is typed in answer to it
    for stages, final, sync, reset in rng.sample(configs, 400 if ctx.quick() else 3000):
        at = rng.randint(0, len(stages))
        traces.append(run_login(len(traces), tuple(stages[:at]) + ('expiry',) + tuple(stages[at:]), final, sync, reset, extra={'_expiry': True}))
        nhop += 1
    # a jump host with the default patterns (no message of the day: the default password_regex is documented to need help there)
    plain2 = [c for c in cfg2 if 'notice' not in c[0]]
    for st, final in (rng.sample(plain2, 200) if ctx.quick() else plain2):
        sync, reset = rng.random() < 0.5, rng.random() < 0.7
        traces.append(run_login(len(traces), st, final, sync, reset, extra={'_hop': True}))
        nhop += 1
    ctx.note('%d real login() dialogues against the scripted server in %.1fs (%d with caller-supplied patterns and/or through a jump host)' % (
        len(traces), time.time() - t0, nhop))
    verdicts, st = tracecheck.validate([{'id': t['id'], 'ev': t['ev'], 'opts': t['opts'], 'result': t['result'], 'cmds': t['cmds']}
                                        for t in traces], 'PxsshTrace', ctx.work, procs=8, pass_through=True)
    cnt = Counter(v[0] for v in verdicts.values())
    ctx.note('TLC PxsshTrace: verdicts: %s' % ', '.join('%s x%d' % kv for kv in sorted(cnt.items())))
    drift = 0
    nontrivial = 0
    for t in traces:
        m = t['meta']
        if any(e['e'] == 'cli' for e in t['ev']):
            nontrivial += 1
        v = verdicts[t['id']][0]
        if v != 'ok':
            ctx.fail(v, {'meta': m}, detail={'result': t['result'], 'events': t['ev'], 'cmds': t['cmds']},
                     signature={'final': m['final'], 'sync': m['sync'], 'reset': m['reset'],
                                'banner': 'banner' in m['stages'], 'silent_server': t['result']['srv_state'] == 'silent'})
        elif not m['extra']:
            want = pred.get((tuple(m['stages']), m['final'], m['sync'], m['reset']))
            got = (t['result']['ret'], tuple(e['kind'] for e in t['ev'] if e['e'] == 'cli'))
            gk = tuple('zsh_restore' if k == 'zsh_restore' else k for k in got[1] if k != 'zsh_restore')
            if want is None or want[0] != got[0] or tuple(want[1]) != gk:
                drift += 1
                if drift <= 3:
                    ctx.note('SPEC-DRIFT: %s -> real %s, model %s' % (m, (got[0], gk), want))
    ctx.note('model (as is) predicts result and client transcript of %d dialogues; SPEC-DRIFT %d' % (
        sum(1 for t in traces if not t['meta']['extra']), drift))
    # command line construction (deterministic table)
    for opts, want in [({}, "ssh -q -l user h"), ({'port': 22}, "ssh -q -p 22 -l user h"), ({'quiet': False}, "ssh -l user h"),
                       ({'ssh_key': True}, "ssh -q -A -l user h"), ({'check_local_ip': False}, "ssh -q -o'NoHostAuthenticationForLocalhost=yes' -l user h")]:
        p = pxssh.pxssh(debug_command_string=True)
        got = p.login('h', 'user', 'secret', **opts)
        if ' '.join(got.split()) != want:
            ctx.fail('C17:ssh-command-line', {'opts': opts}, detail={'got': got, 'want': want})
    # binding self-test
    import copy
    good = [t for t in traces if verdicts[t['id']][0] == 'ok' and any(e['e'] == 'cli' and e['kind'] == 'password' for e in t['ev'])]
    if common.selftest_possible(ctx, good, 'a password sent'):
        a = copy.deepcopy(good[0]); a['id'] = 'twice'
        i = [k for k, e in enumerate(a['ev']) if e['e'] == 'cli' and e['kind'] == 'password'][0]
        a['ev'].insert(i, dict(a['ev'][i]))
        b = copy.deepcopy(good[0]); b['id'] = 'silent-true'
        b['result'].update(ret='True', srv_state='silent')
        v2, _ = tracecheck.validate([{k: x[k] for k in ('id', 'ev', 'opts', 'result', 'cmds')} for x in (a, b)], 'PxsshTrace',
                                    ctx.work, procs=1, tag='selftest', pass_through=True)
        if v2['twice'][0] == 'ok' or v2['silent-true'][0] == 'ok':
            raise tlc.TLCError('self-test: corrupted transcripts accepted: %s' % v2)
        ctx.note('binding self-test: password sent twice -> %s; True on a silent server -> %s' % (v2['twice'][0], v2['silent-true'][0]))
    status, nviol, nknown = common.conclude(ctx)
    evidence.write('C17', ctx.tier, ctx.seed, 'model_checking', {
        'states': mc['distinct'] + pres['distinct'], 'transitions': mc['generated'] + pres['generated'],
        'traces_validated_against_impl': len(traces),
        'samples': [{'meta': t['meta'], 'events': t['ev'], 'result': t['result']} for t in (traces[len(traces) // 2], traces[-1])],
        'evaluations': len(traces), 'distinct_nontrivial': nontrivial,
        'rule': 'every server configuration of <= 3 stages over {banner, host-key question, password, passphrase, denied, terminal type} x 6 final '
                'states (sh/csh/zsh shell, silent, closed, exit) x sync_original_prompt x auto_prompt_reset (quick: 2500 sampled), plus option '
                'variants; non-trivial = the client sent at least one line',
        'exhaustive': not ctx.quick(), 'verdict_counts': dict(cnt), 'spec_drift': drift, 'known_findings_hit': nknown,
    }, assumptions=['the ssh client/server is scripted (harness/fakessh.py); timeouts are virtual',
                    'text-level matching is the real regexes on the fake texts; the TLA+ model works on tokens'],
        wall_s=ctx.wall(), violations=nviol)
    return status


def replay(ctx):
    d = json.load(open(ctx.replay))
    m = d['case']['meta']
    t = run_login('replay', tuple(m['stages']), m['final'], m['sync'], m['reset'], m.get('extra'), h=m.get('h', 0))
    v, _ = tracecheck.validate([{k: t[k] for k in ('id', 'ev', 'opts', 'result', 'cmds')}], 'PxsshTrace', ctx.work, procs=1,
                               tag='replay', pass_through=True)
    print(json.dumps(t, indent=1)[:3000])
    print('replay verdict:', v['replay'][0])
    if v['replay'][0] != 'ok':
        print('VIOLATION property=C17 replay=%s' % ctx.replay)
        return 1
    return 0

"""C01-C04: the matching layer.  One corpus, four properties.

 1. TLC: ExpectImpl (the code as written) satisfies the invariants of ExpectAbs and refines
    it, for every stream / chunking / call history / window in the bound.
 2. Model sensitivity: with a named deviation switched on TLC must find a counter-example
    (the invariants are not vacuous).
 3. code -> spec: the real expect family runs on the scripted transport over an exhaustive
    small space plus seeded random histories; TLC validates every recorded trace against the
    contract (ExpectTrace), naming the first failing clause.
 4. Binding self-test: a corrupted trace must be rejected.
"""
import copy, itertools, json, os, random, time
from collections import Counter
from .. import tlc, tracecheck, evidence, common
from .. import expect_driver as D
from .. import pat as P

CLAUSE_OWNER = ('C01', 'C02', 'C03', 'C04', 'C05')
TRACE_CONSTS = [('Alphabet', '= {"a","b","n","r"}'), ('MaxChunk', '= 3')]

DESCR = {
    'C01': 'stream conservation',
    'C02': 'genuine / leftmost / lowest-index match',
    'C03': 'no missed or late match (equals naive re-search)',
    'C04': 'EOF / TIMEOUT outcomes',
}


def exhaustive_single_call(maxlen, tid0, sample=None, rng=None):
    """every stream <= maxlen over {a,b} x every chunking x {eof, timeout} x every pattern
    list x W in {0,1,2,3} x entry point: one call, then a second call that shows what is left"""
    out = []
    tid = tid0
    for stream in D.streams(D.ALPHA2, maxlen):
        for cuts in D.chunkings(len(stream)):
            for ending in ('eof', 'timeout'):
                for exact, lists in ((True, D.EXACT_LISTS), (False, D.RE_LISTS)):
                    for pl in lists:
                        for W in (0, 1, 2, 3):
                            if sample is not None and rng.random() > sample:
                                continue
                            fn = 'expect_exact' if exact else ('expect', 'expect_list')[tid % 2]
                            calls = [dict(fn=fn, pats=pl, W=W, tmo='pos', wvia=('arg', 'attr')[tid % 2]),
                                     dict(fn='read_all', W=0)]
                            out.append(D.run_history(P.ASCII, stream, cuts, ending, calls, tid=tid))
                            tid += 1
    return out


CONSTRUCTORS = [
    # first calls that leave every kind of inter-call state behind: (pending, trimmed search buffer)
    dict(fn='expect_exact', pats=[P.lit('bab')], W=0, tmo='pos'),          # TIMEOUT, look-back trimmed to 3
    dict(fn='expect_exact', pats=[P.lit('a')], W=0, tmo='pos'),            # match or look-back 1
    dict(fn='expect', pats=[P.lit('bb')], W=1, tmo='pos'),                 # window 1
    dict(fn='expect', pats=[P.lit('ab'), P.TMOM], W=2, tmo='pos'),         # window 2, TIMEOUT index
    dict(fn='expect', pats=[P.anyn(3)], W=0, tmo='pos'),                   # untrimmed
    dict(fn='expect_exact', pats=[P.lit('ab'), P.lit('a')], W=3, tmo='zero'),
    dict(fn='expect', pats=[P.plus('a')], W=0, tmo='neg'),
    dict(fn='read_n', n=2, W=0),
    dict(fn='readline', W=0),
    dict(fn='setbuf', v='ba'),
]


def exhaustive_two_calls(maxlen, tid0, sample, rng):
    """(k+1)-call histories with k = 1 (DESIGN 3.5): constructor call x step under test"""
    out = []
    tid = tid0
    for stream in D.streams(D.ALPHA2, maxlen):
        n = len(stream)
        for cuts in D.chunkings(n):
            # the first call sees a TIMEOUT after some prefix of the reads (a silent pause in the
            # script), the second gets the rest
            for pause in range(len(cuts) + 1):
                for ending in ('eof', 'timeout'):
                    for c1 in CONSTRUCTORS:
                        for exact, lists in ((True, D.EXACT_LISTS), (False, D.RE_LISTS)):
                            for pl in lists:
                                for W in (0, 1, 2, 3):
                                    if rng.random() > sample:
                                        continue
                                    fn = 'expect_exact' if exact else 'expect'
                                    calls = [dict(c1), dict(fn=fn, pats=pl, W=W, tmo='pos'), dict(fn='read_all', W=0)]
                                    raw = P.ASCII.raw(stream)
                                    script = D.make_script(raw, cuts, ending)
                                    script.insert(pause, ('timeout',))
                                    s = D.Session(P.ASCII, script)
                                    ev = s.run(calls)
                                    out.append({'id': tid, 'ev': ev, 'meta': {
                                        'stream': list(stream), 'cuts': list(cuts), 'pause': pause, 'ending': ending,
                                        'calls': calls, 'maxread': 2000, 'mode': 'bytes', 'gen': 'two_calls'}})
                                    tid += 1
    return out


def rerun(meta):
    """re-execute a recorded history from its meta data (used by --replay)"""
    mapping = P.UNI if meta.get('mode') == 'unicode' else P.ASCII
    stream = ''.join(meta['stream'])
    if meta.get('gen') == 'two_calls':
        script = D.make_script(mapping.raw(stream), meta['cuts'], meta['ending'])
        script.insert(meta['pause'], ('timeout',))
        s = D.Session(mapping, script)
        return s.run(meta['calls'])
    return D.run_history(mapping, stream, meta['cuts'], meta['ending'], meta['calls'], maxread=meta['maxread'])['ev']


def build_corpus(ctx):
    rng = random.Random(ctx.seed * 7919 + 17)
    traces = []
    if ctx.quick():
        traces += exhaustive_single_call(3, 0, sample=0.5, rng=rng)
        traces += exhaustive_two_calls(3, len(traces), 0.01, rng)
        nrand = 12000
        maxlen = 10
    else:
        traces += exhaustive_single_call(5, 0)
        traces += exhaustive_two_calls(4, len(traces), 0.08, rng)
        nrand = 60000
        maxlen = 14
    base = len(traces)
    for i in range(nrand):
        traces.append(D.random_history(rng, base + i, maxlen=maxlen, maxcalls=5))
    return traces


def corpus_or_hung(ctx):
    """the scripted corpus runs in this process and normally takes seconds: every script is finite and the scripted
    transport raises TIMEOUT / EOF at its end, so a call of the expect family that does not come back is the violation
    (backstop: the whole corpus gets a wall-clock budget; None = it was used up)"""
    from ..budget import Hung, wall_budget
    try:
        with wall_budget(600 if ctx.quick() else 3600):
            return build_corpus(ctx)
    except Hung as e:
        ctx.fail('%s:call-did-not-return' % ctx.pid, {'corpus': 'scripted'},
                 detail={'what': 'the scripted corpus (finite scripts, the transport raises TIMEOUT / EOF at their end) did not finish: %s' % e},
                 signature={})
        return None


def model_check(ctx):
    cfg = 'MCExpect_quick.cfg' if ctx.quick() else 'MCExpect_thorough.cfg'
    res = tlc.run('MCExpect', cfg, ctx.work, workers=16, timeout=3000, outname='mc.out')
    if res['machinery_error'] or res['timed_out']:
        raise tlc.TLCError('model checking did not finish: ' + res['out'])
    if not ctx.quick():
        # deeper than the exhaustive bound: random behaviours with 4 calls, streams <= 6 over {a,b,LF}, windows up to 5
        sim = tlc.run('MCExpect', 'MCExpect_sim.cfg', ctx.work, workers=16, timeout=900, simulate='num=800000', depth=60,
                      seed=ctx.seed + 1, outname='mcsim.out')
        if sim['violated']:
            raise tlc.TLCError('MCExpect (simulation) violates %s - replay needed, see %s' % (sim['violated'], sim['out']))
        res['simulated_states'] = sim['generated']
    # per-action coverage is measured on the small configuration (-coverage slows TLC 3x)
    cov = tlc.run('MCExpect', 'MCExpect_q2.cfg', ctx.work, workers=16, timeout=600, coverage=True, outname='cov.out')
    res['coverage'] = cov['coverage']
    # vacuity guard: every action of the implementation-shaped model was taken
    for act in ('ICall', 'IRead', 'IEof', 'ITimeout', 'ISetBuffer'):
        if res['coverage'].get(act, (0, 0))[1] == 0:
            raise tlc.TLCError('action %s never taken in %s (vacuous model run)' % (act, cfg))
    # sensitivity: each named deviation must be caught by TLC
    sens = {}
    for dev, inv in (('ZeroWidthBefore', 'Conservation'), ('SetBufferOnlySearchBuf', None)):
        txt = open(os.path.join(tlc.SPEC, 'MCExpect_quick.cfg')).read().replace('Devs = {}', 'Devs = {"%s"}' % dev)
        p = os.path.join(ctx.work, 'dev_%s.cfg' % dev)
        open(p, 'w').write(txt)
        r = tlc.run('MCExpect', p, ctx.work, workers=8, timeout=600, outname='dev_%s.out' % dev)
        if r['violated'] is None:
            raise tlc.TLCError('deviation %s not detected by the model check (vacuous invariants?)' % dev)
        sens[dev] = r['violated']
    return res, sens


def self_test(ctx, traces, verdicts):
    """binding self-test: corrupt one logged field / drop one read event -> must be rejected"""
    cands = [t for t in traces if verdicts[t['id']][0] == 'ok'
             and any(e['e'] == 'ret' and e['kind'] == 'match' and e['before'] for e in t['ev'])
             and sum(1 for e in t['ev'] if e['e'] == 'read' and e['d']) >= 2]
    if not common.selftest_possible(ctx, cands, 'a match after two data reads', broken=any(v[0] != 'ok' for v in verdicts.values())):
        return {'skipped': 'no passing trace to corrupt'}
    t = cands[0]
    a = copy.deepcopy(t)
    a['id'] = 'corrupt-before'
    for e in a['ev']:
        if e['e'] == 'ret' and e['kind'] == 'match' and e['before']:
            e['before'] = e['before'][:-1]
            break
    b = copy.deepcopy(t)
    b['id'] = 'dropped-read'
    for i, e in enumerate(b['ev']):
        if e['e'] == 'read' and e['d']:
            del b['ev'][i]
            break
    c = copy.deepcopy(t)
    c['id'] = 'wrong-index'
    for e in c['ev']:
        if e['e'] == 'ret' and e['kind'] == 'match':
            e['idx'] += 1
            break
    v, _ = tracecheck.validate([a, b, c], 'ExpectTrace', ctx.work, constants=TRACE_CONSTS, procs=1, tag='selftest')
    for k in ('corrupt-before', 'dropped-read', 'wrong-index'):
        if v[k][0] == 'ok':
            raise tlc.TLCError('binding self-test: corrupted trace %s was accepted' % k)
    return {k: v[k][0] for k in v}


def signature_of(trace, clause):
    calls = trace['meta']['calls']
    return {'has_setbuf': any(c['fn'] == 'setbuf' for c in calls)}


def run(ctx):
    pid = ctx.pid
    if ctx.replay:
        return replay(ctx)
    print('[%s] %s - tier %s seed %d' % (pid, DESCR[pid], ctx.tier, ctx.seed), flush=True)
    mc, sens = model_check(ctx)
    ctx.note('TLC %s: %d states generated, %d distinct, depth %d, no invariant violated, RefinesAbs holds (%.0fs)' % (
        'MCExpect', mc['generated'], mc['distinct'], mc['depth'], mc['wall_s']))
    ctx.note('model sensitivity: ' + ', '.join('%s -> %s violated' % kv for kv in sens.items()))
    if mc['violated']:
        # a counter-example of the implementation-shaped model: not a verdict about the code
        # until replayed; report as machinery problem so that it gets looked at
        raise tlc.TLCError('MCExpect violates %s - replay needed, see %s' % (mc['violated'], mc['out']))
    t0 = time.time()
    traces = corpus_or_hung(ctx)
    if traces is None:
        status, nviol, nknown = common.conclude(ctx)
        return status
    gen_s = time.time() - t0
    # distinct event sequences only
    seen, uniq = {}, []
    for t in traces:
        k = json.dumps(t['ev'], sort_keys=True)
        if k not in seen:
            seen[k] = t
            uniq.append(t)
    nontrivial = sum(1 for t in uniq if any(e['e'] == 'read' and e['d'] for e in t['ev']))
    ctx.note('%d histories executed on the real code in %.1fs, %d distinct traces (%d with data reads), %d events' % (
        len(traces), gen_s, len(uniq), nontrivial, sum(len(t['ev']) for t in uniq)))
    verdicts, st = tracecheck.validate(uniq, 'ExpectTrace', ctx.work, constants=TRACE_CONSTS, procs=16)
    ctx.note('TLC trace validation: %d traces, %d states, %.0fs' % (len(uniq), st['distinct'], st['wall_s']))
    cnt = Counter(v[0] for v in verdicts.values())
    ctx.note('verdicts: ' + ', '.join('%s x%d' % kv for kv in sorted(cnt.items())))
    harness_bad = [k for k, v in verdicts.items() if v[0].startswith('harness:')]
    if harness_bad:
        raise tlc.TLCError('harness-level verdicts (bug in /verif): %s' % harness_bad[:3])
    real_note = None
    if pid == 'C04':
        # the transport half of C04: the same clauses on the real transports
        from . import c04_transports as CT
        from multiprocessing import Pool
        with Pool(12) as pool:
            routs = CT.corpus(ctx, pool)
        errs = [r for r in routs if 'error' in r]
        if errs:
            raise tlc.TLCError('real-transport run crashed: %s\n%s' % (errs[0]['meta'], errs[0]['error']))
        for r in routs:
            r['id'] = 'real-%d' % r['id']
        rv, rst = tracecheck.validate(routs, 'ExpectTrace', ctx.work, constants=TRACE_CONSTS, procs=8, tag='realtr')
        rcnt = Counter(v[0] for v in rv.values())
        nbase, nrem, npoll, ncut = CT.corpus.counts
        real_note = ('%d histories on real transports (%s; fd and pty transports alternately with select and poll; bytes and unicode): '
                     '%d with the default read size, 2 calls at the end of the stream; %d with a read size that leaves a remainder of '
                     'the last chunk behind when the stream ends (maxread 1, 2, 3, 5 on 3-7 characters; the default 2000 on %d), '
                     '3 calls at the end of the stream; %d polling calls (timeout=0, twice) on a live peer that is silent / has text readable / '
                     'sends it later; %d on unicode objects whose stream ends inside a multi-byte character; every call bounded (%d reads, %d s): one that does not come back is a violation; validated: %s' % (
                         len(routs), ', '.join(CT.TRANSPORTS), nbase, nrem, CT.LONG, npoll, ncut, CT.MAX_READS, CT.WALL_BUDGET,
                         ', '.join('%s x%d' % kv for kv in sorted(rcnt.items()))))
        ctx.note(real_note)

        def own_clauses(r, rv_, rst_):
            if 'hung' in r:
                # stopped by the harness: the call of the expect family did not come back
                return ['C04:timeout-0-call-did-not-return' if r['hung']['timeout'] == 0 else 'C04:call-did-not-return'], len(r['ev'])
            v_, at_ = rv_[r['id']]
            if v_.startswith('harness:'):
                raise tlc.TLCError('harness-level verdict on real transport: %s %s' % (v_, r['meta']))
            # the peers of this corpus write and go away, nothing else: a read that fails with another exception than EOF /
            # TIMEOUT is not the environment's doing (the trace specification would take it for a transport fault)
            rerr = [i for i, e in enumerate(r['ev']) if e['e'] == 'rerr']
            if rerr:
                return ['C04:other-exception-instead-of-eof-or-timeout(%s)' % r['ev'][rerr[0]].get('cls', '?')], rerr[0] + 1
            return [x for x in rst_['all'].get(r['id'], [v_]) if x.startswith('C04:')], at_
        suspects = [r for r in routs if own_clauses(r, rv, rst)[0]]
        confirmed = {}
        if suspects:
            # real processes are involved: a failing history is re-run twice and counts only if it fails every time
            again = []
            for r in suspects[:200]:
                m = r['meta']
                for rep in (1, 2):
                    again.append((ctx.work, '%s-again%d' % (r['id'], rep), m['transport'], m['unicode'], m['ending'], m['entry'], m['pats'],
                                  m['stream'], m.get('opts', {})))
            with Pool(12) as pool:
                from ..budget import pmap
                routs2 = pmap(pool, CT.run_case, again, chunksize=2, timeout=1500)
            errs = [r for r in routs2 if 'error' in r]
            if errs:
                raise tlc.TLCError('real-transport re-run crashed: %s\n%s' % (errs[0]['meta'], errs[0]['error']))
            rv2, rst2 = tracecheck.validate(routs2, 'ExpectTrace', ctx.work, constants=TRACE_CONSTS, procs=8, tag='realtr2')
            for r in suspects[:200]:
                if all(own_clauses(r2, rv2, rst2)[0] for r2 in routs2 if r2['id'] in ('%s-again1' % r['id'], '%s-again2' % r['id'])):
                    confirmed[r['id']] = True
            if len(confirmed) < len(suspects[:200]):
                ctx.note('%d failing real-transport histories did not fail again when re-run twice: not counted' % (len(suspects[:200]) - len(confirmed)))
        for r in suspects:
            if r['id'] not in confirmed:
                continue
            own, at = own_clauses(r, rv, rst)
            ctx.fail(own[0], {'real_transport': r['meta']}, detail={'event_index': at, 'events': r['ev'][:at], 'all_failing_clauses': own},
                     signature={'transport': r['meta']['transport'], 'unicode': r['meta']['unicode']})
        uniq_real = routs
        with Pool(12) as pool:
            nint = CT.interleaved(ctx, pool)
        ctx.note('%d replays at the expect level of the single-call interleavings of the TLC state graphs - PtyRead on a real pty child (%d; select / poll), '
                 'FdRead on pipe / FIFO / pty / socket / TCP descriptors x select / poll (%d; urgent data on TCP) - followed by three more calls after '
                 'the peer has gone: EOF only with all output in before, the end of the stream is EOF and never TIMEOUT, EOF again afterwards' % (
                     nint, CT.interleaved.per['pty'], CT.interleaved.per['fd']))
    st_self = self_test(ctx, uniq, verdicts)
    ctx.note('binding self-test: ' + ', '.join('%s -> %s' % kv for kv in sorted(st_self.items())))
    # "every call's outcome equals that of the naive procedure" (C03) is also broken when the call returns at the
    # right read but with another index / occurrence than the naive search: those clauses belong to C02 and C03
    also = {'C03': ('C02:index', 'C02:after', 'C02:before-does-not-end-at-occurrence', 'C02:reported-match-not-found-by-naive-search'),
            # "an occurrence already present in the searchable pending text always wins over EOF/TIMEOUT" (C04): the contract
            # found a match, the call reported EOF / TIMEOUT instead
            'C04': ('C03:missed-match-contract-found-one',)}
    for t in uniq:
        v, at = verdicts[t['id']]
        # the event's failing clauses in the trace spec's order: this property's own one counts even when a clause of
        # another property fails before it
        names = st['all'].get(t['id'], [v])
        own = [x for x in names if x.startswith(pid + ':')]
        if v != 'ok' and own:
            v = own[0]
            ctx.fail(v, {'meta': t['meta']}, detail={'event_index': at, 'events': t['ev'][:at], 'all_failing_clauses': names},
                     signature=signature_of(t, v))
            continue
        alt = [x for x in names if x in also.get(pid, ())]
        if alt:
            v = alt[0]
            ctx.fail(('%s:outcome-differs-from-naive-search(%s)' if pid == 'C03' else '%s:occurrence-in-pending-text-lost-to-eof-or-timeout(%s)') % (pid, v), {'meta': t['meta']},
                     detail={'event_index': at, 'events': t['ev'][:at]}, signature=signature_of(t, v))
    status, nviol, nknown = common.conclude(ctx)
    samples = [{'meta': t['meta'], 'events': t['ev'], 'verdict': verdicts[t['id']][0]}
               for t in (uniq[len(uniq) // 3], uniq[-1])]
    evidence.write(pid, ctx.tier, ctx.seed, 'model_checking', {
        'states': mc['distinct'], 'transitions': mc['generated'],
        'traces_validated_against_impl': len(uniq), 'samples': samples,
        'evaluations': len(traces), 'distinct_nontrivial': nontrivial,
        'rule': 'histories = exhaustive single-call space + sampled constructor x step two-call space + seeded random '
                'histories of 1-5 calls, executed on the real expect family over the scripted transport; distinct = '
                'distinct recorded event sequence; non-trivial = contains at least one read that returned data',
        'exhaustive': False,
        'model': {'module': 'MCExpect', 'cmd': mc['cmd'], 'depth': mc['depth'],
                  'action_coverage': {k: v[1] for k, v in mc['coverage'].items()},
                  'deviation_sensitivity': sens},
        'trace_validation': {'module': 'ExpectTrace', 'tlc_states': st['distinct'], 'cmd': st.get('cmd'),
                             'verdict_counts': dict(cnt), 'self_test': st_self},
        'known_findings_hit': nknown,
    }, assumptions=[
        'the scripted transport stands in for the kernel: read results (data, empty, TIMEOUT, EOF) are supplied by a script; '
        'the real transports are bound by C05/C06',
        'pattern semantics of spec/Pat.tla agree with Python re on the forms used (self-tested by harness.pat_selftest)',
        'bounds: see model cfg; outside them conformance is sampled (random histories), not exhaustive',
    ], wall_s=ctx.wall(), violations=nviol)
    return status


def replay(ctx):
    d = json.load(open(ctx.replay))
    if 'real_transport' in d['case'] or d['case'].get('level') == 'expect':
        from . import c04_transports as CT
        os.chdir(ctx.work)
        st = CT.replay_case(ctx, d['case'])
        if st == 1:
            print('VIOLATION property=%s replay=%s' % (ctx.pid, ctx.replay))
        return st
    if d['case'].get('corpus') == 'scripted':
        if corpus_or_hung(ctx) is None:
            print('VIOLATION property=%s replay=%s' % (ctx.pid, ctx.replay))
            return 1
        return 0
    meta = d['case']['meta']
    ev = rerun(meta)
    v, _ = tracecheck.validate([{'id': 'replay', 'ev': ev}], 'ExpectTrace', ctx.work, constants=TRACE_CONSTS, procs=1,
                               tag='replay')
    print('replay verdict: %s at event %d' % v['replay'])
    for e in ev:
        print('   ', json.dumps(e))
    if v['replay'][0] != 'ok':
        print('VIOLATION property=%s replay=%s' % (ctx.pid, ctx.replay))
        return 1
    return 0

"""C14: asyncio parity.

 1. TLC: AsyncExpect (expect_async + PatternWaiter as written, on an asyncio transport / loop
    model) keeps conservation (also of what the caller was actually given), never loses a
    result, reports TIMEOUT only when the searchable pending text holds no occurrence - for
    every arrival schedule; the two named deviations (the code before the deadline-iteration
    repair; polls that never read) are caught.
 2. Histories mixing blocking and awaited calls on one object run through the REAL
    expect_async / PatternWaiter on a virtual-time asyncio loop with a hand-fed read transport
    (harness/vloop.py, harness/async_driver.py); every recorded trace is validated by TLC against
    the contract ExpectAbs (= the blocking call's meaning, C01-C04) with ExpectTrace.
"""
import copy, json, os, random, time
from collections import Counter
from .. import tlc, tracecheck, evidence, common
from .. import async_driver as A, expect_driver as D, pat as P

TRACE_CONSTS = [('Alphabet', '= {"a","b","n","r"}'), ('MaxChunk', '= 3')]


def gen_history(rng, tid, maxlen, maxcalls):
    mapping = rng.choice([P.ASCII, P.ASCII, P.UNI])
    n = rng.randint(0, maxlen)
    stream = ''.join(rng.choice('abn') for _ in range(n))
    raw = mapping.raw(stream)
    arr, pos, t = [], 0, 0.0
    while pos < len(raw):
        c = rng.randint(1, 3)
        t += rng.choice([0, 0, 0.5, 1.0, 2.0, 3.0])
        arr.append((t, raw[pos:pos + c]))
        pos += c
    if rng.random() < 0.6:
        arr.append((t + rng.choice([0, 0, 1.0, 3.0]), None))
    calls = []
    for _ in range(rng.randint(1, maxcalls)):
        exact = rng.random() < 0.4
        c = dict(fn='expect_exact' if exact else rng.choice(['expect', 'expect_list']),
                 pats=rng.choice(D.EXACT_LISTS if exact else D.RE_LISTS), W=rng.choice([0, 0, 1, 2, 3]),
                 tmo=rng.choice(['pos', 'pos', 'pos', 'zero', 'default']), mode=rng.choice(['async', 'async', 'sync']))
        if rng.random() < 0.3:
            c['at'] = rng.choice([0.5, 1.0, 2.0, 4.0])
            if rng.random() < 0.5:
                c['idle'] = 'yield'          # the coroutine yields to the loop until then instead of blocking it
        calls.append(c)
    return run_history(mapping, stream, arr, calls, tid)


def run_history(mapping, stream, arr, calls, tid):
    w = A.AsyncWorld(mapping, arr)
    meta = {'stream': stream, 'mode': 'unicode' if mapping.unicode_mode else 'bytes',
            'arrivals': [(t, None if d is None else d.decode('latin-1')) for t, d in arr], 'calls': calls}
    try:
        ev = w.run(calls)
    except RuntimeError as e:
        # nothing more will ever arrive, no timer is pending, and an awaited call is still outstanding: with a finite
        # timeout (every call of these histories has one) the blocking form returns TIMEOUT / EOF at this point
        if 'virtual loop would block for ever' in str(e) and all(c.get('tmo', 'pos') in ('pos', 'zero', 'default', 'neg') for c in calls):
            return {'id': tid, 'ev': [], 'hung': True, 'meta': meta}
        raise
    return {'id': tid, 'ev': ev, 'meta': {'stream': stream, 'mode': 'unicode' if mapping.unicode_mode else 'bytes',
                                           'arrivals': [(t, None if d is None else d.decode('latin-1')) for t, d in arr],
                                           'calls': calls}}


def exhaustive(tid0, maxlen):
    """every stream <= maxlen over {a,b} x every chunking x arrival gaps {same instant, 1 s apart} x EOF or silence
    x one awaited call per pattern list and window, then an awaited read of the rest"""
    out = []
    tid = tid0
    for stream in D.streams(D.ALPHA2, maxlen):
        for cuts in D.chunkings(len(stream)):
            for gap in (0.0, 1.0):
                for ending in ('eof', None):
                    arr, pos, t = [], 0, 0.0
                    raw = P.ASCII.raw(stream)
                    for c in cuts:
                        arr.append((t, raw[pos:pos + c]))
                        pos += c
                        t += gap
                    if ending:
                        arr.append((t, None))
                    for exact, lists in ((True, D.EXACT_LISTS), (False, D.RE_LISTS)):
                        for pl in lists:
                            for W in (0, 1, 2):
                                calls = [dict(fn='expect_exact' if exact else 'expect', pats=pl, W=W, tmo='pos', mode='async'),
                                         dict(fn='expect', pats=[P.EOFM, P.TMOM], W=0, tmo='pos', mode='async')]
                                out.append(run_history(P.ASCII, stream, arr, calls, tid))
                                tid += 1
    return out


def facts(trace, at):
    """facts about the call in which event `at` lies"""
    call = None
    for e in trace['ev'][:at + 1]:
        if e['e'] == 'call':
            call = e
    return {'tmo': call['tmo'] if call else None, 'mode': call.get('mode') if call else None}


CHILD = ('import sys,time\n'
         'sys.stdout.write("ready\\n"); sys.stdout.flush()\n'
         'sys.stdin.readline()\n'
         'time.sleep(0.3)\n'
         'sys.stdout.write("middle done\\n"); sys.stdout.flush()\n'
         'sys.stdin.readline()\n'
         'time.sleep(0.2)\n'
         'sys.stdout.write("bye\\n"); sys.stdout.flush()\n')


def real_history(args):
    """one history on a REAL pty child under a REAL asyncio loop: calls made blocking ('S') or awaited ('A') in turn; the
    wanted output is not yet there when a call starts, so the call has to wait for it"""
    modes, tmo, enc = args
    import asyncio, sys, signal
    import pexpect

    def on_alarm(signum, frame):
        raise RuntimeError('call did not come back within 20 s')
    old = signal.signal(signal.SIGALRM, on_alarm)
    signal.alarm(20)
    out = []
    child = None
    loop = asyncio.new_event_loop()
    try:
        child = pexpect.spawn(sys.executable, ['-c', CHILD], echo=False, timeout=5, encoding=enc)
        pats = ['ready', 'done', 'bye']
        for i, (mode, pat) in enumerate(zip(modes, pats)):
            t = 5 if i == 0 else tmo
            try:
                if mode == 'A':
                    idx = loop.run_until_complete(child.expect([pat, pexpect.EOF], timeout=t, async_=True))
                else:
                    idx = child.expect([pat, pexpect.EOF], timeout=t)
                bef = child.before if isinstance(child.before, str) else child.before.decode('latin-1')
                out.append([idx, bef.replace('\r', ''), str(child.after) if not isinstance(child.after, (str, bytes)) else 'text'])
            except Exception as e:
                out.append(['raised', type(e).__name__, str(e)[:120]])
                break
            if i < 2:
                child.sendline('go')
    except Exception as e:
        out.append(['harness', type(e).__name__, str(e)[:200]])
    finally:
        signal.alarm(0)
        signal.signal(signal.SIGALRM, old)
        try:
            loop.close()
        except Exception:
            pass
        if child is not None:
            try:
                child.close(force=True)
            except Exception:
                pass
    return out


CHILD2 = ('import sys,time\n'
          'sys.stdout.write("ready\\n"); sys.stdout.flush()\n'
          'sys.stdin.readline()\n'
          'sys.stdout.write("log line one\\nmore of the same kind\\n"); sys.stdout.flush()\n'
          'time.sleep(0.9)\n'
          'sys.stdout.write("line two\\n$ "); sys.stdout.flush()\n'
          'sys.stdin.readline()\n')


def real_cancel(args):
    """a call that gives up before the prompt arrives - the blocking call by its timeout, the awaited one because the caller
    cancels it from outside (asyncio.wait_for around it / task.cancel()) -, output arriving while no call is outstanding,
    then the call again: index, before and after of that last call"""
    how, exact, window, enc = args
    import asyncio, sys, signal, time
    import pexpect

    def on_alarm(signum, frame):
        raise RuntimeError('call did not come back within 20 s')
    old = signal.signal(signal.SIGALRM, on_alarm)
    signal.alarm(20)
    child = None
    loop = asyncio.new_event_loop()
    try:
        child = pexpect.spawn(sys.executable, ['-c', CHILD2], echo=False, timeout=5, encoding=enc)
        child.expect('ready')
        child.readline()
        fn = child.expect_exact if exact else child.expect
        pat = '$ ' if exact else r'\$ '
        kw = {'searchwindowsize': window} if window else {}
        child.sendline('go')
        if how == 'blocking':
            try:
                fn(pat, timeout=0.4, **kw)
            except pexpect.TIMEOUT:
                pass
            time.sleep(1.0)
            idx = fn(pat, timeout=5, **kw)
        else:
            async def main():
                if how == 'wait_for':
                    try:
                        await asyncio.wait_for(fn(pat, timeout=5, async_=True, **kw), 0.4)
                    except asyncio.TimeoutError:
                        pass
                else:
                    t = asyncio.ensure_future(fn(pat, timeout=5, async_=True, **kw))
                    await asyncio.sleep(0.4)
                    t.cancel()
                    try:
                        await t
                    except asyncio.CancelledError:
                        pass
                await asyncio.sleep(1.0)            # the caller does other things; the rest of the output arrives meanwhile
                return await fn(pat, timeout=5, async_=True, **kw)
            idx = loop.run_until_complete(main())
        bef = child.before if isinstance(child.before, str) else child.before.decode('latin-1')
        aft = child.after if isinstance(child.after, str) else child.after.decode('latin-1')
        return [idx, bef.replace('\r', ''), aft]
    except Exception as e:
        return ['raised', type(e).__name__, str(e)[:160]]
    finally:
        signal.alarm(0)
        signal.signal(signal.SIGALRM, old)
        try:
            loop.close()
        except Exception:
            pass
        if child is not None:
            try:
                child.close(force=True)
            except Exception:
                pass


def real_cancelled(ctx):
    from multiprocessing import Pool
    jobs = []
    for enc in (None, 'utf-8'):
        for exact in (True, False):
            for window in (None, 4):
                for how in ('blocking', 'wait_for', 'cancel'):
                    jobs.append((how, exact, window, enc))
    with Pool(12) as pool:
        outs = pool.map(real_cancel, jobs)
    ref = {j[1:]: o for j, o in zip(jobs, outs) if j[0] == 'blocking'}
    nbad = 0
    for j, o in zip(jobs, outs):
        if j[0] == 'blocking':
            continue
        if o != ref[j[1:]]:
            o2, w2 = real_cancel(j), real_cancel(('blocking',) + j[1:])
            if o2 != w2:
                nbad += 1
                ctx.fail('C14:after-a-call-cancelled-from-outside-the-next-call-differs-from-the-blocking-history',
                         {'real_cancel': {'how': j[0], 'exact': j[1], 'window': j[2], 'encoding': j[3]}},
                         detail={'got': o2, 'blocking_history_gives': w2}, signature={'mode': 'real-cancel'})
    if not all(o[0] == 0 for o in ref.values()):
        raise tlc.TLCError('real cancelled histories: the blocking reference did not complete: %s' % list(ref.values())[:1])
    ctx.note('%d histories on a real pty child in which the first call gives up before the prompt is there (blocking: its timeout; awaited: '
             'asyncio.wait_for around it / task.cancel()), the rest of the output arrives with no call outstanding, and the call is made again '
             '(expect / expect_exact, with and without a search window, bytes / unicode): %d differ from the blocking history' % (len(jobs), nbad))


def real_mixed(ctx):
    """the same three-call dialogue with every mix of blocking and awaited calls must give what the all-blocking history gives"""
    from multiprocessing import Pool
    jobs = []
    for enc in (None, 'utf-8'):
        for tmo in (None, 3):
            for modes in ('SSS', 'AAA', 'ASS', 'SAS', 'AAS', 'SSA', 'ASA', 'SAA'):
                jobs.append((modes, tmo, enc))
    with Pool(8) as pool:
        outs = pool.map(real_history, jobs)
    ref = {(tmo, enc): o for (modes, tmo, enc), o in zip(jobs, outs) if modes == 'SSS'}
    nbad = 0
    for (modes, tmo, enc), o in zip(jobs, outs):
        want = ref[(tmo, enc)]
        if o != want:
            # real processes: once more before it counts
            o2 = real_history((modes, tmo, enc))
            w2 = real_history(('SSS', tmo, enc))
            if o2 != w2:
                nbad += 1
                ctx.fail('C14:mixed-history-on-a-real-pty-differs-from-the-blocking-one', {'real_mixed': {'modes': modes, 'timeout': tmo, 'encoding': enc}},
                         detail={'got': o2, 'blocking_history_gives': w2}, signature={'mode': 'real-mixed', 'tmo': str(tmo)})
    if not all(len(o) == 3 and o[0][0] == 0 for o in ref.values()):
        raise tlc.TLCError('real mixed histories: the all-blocking reference did not complete: %s' % list(ref.values())[:1])
    ctx.note('%d histories on a real pty child under a real asyncio loop (3 calls each, every mix of blocking and awaited, the wanted output '
             'arriving while the call waits, timeout None / 3 s, bytes / unicode): %d differ from the all-blocking history' % (len(jobs), nbad))


def run(ctx):
    if ctx.replay:
        return replay(ctx)
    print('[C14] asyncio parity - tier %s seed %d' % (ctx.tier, ctx.seed), flush=True)
    quick = ctx.quick()
    mc = tlc.run('MCAsync', 'MCAsync_quick.cfg' if quick else 'MCAsync_thorough.cfg', ctx.work, workers=16, timeout=3000, outname='mcasync.out')
    if not mc['ok']:
        raise tlc.TLCError('AsyncExpect: %s, see %s' % (mc['violated'] or 'TLC failed', mc['out']))
    ctx.note('TLC AsyncExpect: %d distinct states, %d generated, depth %d; AConservation, ReportedConservation, NoLostResult, '
             'TimeoutMeansNoOccurrence, Genuine/Leftmost/LowestIndex hold for every arrival schedule' % (mc['distinct'], mc['generated'], mc['depth']))
    sens = {}
    for dev, want in (('DevNoFix', 'NoLostResult'), ('DevPoll', 'TimeoutMeansNoOccurrence')):
        txt = open(os.path.join(tlc.SPEC, 'MCAsync_quick.cfg')).read().replace('AsyncDevs = {}', 'AsyncDevs <- ' + dev)
        p = os.path.join(ctx.work, dev + '.cfg')
        open(p, 'w').write(txt)
        r = tlc.run('MCAsync', p, ctx.work, workers=8, timeout=600, outname=dev + '.out', only=want)
        if r['violated'] != want:
            raise tlc.TLCError('AsyncExpect with %s should violate %s, got %s' % (dev, want, r['violated']))
        sens[dev] = want
    ctx.note('model sensitivity: ' + ', '.join('%s -> %s violated' % kv for kv in sens.items()))
    rng = random.Random(ctx.seed * 977 + 3)
    t0 = time.time()
    traces = exhaustive(0, 3 if quick else 4)
    nex = len(traces)
    for i in range(3000 if quick else 60000):
        traces.append(gen_history(rng, nex + i, 8 if quick else 12, 4))
    hung = [t for t in traces if t.get('hung')]
    traces = [t for t in traces if not t.get('hung')]
    for t in hung[:25]:
        ctx.fail('C14:awaited-call-with-a-finite-timeout-never-returns', {'meta': t['meta']},
                 detail={'calls': t['meta']['calls'], 'arrivals': t['meta']['arrivals']},
                 signature={'tmo': sorted(set(c.get('tmo', 'pos') for c in t['meta']['calls'] if c.get('mode', 'async') == 'async'))})
    seen, uniq = set(), []
    for t in traces:
        k = json.dumps(t['ev'], sort_keys=True)
        if k not in seen:
            seen.add(k)
            uniq.append(t)
    nontrivial = sum(1 for t in uniq if any(e['e'] == 'call' and e.get('mode') == 'async' for e in t['ev'])
                     and any(e['e'] == 'read' and e['d'] for e in t['ev']))
    ctx.note('%d histories (%d exhaustive single-await, %d random mixed sync/async) run through the real expect_async on the virtual loop '
             'in %.1fs; %d distinct traces, %d with an awaited call that received data' % (len(traces), nex, len(traces) - nex, time.time() - t0, len(uniq), nontrivial))
    verdicts, st = tracecheck.validate(uniq, 'ExpectTrace', ctx.work, constants=TRACE_CONSTS, procs=16)
    cnt = Counter(v[0] for v in verdicts.values())
    ctx.note('TLC trace validation against the contract: %d traces, %d states, %.0fs; verdicts: %s' % (
        len(uniq), st['distinct'], st['wall_s'], ', '.join('%s x%d' % kv for kv in sorted(cnt.items()))))
    if any(v[0].startswith('harness:') for v in verdicts.values()):
        raise tlc.TLCError('harness-level verdicts: %s' % [k for k, v in verdicts.items() if v[0].startswith('harness:')][:3])
    # awaited calls are bounded by their timeout (virtual loop time)
    late = 0
    for t in uniq:
        tc = None
        for i, e in enumerate(t['ev']):
            if e['e'] == 'call' and e.get('mode') == 'async':
                tc = e
            elif e['e'] == 'ret' and tc is not None and 't' in e:
                lim = {'pos': 3.0, 'zero': 0.0, 'neg': 0.0}.get(tc['tmo'])
                if lim is not None and e['t'] - tc['t'] > lim + 1e-6:
                    late += 1
                    ctx.fail('C14:await-exceeded-its-timeout', {'meta': t['meta']}, detail={'call': tc, 'ret': e},
                             signature=facts(t, i))
                tc = None
    # the text handed to matching on the awaited / mixed path is the decoding of the byte stream (what the blocking
    # path delivers): every read / late event, concatenated, is a prefix of the decoded stream
    for t in uniq:
        m = t['meta']
        mapping = P.UNI if m['mode'] == 'unicode' else P.ASCII
        want = list(m['stream'])
        got = []
        for e in t['ev']:
            if e['e'] in ('read', 'late'):
                got += e['d']
        if got != want[:len(got)]:
            ctx.fail('C14:text-delivered-on-the-awaited-path-is-not-the-decoded-stream', {'meta': m},
                     detail={'delivered': got, 'stream': want}, signature={'mode': m['mode']})
    for t in uniq:
        v, at = verdicts[t['id']]
        if v != 'ok':
            clause = v if v.startswith('C14:') else 'C14:awaited-call-differs-from-contract(' + v + ')'
            ctx.fail(clause, {'meta': t['meta']}, detail={'event_index': at, 'events': t['ev'][:at]}, signature=facts(t, at - 1))
    real_mixed(ctx)
    real_cancelled(ctx)
    # binding self-test
    cands = [t for t in uniq if verdicts[t['id']][0] == 'ok'
             and any(e['e'] == 'ret' and e['kind'] == 'match' and e['before'] for e in t['ev'])
             and any(e['e'] == 'call' and e.get('mode') == 'async' for e in t['ev'])]
    if common.selftest_possible(ctx, cands, 'an awaited match with text before it'):
        a = copy.deepcopy(cands[0]); a['id'] = 'corrupt'
        for e in a['ev']:
            if e['e'] == 'ret' and e['kind'] == 'match' and e['before']:
                e['before'] = e['before'][1:]
                break
        v2, _ = tracecheck.validate([a], 'ExpectTrace', ctx.work, constants=TRACE_CONSTS, procs=1, tag='selftest')
        if v2['corrupt'][0] == 'ok':
            raise tlc.TLCError('self-test: corrupted awaited trace accepted')
        ctx.note('binding self-test: corrupted `before` of an awaited call -> %s' % v2['corrupt'][0])
    status, nviol, nknown = common.conclude(ctx)
    evidence.write('C14', ctx.tier, ctx.seed, 'model_checking', {
        'states': mc['distinct'], 'transitions': mc['generated'], 'traces_validated_against_impl': len(uniq),
        'samples': [{'meta': t['meta'], 'events': t['ev']} for t in (uniq[len(uniq) // 2], uniq[-1])],
        'evaluations': len(traces), 'distinct_nontrivial': nontrivial,
        'rule': 'exhaustive single-await space (streams <= 3-4 over {a,b} x chunkings x arrival gaps x EOF/silence x pattern lists x W) plus '
                'seeded random histories of 1-4 calls mixing blocking and awaited calls, start times and arrival times; distinct = distinct '
                'event sequence; non-trivial = has an awaited call and a data read',
        'exhaustive': False, 'verdict_counts': dict(cnt), 'deviation_sensitivity': sens, 'known_findings_hit': nknown,
    }, assumptions=[
        'the event loop and read transport are modelled by harness/vloop.py: one data_received per loop iteration with everything the kernel holds, '
        'I/O callbacks before timers, task wake-up one iteration after cancellation (CPython 3.12 asyncio.timeouts semantics)',
        '_async_pre_await.py cannot be imported on this Python (asyncio.coroutine is gone); only _async_w_await.py is bound',
        'parity is judged against the contract ExpectAbs, which the blocking path is validated against by C01-C04 with the same trace specification',
    ], wall_s=ctx.wall(), violations=nviol)
    return status


def replay(ctx):
    d = json.load(open(ctx.replay))
    if 'real_cancel' in d['case']:
        c = d['case']['real_cancel']
        got = real_cancel((c['how'], c['exact'], c['window'], c['encoding']))
        want = real_cancel(('blocking', c['exact'], c['window'], c['encoding']))
        print('history with the cancelled call: %s' % got)
        print('blocking history: %s' % want)
        if got != want:
            print('VIOLATION property=C14 replay=%s' % ctx.replay)
            return 1
        return 0
    if 'real_mixed' in d['case']:
        c = d['case']['real_mixed']
        got = real_history((c['modes'], c['timeout'], c['encoding']))
        want = real_history(('SSS', c['timeout'], c['encoding']))
        print('mixed history %s: %s' % (c['modes'], got))
        print('all-blocking history: %s' % want)
        if got != want:
            print('VIOLATION property=C14 replay=%s' % ctx.replay)
            return 1
        return 0
    m = d['case']['meta']
    mapping = P.UNI if m['mode'] == 'unicode' else P.ASCII
    arr = [(t, None if x is None else x.encode('latin-1')) for t, x in m['arrivals']]
    tr = run_history(mapping, m['stream'], arr, m['calls'], 'replay')
    if tr.get('hung'):
        print('the awaited call never returns: nothing more can arrive and no timer is pending on the loop')
        print('VIOLATION property=C14 replay=%s' % ctx.replay)
        return 1
    v, _ = tracecheck.validate([tr], 'ExpectTrace', ctx.work, constants=TRACE_CONSTS, procs=1, tag='replay')
    for e in tr['ev']:
        print('   ', json.dumps(e))
    print('replay verdict: %s at event %d' % v['replay'])
    if v['replay'][0] != 'ok':
        print('VIOLATION property=C14 replay=%s' % ctx.replay)
        return 1
    return 0

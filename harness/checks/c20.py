"""C20: a pattern means the same in every accepted form; other objects are rejected.

spec/PatternForms.tla is the decision table (464 rows); TLC enumerates it, checks its
consistency properties and writes it out; here every row becomes implementation tests: the
same scripted streams under the form of the row and under the reference (native pattern text
compiled with exactly the flag set the table demands, handed to expect_list which performs no
coercion) must give the same outcome; rejected rows must raise TypeError with nothing read
and the pending text untouched.
"""
import json, os, re, time
import pexpect
from .. import tlc, evidence, common
from ..scripted import Scripted

FLAG = {'I': re.I, 'M': re.M, 'X': re.X, 'S': re.S, 'A': re.A}

# pattern identities: native text, streams that tell the flag sets apart
IDENTITIES = [
    ('a.b', ['a\nb!', 'A-B!', 'xa-bx', 'ab', 'a.b']),
    ('^b', ['a\nb', 'ba', 'ab']),
    ('a b', ['ab', 'a b', 'A B']),
    ('a\\wb', ['aéb', 'a_b', 'a-b']),
    ('B+', ['abbB', 'aBb', 'xyz']),
]


def flags_of(names):
    f = 0
    for n in names:
        f |= FLAG[n]
    return f


def native(text, mode):
    return text if mode == 'unicode' else text.encode('latin-1')


def other(text, mode):
    return text.encode('latin-1') if mode == 'unicode' else text


def make_obj(row, text):
    """the pattern object of this row for the identity `text`"""
    form, mode = row['form'], row['mode']
    f = flags_of(row['flags'])
    if form == 'native_str':
        return native(text, mode)
    if form == 'other_str':
        return other(text, mode)
    if form == 'compiled_native':
        return re.compile(native(text, mode), f)
    if form == 'compiled_other':
        return re.compile(other(text, mode), f)
    if form == 'EOF':
        return pexpect.EOF
    if form == 'TIMEOUT':
        return pexpect.TIMEOUT
    if form == 'int':
        return 5
    if form == 'float':
        return 1.5
    if form == 'none_in_list':
        return None
    if form == 'nested_list':
        return [native(text, mode)]
    raise ValueError(form)


def new_sp(mode, stream, chunk, ic, pending=''):
    enc = 'utf-8' if mode == 'unicode' else None
    raw = stream.encode('utf-8') if mode == 'unicode' else stream.encode('latin-1')
    if chunk == 'whole':
        script = [('data', raw)] if raw else []
    else:
        script = [('data', raw[i:i + 1]) for i in range(len(raw))]
    script.append(('eof',))
    sp = Scripted(script, timeout=5, encoding=enc)
    sp.ignorecase = ic
    if pending:
        sp.buffer = native(pending, mode)
    return sp


def outcome(sp, call):
    try:
        i = call()
        kind = 'eof' if sp.after is pexpect.EOF else 'timeout' if sp.after is pexpect.TIMEOUT else 'match'
        return [kind, i, sp.before, sp.after if kind == 'match' else None]
    except pexpect.EOF:
        return ['EOF', -1, sp.before, None]
    except pexpect.TIMEOUT:
        return ['TIMEOUT', -1, sp.before, None]
    except TypeError as e:
        return ['TypeError', -1, None, None]
    except Exception as e:
        return [type(e).__name__, -1, None, str(e)]


def invoke(sp, entry, obj, form, aslist=None):
    if aslist is None:
        aslist = [obj]
    if form == 'none_in_list':
        aslist = [native('zz', 'unicode' if sp.encoding else 'bytes'), None]
    if entry == 'expect_single':
        return lambda: sp.expect(obj)
    if entry == 'expect_list1':
        return lambda: sp.expect(aslist)
    if entry == 'compile_then_expect_list':
        return lambda: sp.expect_list(sp.compile_pattern_list(aslist))
    if entry == 'exact_single':
        return lambda: sp.expect_exact(obj)
    if entry == 'exact_list1':
        return lambda: sp.expect_exact(aslist)
    raise ValueError(entry)


def reference(sp, want, text, mode):
    if want['literal']:
        return lambda: sp.expect_loop(pexpect.expect.searcher_string([native(text, mode)]), timeout=5)
    ref = re.compile(native(text, mode), flags_of(want['flags']))
    return lambda: sp.expect_list([ref])


def run_row(r, ctx, stats):
    row, want = r['row'], r['want']
    mode, ic, entry, form = row['mode'], row['ic'], row['entry'], row['form']
    for text, streams in IDENTITIES:
        if mode == 'bytes' and any(ord(c) > 255 for c in text):
            continue
        try:
            obj = make_obj(row, text)
        except (ValueError, TypeError) as e:
            # Python itself refuses this combination (e.g. re.ASCII|re.UNICODE ...): not a row of the table
            stats['skipped'] += 1
            continue
        for stream in streams:
            for chunk in ('whole', 'bytewise'):
                stats['evaluations'] += 1
                case = {'row': row, 'want': want, 'text': text, 'stream': stream, 'chunk': chunk}
                if want['k'] == 'reject':
                    sp = new_sp(mode, stream, chunk, ic, pending='zz')
                    got = outcome(sp, invoke(sp, entry, obj, form))
                    if got[0] != 'TypeError':
                        ctx.fail('C20:invalid-object-not-rejected-with-TypeError', case, detail={'got': repr(got)},
                                 signature={'form': form, 'mode': mode, 'entry': entry})
                        continue
                    nreads = len(sp.reads)
                    rest = outcome(sp, lambda: sp.expect(pexpect.EOF))
                    if nreads != 0 or rest[2] != native('zz' + stream, mode):
                        ctx.fail('C20:rejected-after-consuming-output', case,
                                 detail={'reads_before_rejection': nreads, 'pending_then': repr(rest)},
                                 signature={'form': form, 'mode': mode, 'entry': entry})
                    continue
                if want['k'] == 'marker':
                    sp = new_sp(mode, stream, chunk, ic)
                    if form == 'TIMEOUT':
                        sp.script = [x for x in sp.script if x[0] != 'eof']
                    got = outcome(sp, invoke(sp, entry, obj, form))
                    exp = ['eof' if form == 'EOF' else 'timeout', 0, native(stream, mode), None]
                    if got != exp:
                        ctx.fail('C20:marker-entry', case, detail={'got': repr(got), 'want': repr(exp)},
                                 signature={'form': form, 'mode': mode, 'entry': entry})
                    continue
                sp1 = new_sp(mode, stream, chunk, ic)
                got = outcome(sp1, invoke(sp1, entry, obj, form))
                # the same on an object that has already used this very pattern object/text under the OPPOSITE
                # ignorecase setting (a form's meaning must not depend on the object's history)
                if form in ('native_str', 'other_str', 'compiled_native', 'compiled_other'):
                    sp3 = new_sp(mode, stream, chunk, not ic)
                    sp3.script.insert(0, ('timeout',))
                    shared = [obj]            # one list object built once by the caller and used for both calls
                    prim = outcome(sp3, invoke(sp3, entry, obj, form, shared))
                    sp3.ignorecase = ic
                    got3 = outcome(sp3, invoke(sp3, entry, obj, form, shared))
                    if len(shared) != 1 or shared[0] is not obj:
                        ctx.fail('C20:the-caller\'s-pattern-list-was-modified', case, detail={'list_after_the_calls': repr(shared)[:200]},
                                 signature={'form': form, 'mode': mode, 'entry': entry})
                    stats['evaluations'] += 1
                    if prim[0] not in ('TIMEOUT', 'timeout') or got3 != got:
                        ctx.fail('C20:same-meaning-after-ignorecase-was-toggled', case,
                                 detail={'priming_call': repr(prim), 'got': repr(got3), 'fresh_object': repr(got)},
                                 signature={'form': form, 'mode': mode, 'entry': entry})
                sp2 = new_sp(mode, stream, chunk, ic)
                try:
                    exp = outcome(sp2, reference(sp2, want, text, mode))
                except ValueError:
                    stats['skipped'] += 1
                    continue
                if exp[0] == 'match':
                    stats['discriminating'] += 1
                if got != exp:
                    ctx.fail('C20:same-meaning', case, detail={'got': repr(got), 'reference': repr(exp)},
                             signature={'form': form, 'mode': mode, 'entry': entry,
                                        'has_flags': bool(row['flags'])})


def replay(ctx):
    d = json.load(open(ctx.replay))
    c = d['case']
    run_row({'row': c['row'], 'want': c['want']}, ctx, {'evaluations': 0, 'skipped': 0, 'discriminating': 0})
    status, _, _ = common.conclude(ctx)
    return status


def run(ctx):
    if ctx.replay:
        return replay(ctx)
    print('[C20] pattern forms - tier %s seed %d' % (ctx.tier, ctx.seed), flush=True)
    out = os.path.join(ctx.work, 'patternforms.json')
    res = tlc.run('PatternForms', 'PatternForms.cfg', ctx.work, workers=4, timeout=300, env={'OUT_FILE': out},
                  outname='pf.out')
    if not res['ok'] or not os.path.exists(out):
        raise tlc.TLCError('PatternForms: TLC failed or found the table inconsistent (%s), see %s' % (res['violated'], res['out']))
    table = json.load(open(out))
    ctx.note('TLC PatternForms: %d rows (states), table consistency invariants hold' % res['distinct'])
    stats = {'evaluations': 0, 'skipped': 0, 'discriminating': 0}
    for r in table:
        run_row(r, ctx, stats)
    ctx.note('%d implementation tests over %d rows (%d with a reference match, %d skipped: Python refuses the flag combination)' % (
        stats['evaluations'], len(table), stats['discriminating'], stats['skipped']))
    # binding self-test: a table row with a wrong expectation must produce a failure
    probe = common.Ctx.__new__(common.Ctx)
    probe.failures = []
    probe.fail = lambda *a, **k: probe.failures.append(a)
    bad = {'row': {'mode': 'bytes', 'ic': False, 'form': 'native_str', 'flags': [], 'entry': 'expect_single'},
           'want': {'k': 'accept', 'flags': [], 'literal': False}}     # DOTALL missing on purpose
    run_row(bad, probe, {'evaluations': 0, 'skipped': 0, 'discriminating': 0})
    if not probe.failures:
        raise tlc.TLCError('C20 self-test: a wrong table row was not noticed')
    ctx.note('binding self-test: a row with DOTALL removed from the expectation produces %d mismatches' % len(probe.failures))
    status, nviol, nknown = common.conclude(ctx)
    evidence.write('C20', ctx.tier, ctx.seed, 'model_checking', {
        'states': res['distinct'], 'transitions': res['generated'],
        'traces_validated_against_impl': len(table),
        'samples': [table[0], table[len(table) // 2], {'identities': IDENTITIES}],
        'evaluations': stats['evaluations'], 'distinct_nontrivial': stats['discriminating'],
        'rule': 'one implementation test per (table row x pattern identity x stream x chunking); non-trivial = the reference '
                'pattern matches on that stream, so a form with different effective flags / text would be told apart',
        'exhaustive': True, 'checker_cmd': res['cmd'], 'known_findings_hit': nknown,
    }, assumptions=[
        'equivalence is judged with Python re on both sides (same scripted stream under the form and under the reference)',
        'the five pattern identities and their streams discriminate the flags I M X S A; other regex features are not enumerated',
    ], wall_s=ctx.wall(), violations=nviol)
    return status

"""C09 (exit status truth) and C10 (lifecycle safety): one model, two checks.

 1. TLC: spec/Lifecycle.tla (every public operation one action, written as the code performs it,
    kernel side explicit) is explored for every operation sequence up to the tier's length x
    dispositions x environment actions x transports; the properties are invariants / an action
    property.  Per-action coverage guard; every named deviation switched on must be caught by
    the invariant it breaks (the invariants are not vacuous).
 2. code -> spec: operation sequences are EXECUTED ON REAL CHILDREN / DESCRIPTORS
    (harness/lifeworld.py, worker pool): exhaustive enumeration over the operation alphabet x
    dispositions {normal, ignores HUP+INT, stopped, already exited / killed, exits or is killed
    mid-sequence} x transports {pty; fdspawn on pty master / socket descriptor / pipe;
    SocketSpawn on a socketpair / loopback TCP (peer close, peer reset)}, the C09 sweep (all 256
    exit codes, every terminating signal, through every observation path and repetition order,
    pty and PopenSpawn, plus run(..., withexitstatus=True)).  After EACH operation the return
    value / exception class, the object's fields, /proc/<pid>/stat, the fate reported by
    waitid(WNOWAIT), /proc/self/fd are logged; every trace ends with the leak facts.
    TLC validates every recorded trace against spec/LifecycleTrace.tla (total verdicts naming
    the first failing clause with its property id).
 3. a failing case is re-executed twice more and reported only if it fails every time.
 4. binding self-test: corrupted observations must be rejected.
"""
import copy, hashlib, json, os, random, re, signal, time
from concurrent.futures import ThreadPoolExecutor
from collections import Counter
from multiprocessing import Pool
from .. import tlc, tracecheck, evidence, common
from .. import lifecases as LC
from .. import lifeworld as LW

TRACE_CONSTS = [('Transports', '<- TrAll'), ('Disps', '<- DispsAll'), ('Codes', '<- NoSet'), ('ExtSigs', '<- NoSet'),
                ('KillSigs', '<- NoSet'), ('MaxOps', '= 0'), ('MaxEnv', '= 0'), ('Logs', '<- NoSet'), ('Steal', '= FALSE'),
                ('Devs', '<- TraceDevs')]
ACTIONS = ('IsAlive', 'Wait', 'Kill', 'Terminate', 'Close', 'SendEof', 'ExpectEOF', 'Send', 'Read', 'WithExit', 'Del',
           'ChildExits', 'ExternalSignal', 'NumberReused', 'PeerCloses', 'PeerResets', 'LogCloses')
ACTIONS_OF = {'C09': ('StatusStolen',), 'C10': ()}
INVARIANTS = {
    'C09': ['ObservedStatusTrue', 'DeathObserved', 'NoClaimWithoutStatus', 'StatusStableInv', 'WaitReturnsCode', 'OnlyWaitBlocks',
            'FlagEofMeansDead'],
    'C10': ['NeverAliveAfterReaped', 'NeverTerminatedWhileRunning', 'ForceLeavesDead', 'CloseIdempotent', 'NoLeak',
            'AfterCloseIoFails', 'OnlyWaitBlocks', 'FlagEofMeansDead'],
}
# deviation -> (property whose model check must catch it, the invariants that may fire)
SENSITIVITY = {
    'stale-after-failed-close': ('C10', {'AfterCloseIoFails'}),
    'socket-close-raises': ('C10', {'NoLeak', 'CloseIdempotent'}),
    'no-recheck-after-kill': ('C10', {'ForceLeavesDead', 'NoLeak'}),
    'popen-status-unset': ('C09', {'ObservedStatusTrue'}),
    'close-no-refresh': ('C09', {'DeathObserved', 'ObservedStatusTrue'}),
    # the three below are behaviours blind mutation tests slipped past an earlier version of these checks
    'signal-with-core-bit': ('C09', {'ObservedStatusTrue'}),
    'wait-swallows-echild': ('C09', {'ObservedStatusTrue', 'NoClaimWithoutStatus', 'WaitReturnsCode', 'DeathObserved'}),
    'close-flushes-logs': ('C10', {'ForceLeavesDead', 'NoLeak', 'CloseIdempotent'}),
}
# default action "terminate" or "core dump" (SIGSTOP-like and default-ignored signals excluded)
TERM_SIGNALS = [1, 2, 3, 4, 5, 6, 7, 8, 9, 10, 11, 12, 13, 14, 15, 16, 24, 25, 26, 27, 29, 30, 31] + list(range(34, 65))
# the interpreter ignores SIGPIPE and SIGXFSZ and a pty child inherits that (subprocess restores them)
INHERITED_IGNORED = (('sig', 13), ('sig', 25))
DESCR = {'C09': 'exit status truth', 'C10': 'lifecycle safety'}


# --------------------------------------------------------------------------------------------
# 1. model check
# --------------------------------------------------------------------------------------------
def model_check(ctx):
    quick = ctx.quick()
    consts = [('Transports', '<- TrAll'), ('Disps', '<- DispsAll'), ('Codes', '<- CodesMC'), ('ExtSigs', '<- ExtSigsMC'),
              ('KillSigs', '<- KillSigsQ' if quick else '<- KillSigsT'), ('MaxOps', '= %d' % (4 if quick else 5)),
              ('MaxEnv', '= 2'), ('Logs', '<- LogsMC'),
              # somebody else collecting the child's status is part of C09's environment only (C10's clauses
              # about close() / terminate(force) are stated for a child that is pexpect's to reap)
              ('Steal', '= TRUE' if ctx.pid == 'C09' else '= FALSE'), ('Devs', '<- NoDevs')]
    invs = INVARIANTS[ctx.pid]
    cfg = tlc.write_cfg(os.path.join(ctx.work, 'mc.cfg'), constants=consts, invariants=invs,
                        properties=['StatusStable'] if ctx.pid == 'C09' else [])
    res = tlc.run('MCLifecycle', cfg, ctx.work, workers=8, timeout=1500, outname='mc.out')
    if res['machinery_error'] or res['timed_out']:
        raise tlc.TLCError('Lifecycle model check did not finish: %s' % res['out'])
    if res['violated']:
        raise tlc.TLCError('the intended model violates %s - the model (not the code) is wrong, see %s' % (
            res['violated'], res['out']))
    # per-action coverage (vacuity guard).  `-coverage 1` runs out of memory on the nested operator
    # definitions of this module, so the transitions are counted per action label in the state
    # graph TLC dumps for the configuration with one operation less.
    small = [c if c[0] != 'MaxOps' else ('MaxOps', '= 3') for c in consts]
    cfgc = tlc.write_cfg(os.path.join(ctx.work, 'cov.cfg'), constants=small, invariants=invs)
    dot = os.path.join(ctx.work, 'cov.dot')
    rc = tlc.run('MCLifecycle', cfgc, ctx.work, workers=1, timeout=900, outname='cov.out', heap='3g',
                 extra=['-dump', 'dot,actionlabels', dot])
    if not rc['ok']:
        raise tlc.TLCError('coverage run failed: %s' % rc['out'])
    cov = Counter()
    edge = re.compile(r'^-?\d+ -> -?\d+ \[label="([^"]*)"')
    with open(dot) as f:
        for line in f:
            m = edge.match(line)
            if m:
                cov[m.group(1)] += 1
    os.unlink(dot)
    res['coverage'] = dict(cov)
    for a in ACTIONS + ACTIONS_OF[ctx.pid]:
        if not any(k == a or k.startswith(a + '(') for k in cov):
            raise tlc.TLCError('action %s never taken (vacuous model run), see %s' % (a, rc['out']))
    sens = {}
    devs = [dev for dev, (pid, _) in SENSITIVITY.items() if pid == ctx.pid]

    def one(dev):
        c2 = [c if c[0] != 'Devs' else ('Devs', '= {"%s"}' % dev) for c in small]
        cfg2 = tlc.write_cfg(os.path.join(ctx.work, 'dev_%s.cfg' % dev), constants=c2, invariants=invs)
        return tlc.run('MCLifecycle', cfg2, ctx.work, workers=4, timeout=600, outname='dev_%s.out' % dev)

    with ThreadPoolExecutor(len(devs)) as ex:       # independent TLC runs, side by side
        for dev, r in zip(devs, ex.map(one, devs)):
            expected = SENSITIVITY[dev][1]
            if r['violated'] not in expected:
                raise tlc.TLCError('deviation %s: expected a violation of %s, TLC reports %s (%s)' % (
                    dev, sorted(expected), r['violated'], r['out']))
            sens[dev] = r['violated']
    return res, sens


# --------------------------------------------------------------------------------------------
# 2. corpus
# --------------------------------------------------------------------------------------------
def code_for(k):
    return (k * 37 + 3) % 256


def pty_enumeration(ctx, n, killsigs, scenarios, tag, limit=None, rng=None, with_normal_exit=True):
    ops = LC.pty_ops(killsigs)
    if not with_normal_exit:
        # `with child: pass` and close() are the same call (SpawnBase.__exit__); the quick tier
        # leaves the with-block by exception only
        ops = [o for o in ops if o[1:] != ['WithExit', 0]]
    seqs = LC.sequences(ops, n)
    cases = []
    k = 0
    for disp, env, pos in scenarios:
        for sq in seqs:
            k += 1
            if env is None:
                items = sq
            else:
                if pos > len(sq):
                    continue
                e = list(env)
                if e[1] == 'exit':
                    e[2] = code_for(k)
                items = LC.with_env(sq, e, pos)
            cases.append({'tr': 'pty', 'disp': disp, 'items': items, 'gen': tag})
    if limit is not None and len(cases) > limit:
        cases = rng.sample(cases, limit)
    return cases


PRIMARY = [('default', None, 0), ('ignore', None, 0),
           ('default', ['env', 'sig', 19], 0), ('ignore', ['env', 'sig', 19], 0)]
DEAD = [('default', ['env', 'exit', 0], 0), ('default', ['env', 'sig', 15], 0)]


def mid(n, full):
    out = []
    for pos in range(1, n):
        out.append(('default', ['env', 'exit', 0], pos))
    out.append(('default', ['env', 'sig', 9], 1))
    if full:
        out.append(('ignore', ['env', 'exit', 0], 1))
        out.append(('default', ['env', 'selfkill', 15], n - 1))
        out.append(('default', ['env', 'sig', 19], 1))              # stopped mid-sequence
        out.append(('default', ['env', 'sig', 9], n - 1))
    return out


def fd_enumeration(n):
    cases = []
    for tr, kinds in (('fd', ('ptyfd', 'sockfd', 'pipe')), ('socket', ('sockpair', 'tcp'))):
        seqs = LC.sequences(LC.fd_ops(tr), n)
        for kind in kinds:
            envs = [None] + [(['env', 'peerclose', 0], p) for p in range(n)]
            if kind == 'tcp':
                envs += [(['env', 'peerreset', 0], p) for p in range(n)]
            for env in envs:
                for sq in seqs:
                    if env is None:
                        items = sq
                    else:
                        if env[1] > len(sq):
                            continue
                        items = LC.with_env(sq, env[0], env[1])
                    cases.append({'tr': tr, 'kind': kind, 'items': items, 'gen': 'fd-enum'})
    return cases


O = lambda name, arg=0: ['op', name, arg]
PTY_PATHS = [      # every way of observing the death, and orders of repeating those calls
    [O('IsAlive'), O('IsAlive'), O('Wait')],
    [O('Wait'), O('Wait'), O('IsAlive')],
    [O('Close', 1), O('IsAlive'), O('Wait')],
    [O('Close', 0), O('Wait'), O('IsAlive'), O('Close', 1)],
    [O('Terminate', 0), O('Wait'), O('IsAlive')],
    [O('Terminate', 1), O('IsAlive'), O('Close', 0)],
    [O('ExpectEOF'), O('IsAlive'), O('Wait')],
    [O('Read'), O('IsAlive'), O('Close', 1), O('Wait')],
    [O('Kill', 9), O('Wait'), O('IsAlive')],
    [O('IsAlive'), O('ExpectEOF'), O('Wait'), O('Terminate', 1), O('Close', 1), O('IsAlive')],
    [O('WithExit', 0), O('Wait'), O('IsAlive')],
    [O('Wait'), O('Read'), O('ExpectEOF'), O('IsAlive')],
]
POPEN_PATHS = [
    [O('Wait'), O('Wait')],
    [O('ExpectEOF'), O('Wait')],
    [O('Wait'), O('ExpectEOF'), O('Wait')],
    [O('SendEof'), O('Wait'), O('SendEof'), O('Wait')],
    # "make sure it is gone": a signal to a child that has already died (not yet waited for), then wait()
    [O('Kill', 9), O('Wait'), O('Wait')],
    [O('ExpectEOF'), O('Kill', 1), O('Wait')],
]


def sweep(ctx, codes, sigs, npaths=None):
    """all exit codes / terminating signals x observation paths x pty and PopenSpawn children; the
    child has died (by its own exit, by an outside signal, or by killing itself) before the first
    look, or dies between the first and the second operation (alive first, then dead)"""
    cases = []
    k = 0
    for fate in [('exit', c) for c in codes] + [('sig', g) for g in sigs]:
        env = ['env', 'exit', fate[1]] if fate[0] == 'exit' else ['env', 'sig', fate[1]]
        for tr, paths in (('pty', PTY_PATHS), ('popen', POPEN_PATHS)):
            if tr == 'pty' and fate in INHERITED_IGNORED:
                continue
            for j, path in enumerate(paths):
                if npaths is not None and (j + fate[1]) % len(paths) >= npaths:
                    continue
                k += 1
                e = list(env)
                if fate[0] == 'sig' and k % 3 == 0 and fate[1] != 9:
                    e = ['env', 'selfkill', fate[1]]
                cases.append({'tr': tr, 'disp': 'default', 'items': [e] + path, 'gen': 'sweep'})
                if tr == 'pty' and k % 2 == 0:
                    # alive at the first look, dead afterwards
                    cases.append({'tr': tr, 'disp': 'default', 'items': [O('IsAlive'), e] + path, 'gen': 'sweep'})
                if tr == 'popen' and fate[0] == 'sig' and j == 0:
                    # PopenSpawn.kill(sig) as the cause of death
                    cases.append({'tr': tr, 'disp': 'default', 'items': [O('Kill', fate[1]), O('Wait'), O('Wait')], 'gen': 'sweep'})
        if fate not in INHERITED_IGNORED:
            cases.append({'tr': 'run', 'fate': list(fate), 'gen': 'run'})
    return cases


CORE_SIGNALS = [3, 4, 5, 6, 7, 8, 11, 24, 25, 31]


def core_sweep(ctx, sigs):
    """children that are allowed to dump core (RLIMIT_CORE raised, throw-away working directory) and die
    of a core-dumping signal - sent from outside, by the child to itself, by pexpect's own kill() -
    through every observation path; pty and PopenSpawn, and run(..., withexitstatus=True)"""
    cases = []
    k = 0
    for g in sigs:
        for tr, paths in (('pty', PTY_PATHS), ('popen', POPEN_PATHS)):
            if tr == 'pty' and ('sig', g) in INHERITED_IGNORED:
                continue
            for path in paths:
                k += 1
                e = ['env', 'selfkill' if k % 3 == 0 else 'sig', g]
                cases.append({'tr': tr, 'disp': 'core', 'items': [e] + path, 'gen': 'core-sweep'})
                if tr == 'pty':
                    cases.append({'tr': tr, 'disp': 'core', 'items': [O('IsAlive'), e] + path, 'gen': 'core-sweep'})
                    if k % 2 == 0:
                        cases.append({'tr': tr, 'disp': 'core', 'items': [O('Kill', g)] + path, 'gen': 'core-sweep'})
            if tr == 'popen':
                cases.append({'tr': tr, 'disp': 'core', 'items': [O('Kill', g), O('Wait'), O('Wait')], 'gen': 'core-sweep'})
        if ('sig', g) not in INHERITED_IGNORED:
            cases.append({'tr': 'run', 'fate': ['sig', g], 'core': True, 'gen': 'core-run'})
    # a child that may dump core but ends otherwise: no core flag
    for fate_env in (['env', 'exit', 131], ['env', 'sig', 15], ['env', 'sig', 9]):
        for path in PTY_PATHS[:4]:
            cases.append({'tr': 'pty', 'disp': 'core', 'items': [fate_env] + path, 'gen': 'core-sweep'})
    return cases


def steal_cases(ctx, codes, sigs, full):
    """foreign reaper: the status of the dead pty child is collected by somebody else - a helper thread
    calling waitpid() on the zombie ('stolen'), the same while the child is still running when pexpect
    polls it and wait() is about to block ('waitsteal'), and (iso = sigign, in a helper process) a host
    program that ignores SIGCHLD - then every way of looking and every repetition order"""
    after = PTY_PATHS + [[O('Terminate', 0), O('IsAlive')], [O('Close', 1), O('Close', 1), O('Wait')],
                         [O('Wait'), O('Wait'), O('Close', 0)], [O('SendEof'), O('Send'), O('IsAlive')],
                         [O('WithExit', 1), O('IsAlive')], [O('Del')]]
    deaths = [['env', 'exit', c] for c in codes] + [['env', 'sig', g] for g in sigs]
    cases = []
    for iso in (None, 'sigign'):
        tag = 'steal-sigign' if iso else 'steal-thread'
        def add(items):
            c = {'tr': 'pty', 'disp': 'default', 'items': items, 'gen': tag}
            if iso:
                c['iso'] = iso
            cases.append(c)
        k = 0
        for j, path in enumerate(after):
            for i, d in enumerate(deaths):
                if not full and (i + j) % 3:
                    continue
                k += 1
                # dead, and the status gone, before pexpect looks (with SIGCHLD ignored dying and losing the
                # status is one step: the harness logs `stolen` itself)
                add([d] + ([] if iso else [['env', 'stolen', 0]]) + path)
                if k % 2:
                    add([O('IsAlive'), d] + ([] if iso else [['env', 'stolen', 0]]) + path)
            for c in codes[:2 if not full else len(codes)]:
                # running when wait() polls; gone, with its status, when wait() blocks
                add([['env', 'waitsteal', c], O('Wait')] + path)
                add([O('IsAlive'), ['env', 'waitsteal', c], O('Wait')] + path)
        # all sequences of two operations after each of the two histories
        ops = LC.pty_ops([9])
        for sq in LC.sequences(ops, 2):
            add([['env', 'exit', codes[0]]] + ([] if iso else [['env', 'stolen', 0]]) + sq)
            add([['env', 'waitsteal', codes[-1]], O('Wait')] + sq)
    return cases


def log_cases(ctx, n, rng, nsample):
    """the caller's log file (logfile / logfile_read / logfile_send): open all along, or closed by its owner
    before the lifecycle operations (`with open(..) as log: child = spawn(.., logfile=log)` and the child
    outlives the block) / between them; pty, fdspawn, SocketSpawn"""
    cases = []
    ops = [o for o in LC.pty_ops([9, 19]) if o[1:] != ['WithExit', 0]]
    variants = [('logfile', 0), ('logfile_read', 0), ('logfile_send', 0), ('logfile', 1), ('logfile', None)]
    scen = PRIMARY + DEAD[:1]
    # (the longer enumeration of the thorough tier: the three attributes closed before the first operation; the
    # other placements are in the enumeration one shorter and in the sampled histories)
    for attr, pos in (variants if n <= 2 else variants[:3]):
        for disp, env, epos in scen:
            for sq in LC.sequences(ops, n):
                items = list(sq)
                if pos is not None:
                    if pos > len(items):
                        continue
                    items = LC.with_env(items, ['env', 'logclose', 0], pos)
                if env is not None:
                    items = [list(env)] + items
                cases.append({'tr': 'pty', 'disp': disp, 'log': attr, 'items': items, 'gen': 'log-enum%d' % n})
    for tr, kinds in (('fd', ('ptyfd', 'sockfd', 'pipe')), ('socket', ('sockpair', 'tcp'))):
        seqs = LC.sequences(LC.fd_ops(tr), n)
        for kind in kinds:
            for attr, pos in variants:
                for penv in (None,) + ((['env', 'peerclose', 0],) + ((['env', 'peerreset', 0],) if kind == 'tcp' else ())
                                       if pos == 0 else ()):
                    for sq in seqs:
                        items = list(sq)
                        if pos is not None:
                            if pos > len(items):
                                continue
                            items = LC.with_env(items, ['env', 'logclose', 0], pos)
                        if penv is not None:
                            items = [penv] + items
                        cases.append({'tr': tr, 'kind': kind, 'log': attr, 'items': items, 'gen': 'log-enum%d' % n})
    # longer histories, sampled: the log is closed at a random point of a sequence of n + 1 operations
    longer = []
    seqs3 = LC.sequences(ops, n + 1)
    for _ in range(nsample):
        sq = rng.choice(seqs3)
        disp, env, _p = rng.choice(scen)
        items = LC.with_env(list(sq), ['env', 'logclose', 0], rng.randrange(len(sq)))
        if env is not None:
            items = [list(env)] + items
        longer.append({'tr': 'pty', 'disp': disp, 'log': rng.choice(L_ATTRS), 'items': items, 'gen': 'log-enum%d-sampled' % (n + 1)})
    return cases + longer


L_ATTRS = ('logfile', 'logfile_read', 'logfile_send')


def lowfd_cases(ctx, n):
    """fdspawn / SocketSpawn on a descriptor whose NUMBER is 0, 1 or 2 (a program running without that
    standard stream); executed in a helper process that gives up its own stream for it"""
    cases = []
    for k, c in enumerate(fd_enumeration(n)):
        # every number for the histories that release the descriptor, one (rotating) for the others
        releasing = any(it[1] in ('Close', 'WithExit') for it in c['items'])
        for low in ((0, 1, 2) if releasing else (k % 3,)):
            d = dict(c)
            d.update(iso='lowfd', low=low, gen='lowfd-enum%d' % n)
            cases.append(d)
    return cases


def build_corpus(ctx):
    quick = ctx.quick()
    rng = random.Random(ctx.seed * 7907 + 13)
    cases = []
    exhaustive = {}
    core_ok, core_desc = ctx.core
    if ctx.pid == 'C10':
        if quick:
            cases += pty_enumeration(ctx, 3, [9, 19], PRIMARY + DEAD + mid(3, False)[:2], 'pty-enum3', with_normal_exit=False)
            cases += fd_enumeration(3)
            cases += sweep(ctx, range(0, 256, 16), [1, 9, 15], npaths=4)
            cases += log_cases(ctx, 2, rng, 1500)
            cases += lowfd_cases(ctx, 2)
            exhaustive = {'log file': LOG_SPACE % 2, 'low descriptor numbers': LOW_SPACE % 2,
                          'pty': 'all sequences <= 3 over 14 operations x 8 dispositions (normal, ignores HUP+INT, stopped, '
                                 'stopped+ignores, already exited, already killed, exits before the 2nd / 3rd operation)',
                          'fd/socket': 'all sequences <= 3 x {pty master, socket fd, pipe | socketpair, TCP} x peer '
                                       '{open, closes at 0..2, resets at 0..2 (TCP)}'}
        else:
            cases += pty_enumeration(ctx, 4, [9, 19], PRIMARY[:3], 'pty-enum4', with_normal_exit=False)
            cases += pty_enumeration(ctx, 4, [9, 19], PRIMARY[3:] + DEAD + mid(4, True), 'pty-enum4-sampled', limit=25000,
                                     rng=rng, with_normal_exit=False)
            cases += pty_enumeration(ctx, 3, [1, 2, 9, 15, 18, 19], PRIMARY + DEAD + mid(3, False), 'pty-enum3-allsigs')
            cases += fd_enumeration(4)
            cases += sweep(ctx, range(0, 256, 4), TERM_SIGNALS, npaths=6)
            cases += log_cases(ctx, 3, rng, 6000)
            cases += lowfd_cases(ctx, 3)
            exhaustive = {'log file': LOG_SPACE % 3, 'low descriptor numbers': LOW_SPACE % 3,
                          'pty': 'all sequences <= 4 over 14 operations x 3 dispositions (normal, ignores HUP+INT, stopped); all '
                                 'sequences <= 3 over 19 operations (six signals for kill) x 9 dispositions (+ stopped and '
                                 'ignoring, already exited / killed, exits before operation 2 / 3, killed before operation 2); '
                                 'length 4 under the other dispositions sampled (25000, seeded)',
                          'fd/socket': 'all sequences <= 4 x {pty master, socket fd, pipe | socketpair, TCP} x peer '
                                       '{open, closes at 0..3, resets at 0..3 (TCP)}'}
    else:
        if quick:
            cases += sweep(ctx, range(256), TERM_SIGNALS, npaths=8)
            cases += pty_enumeration(ctx, 3, [9], PRIMARY + DEAD + mid(3, False), 'pty-enum3', with_normal_exit=False)
            cases += steal_cases(ctx, [0, 7, 255], [9, 15], False)
            if core_ok:
                cases += core_sweep(ctx, [3, 6, 11])
                cases += pty_enumeration(ctx, 2, [3], [('core', None, 0), ('core', ['env', 'sig', 6], 0), ('core', ['env', 'sig', 11], 1)],
                                         'pty-enum2-core', with_normal_exit=False)
            exhaustive = {'core dumps': CORE_SPACE % ('SIGQUIT, SIGABRT, SIGSEGV', 2) if core_ok else 'not exercised: ' + core_desc,
                          'foreign reaper': STEAL_SPACE,
                          'sweep': 'all 256 codes and %d signals x 8 of 12 pty paths (rotating) and all 4 popen paths, + run(withexitstatus=True) for each' % len(TERM_SIGNALS),
                          'pty': 'all sequences <= 3 over 13 operations x 9 dispositions'}
        else:
            cases += sweep(ctx, range(256), TERM_SIGNALS)
            cases += pty_enumeration(ctx, 4, [9, 19], DEAD[:1] + mid(4, False)[:2], 'pty-enum4-dead', with_normal_exit=False)
            cases += pty_enumeration(ctx, 4, [9, 19], DEAD[1:] + mid(4, False)[2:], 'pty-enum4-sampled', limit=25000, rng=rng,
                                     with_normal_exit=False)
            cases += pty_enumeration(ctx, 3, [1, 2, 9, 15, 18, 19], PRIMARY + DEAD + mid(3, False), 'pty-enum3-allsigs')
            cases += steal_cases(ctx, [0, 1, 7, 128, 255], [1, 9, 15], True)
            if core_ok:
                cases += core_sweep(ctx, CORE_SIGNALS)
                cases += pty_enumeration(ctx, 3, [3, 6], [('core', None, 0), ('core', ['env', 'sig', 6], 0), ('core', ['env', 'sig', 11], 1),
                                                          ('core', ['env', 'sig', 3], 2)], 'pty-enum3-core', with_normal_exit=False)
            exhaustive = {'core dumps': CORE_SPACE % ('every core-dumping signal', 3) if core_ok else 'not exercised: ' + core_desc,
                          'foreign reaper': STEAL_SPACE,
                          'sweep': 'all 256 codes and %d signals x all 12 pty / 4 popen paths, + run(withexitstatus=True)' % len(TERM_SIGNALS),
                          'pty': 'all sequences <= 4 over 14 operations x 3 death dispositions (already exited, exits before '
                                 'operation 2 / 3); all sequences <= 3 over 19 operations x 9 dispositions; length 4 under the other '
                                 'death dispositions sampled (25000, seeded)'}
    return cases, exhaustive


CORE_SPACE = ('children with RLIMIT_CORE raised in a throw-away directory killed by %s (from outside / by themselves / by '
              'kill()) x all 12 pty / 6 popen observation paths (+ alive at the first look) + run(withexitstatus=True); all '
              'sequences <= %d over 13 operations incl. kill(SIGQUIT) on such a child; the kernel\'s CLD_DUMPED is the oracle')
STEAL_SPACE = ('pty child whose status is collected by someone else {foreign waitpid() in a helper thread on the zombie | the '
               'same at the moment wait() enters its blocking waitpid on a child its poll saw running | SIGCHLD ignored in the '
               'host program (helper process)} x exit codes / signals x 18 observation paths (+ alive at the first look); all '
               'sequences of 2 operations after each history')
LOG_SPACE = ('{logfile, logfile_read, logfile_send closed by the caller before the first operation | logfile closed before the '
             'second | logfile open throughout} x all sequences <= %d x {pty: 5 dispositions | pty master, socket fd, pipe | '
             'socketpair, TCP: peer open (closed / reset: with the log closed first)}; one operation longer with the log closed at a random point: sampled')
LOW_SPACE = ('wrapped descriptor number 0 / 1 / 2 x all sequences <= %d with a close() / with-exit x the fd / socket kinds and peer '
             'actions of the plain enumeration (the sequences that release nothing: one of the three numbers, rotating)')


# --------------------------------------------------------------------------------------------
# execution + validation
# --------------------------------------------------------------------------------------------
strip = LC.strip
BATCH = 40000
ISO_CHUNK = 48
# TLC wraps long tuples over several lines
_VERDICT = re.compile(r'<<\s*"VERDICT",\s*(\d+),\s*("[^"]*"|\d+),\s*"([^"]*)",\s*(\d+)\s*>>')


def trace_consts(pid):
    return TRACE_CONSTS + [('Pid', '= "%s"' % pid)]


def execute_all(ctx, pool, cases):
    """-> list of ('ok', json text, nontrivial, nops); machinery hiccups get one more attempt"""
    outs = [None] * len(cases)
    plain = [i for i, c in enumerate(cases) if not c.get('iso')]
    # cases that need a process of their own (SIGCHLD ignored / descriptor numbers 0..2): one helper
    # process per chunk, started by the pool workers
    chunks = []
    for mode in sorted(set(c['iso'] for c in cases if c.get('iso'))):
        idx = [i for i, c in enumerate(cases) if c.get('iso') == mode]
        chunks += [idx[k:k + ISO_CHUNK] for k in range(0, len(idx), ISO_CHUNK)]
    pending = pool.map_async(LC.execute_iso_chunk, [[cases[i] for i in ch] for ch in chunks], chunksize=1)
    for i, o in zip(plain, pool.map(LC.execute_json, [cases[i] for i in plain], chunksize=16)):
        outs[i] = o
    for ch, res in zip(chunks, pending.get()):
        for i, o in zip(ch, res):
            outs[i] = tuple(o)
    bad = [i for i, o in enumerate(outs) if o[0] == 'error']
    if bad:
        again = pool.map(LC.execute_any_json, [cases[i] for i in bad], chunksize=1)
        for i, o in zip(bad, again):
            outs[i] = o
        bad = [i for i, o in enumerate(outs) if o[0] == 'error']
        if bad:
            raise tlc.TLCError('%d case(s) could not be executed, e.g. %s\n%s' % (len(bad), cases[bad[0]], outs[bad[0]][1]))
    return outs


def validate_strings(ctx, items, tag, procs=10, timeout=2400):
    """items: [(id, JSON text of the events)] -> ({id: (verdict, l)}, stats).  Same protocol as
    tracecheck.validate (N TLC processes, -workers 1, one verdict line per trace) without ever
    holding the traces as Python objects."""
    if not items:
        return {}, dict(generated=0, distinct=0, wall_s=0.0, runs=0)
    procs = max(1, min(procs, (len(items) + 199) // 200))
    parts = [items[i::procs] for i in range(procs)]
    cfg = tlc.write_cfg(os.path.join(ctx.work, '%s.cfg' % tag), spec='TraceSpec', constants=trace_consts(ctx.pid))

    def one(i):
        tf = os.path.join(ctx.work, '%s.%d.json' % (tag, i))
        with open(tf, 'w') as f:
            f.write('[')
            for k, (tid, js) in enumerate(parts[i]):
                f.write('%s{"id":%s,"ev":%s}' % (',' if k else '', json.dumps(tid), js))
            f.write(']')
        res = tlc.run('LifecycleTrace', cfg, ctx.work, workers=1, timeout=timeout, env={'TRACE_FILE': tf},
                      outname='%s.%d.out' % (tag, i), heap='3g')
        v = {}
        with open(res['out'], errors='replace') as f:
            for m in _VERDICT.finditer(f.read()):
                v[json.loads(m.group(2)) if m.group(2).startswith('"') else int(m.group(2))] = (m.group(3), int(m.group(4)))
        os.unlink(tf)
        return res, v, len(parts[i])

    t0 = time.time()
    with ThreadPoolExecutor(procs) as ex:
        results = list(ex.map(one, range(procs)))
    verdicts = {}
    gen = dist = 0
    for res, v, n in results:
        if res['machinery_error'] or res['timed_out'] or res['violated'] or len(v) != n:
            raise tlc.TLCError('trace validation run failed (rc=%s, %d/%d verdicts, violated=%s): %s' % (
                res['rc'], len(v), n, res['violated'], res['out']))
        verdicts.update(v)
        gen += res['generated']
        dist += res['distinct']
    return verdicts, dict(generated=gen, distinct=dist, wall_s=round(time.time() - t0, 2), runs=procs,
                          cmd=results[0][0]['cmd'])


def validate(ctx, traces, tag, procs=10):
    return validate_strings(ctx, [(t['id'], json.dumps(t['ev'])) for t in traces], tag, procs)


def facts(case, ev, at):
    """narrow facts about a failing case (for known-findings signatures)"""
    upto = ev[:max(at - 1, 0)]       # TLC reports the index of the event AFTER the failing one
    fail = upto[-1] if upto else {}
    ops = [e for e in upto if e['e'] == 'op']
    envs = [e['a'] for e in upto if e['e'] == 'env']
    return {
        'transport': case['tr'] if case['tr'] != 'run' else 'pty',
        'kind': case.get('kind', ''),
        'disp': case.get('disp', 'default'),
        'op': fail.get('op', fail.get('e', '')),
        'ret': fail.get('ret', ''),
        'failed_close_before': any(e['op'] == 'Close' and e['ret'] == 'ExceptionPexpect' and not e['closed'] for e in ops[:-1]),
        'close_raised_oserror': fail.get('op') in ('Close', 'WithExit') and fail.get('ret') == 'OSError',
        'peer': 'reset' if 'peerreset' in envs else 'closed' if 'peerclose' in envs else 'open',
    }


class NoSuitableTrace(tlc.TLCError):
    pass


def self_test(ctx, uniq, verdicts):
    """corrupt one logged field of an accepted trace -> the trace specification must reject it"""
    def find(pred):
        for t in uniq:
            if verdicts[t['id']][0] != 'ok':
                continue
            for i, e in enumerate(t['ev']):
                if e['e'] == 'op' and pred(t, i, e):
                    return t, i
        raise NoSuitableTrace('self-test: no suitable accepted trace in the corpus')

    muts = []

    def add(name, pred, change, expect, optional=False):
        try:
            t, i = find(pred)
        except NoSuitableTrace:
            if optional:
                return
            raise
        c = copy.deepcopy(t)
        c['id'] = name
        change(c['ev'][i])
        muts.append((c, expect))

    pty = lambda t: t['ev'][0].get('tr') == 'pty'
    if ctx.pid == 'C09':
        add('wrong-exitstatus', lambda t, i, e: pty(t) and e['term'] and e['es'] >= 0,
            lambda e: e.update(es=(e['es'] + 1) % 256), 'C09:wrong-exitstatus')
        add('both-set', lambda t, i, e: pty(t) and e['term'] and e['es'] >= 0,
            lambda e: e.update(ss=9), 'C09:both-status-set')
        add('status-changed', lambda t, i, e: pty(t) and e['term'] and e['ss'] >= 0 and i > 2 and t['ev'][i - 1].get('term'),
            lambda e: e.update(ss=e['ss'] + 1, sv=e['sv'] + 1), 'C09:')
        add('status-lost', lambda t, i, e: pty(t) and e['term'] and e['es'] >= 0 and i > 2 and t['ev'][i - 1].get('term'),
            lambda e: e.update(es=-1, sk='none', sv=-1), 'C09:')
        add('wait-return', lambda t, i, e: pty(t) and e['op'] == 'Wait' and e['ret'] == 'int',
            lambda e: e.update(rv=(e['rv'] + 1) % 256), 'C09:wait-return')
        add('terminated-flag', lambda t, i, e: pty(t) and e['term'] and e['op'] in ('IsAlive', 'Wait', 'Close'),
            lambda e: e.update(term=False), 'C09:')
        add('core-bit-in-signalstatus', lambda t, i, e: pty(t) and e['term'] and e['ss'] >= 0 and e['fc'],
            lambda e: e.update(ss=e['ss'] + 128), 'C09:wrong-signalstatus', optional=not ctx.core[0])
        stolen_before = lambda t, i: any(x['e'] == 'env' and x['a'] == 'stolen' for x in t['ev'][:i])
        add('claimed-after-status-lost', lambda t, i, e: pty(t) and e['op'] == 'Wait' and e['exc'] and stolen_before(t, i),
            lambda e: e.update(ret='None', exc=False, term=True), 'C09:no-status-set')
        add('invented-status-after-status-lost', lambda t, i, e: pty(t) and e['op'] == 'Wait' and e['exc'] and stolen_before(t, i)
            and e['fk'] == 'exit' and e['fv'] != 0,
            lambda e: e.update(ret='int', rv=0, exc=False, term=True, es=0, sk='exit', sv=0), 'C09:wrong-exitstatus')
        add('popen-wait-return', lambda t, i, e: t['ev'][0].get('tr') == 'popen' and e['op'] == 'Wait' and e['ret'] == 'int',
            lambda e: e.update(rv=e['rv'] + 1), 'C09:wait-return', optional=True)   # none accepted while `status` is unset
    else:
        add('alive-after-reaped', lambda t, i, e: pty(t) and e['op'] == 'IsAlive' and e['ret'] == 'False' and e['proc'] == 'reaped',
            lambda e: e.update(ret='True'), 'C10:alive-after-reaped')
        add('terminated-while-running', lambda t, i, e: pty(t) and not e['term'] and e['proc'] == 'run' and not e['gone'],
            lambda e: e.update(term=True), 'C10:terminated-while-running')
        add('zombie-after-close', lambda t, i, e: pty(t) and e['op'] == 'Close' and e['ret'] == 'None' and e['proc'] == 'reaped',
            lambda e: e.update(proc='zombie'), 'C10:zombie-leak')
        add('alive-after-force', lambda t, i, e: pty(t) and e['op'] == 'Terminate' and e['arg'] == 1 and e['proc'] == 'reaped',
            lambda e: e.update(proc='run', ret='False', term=False, es=-1, ss=-1, sk='none', sv=-1), 'C10:force-left-alive')
        add('fd-left-open', lambda t, i, e: e['op'] == 'Close' and e['ret'] == 'None' and e['fd'] == 'closed',
            lambda e: e.update(fd='open'), 'C10:fd-leak')
        add('fd-count', lambda t, i, e: pty(t) and e['op'] == 'Close' and e['ret'] == 'None' and e['dfd'] == 0,
            lambda e: e.update(dfd=1), 'C10:fd-leak')
        add('touched', lambda t, i, e: e['op'] == 'Send' and e['fd'] == 'reused' and not e['touched'],
            lambda e: e.update(touched=True, ret='int', rv=1, exc=False), 'C10:io-after-close')
        add('second-close-raises', lambda t, i, e: e['op'] == 'Close' and e['ret'] == 'None' and i > 1
            and t['ev'][i - 1].get('closed') and t['ev'][i - 1].get('e') == 'op' and (not pty(t) or t['ev'][i - 1]['pclosed']),
            lambda e: e.update(ret='OSError', exc=True), 'C10:')
    if ctx.pid == 'C10':
        logclosed_before = lambda t, i: any(x['e'] == 'env' and x['a'] == 'logclose' for x in t['ev'][:i])
        add('close-raises-on-closed-log', lambda t, i, e: pty(t) and e['op'] == 'Close' and e['arg'] == 1 and e['ret'] == 'None'
            and logclosed_before(t, i) and t['ev'][i - 1].get('proc') == 'run' and not t['ev'][i - 1].get('closed'),
            lambda e: e.update(ret='ValueError', exc=True, proc='run', fd='open', closed=False, fdv='num', term=False, es=-1, ss=-1,
                               sk='none', sv=-1, fk='none', fv=-1, dfd=1, pclosed=False), 'C10:force-')
        add('fd-close-raises-on-closed-log', lambda t, i, e: not pty(t) and e['op'] == 'Close' and e['ret'] == 'None'
            and logclosed_before(t, i) and t['ev'][i - 1].get('fd') == 'open',
            lambda e: e.update(ret='ValueError', exc=True, fd='open', closed=False, fdv='num'), 'C10:fd-leak')
        add('low-fd-left-open', lambda t, i, e: t['case'].get('low') is not None and t['ev'][0].get('tr') == 'fd' and e['op'] == 'Close'
            and e['ret'] == 'None' and e['fd'] == 'closed' and t['ev'][i - 1].get('fd') == 'open',
            lambda e: e.update(fd='open'), 'C10:fd-leak')
    add('closed-flag', lambda t, i, e: e['op'] == 'Close' and e['closed'] and i > 1 and not t['ev'][i - 1].get('closed', True),
        lambda e: e.update(closed=False), '')
    v, _ = validate(ctx, [m for m, _ in muts], 'selftest', procs=1)
    out = {}
    for m, expect in muts:
        got = v[m['id']][0]
        if got == 'ok' or not got.startswith(expect):
            raise tlc.TLCError('binding self-test: corruption %s -> verdict %s (expected a rejection with %s...)' % (
                m['id'], got, expect or 'any clause'))
        out[m['id']] = got
    return out


def run_stops_early(ctx):
    """run(..., withexitstatus=True) leaves its loop while the child is still alive (a callback returns true, the timeout,
    TIMEOUT as an event) and the child then ends by exiting with a code of its own when the terminal goes away: the status
    returned alongside the output is that code (the property's last sentence), not something read before the child ended"""
    import pexpect, sys
    n = 0
    for code in (7, 0, 255):
        prog = ('import os,signal,sys,time; signal.signal(signal.SIGHUP, lambda *a: os._exit(%d)); '
                'print("ready", flush=True); time.sleep(60)' % code)
        cmd = '%s -c \'%s\'' % (sys.executable, prog)
        for how, kw in (('callback-returns-true', {'events': [('ready', lambda d: True)]}),
                        ('timeout', {'timeout': 0.5}),
                        ('TIMEOUT-event-callback-returns-true', {'events': {pexpect.TIMEOUT: lambda d: True}, 'timeout': 0.5})):
            got = None
            for attempt in range(3):
                try:
                    out, st = pexpect.run(cmd, withexitstatus=True, **kw)
                    got = (out, st)
                except Exception as e:
                    got = ('%s: %s' % (type(e).__name__, e), None)
                if got[1] == code:
                    break
            n += 1
            if got[1] != code:
                ctx.fail('C09:run-returns-a-status-that-is-not-the-child\'s-fate', {'run_stops_by': how, 'child_exits_with': code},
                         detail={'returned': repr(got), 'want_status': code}, signature={'stops_by': how})
    ctx.note('%d run(withexitstatus=True) calls that stop while the child is alive (callback, timeout, TIMEOUT event); the child '
             'exits with its own code at the hang-up: that code is returned' % n)


def status_before_flag(ctx, report=True):
    """`terminated` is pexpect's record that it has observed the child's end: at the instant it becomes true - where another
    thread polling it, or a signal handler, may look - exactly one of exitstatus / signalstatus is already set and is the
    child's fate.  The observer inside the call is a __setattr__ hook of a subclass; pty transport."""
    import pexpect, sys

    class Watched(pexpect.spawn):
        snaps = None

        def __setattr__(self, name, value):
            object.__setattr__(self, name, value)
            if name == 'terminated' and value is True and self.snaps is not None:
                self.snaps.append((getattr(self, 'exitstatus', None), getattr(self, 'signalstatus', None)))
    bad = []
    for how in ('wait', 'isalive', 'close'):
        if how == 'close':
            c = Watched(sys.executable, ['-c', 'import time; time.sleep(60)'], timeout=10)
            want = None
        else:
            c = Watched(sys.executable, ['-c', 'import sys; sys.exit(3)' if how == 'wait' else
                                         'import os, signal; os.kill(os.getpid(), signal.SIGKILL)'], timeout=10)
            want = (3, None) if how == 'wait' else (None, signal.SIGKILL)
        c.snaps = []
        try:
            if how == 'wait':
                c.wait()
            elif how == 'isalive':
                end = time.time() + 10
                while c.isalive() and time.time() < end:
                    time.sleep(0.02)
            else:
                c.close(force=True)
        except pexpect.ExceptionPexpect:
            pass
        snaps = list(c.snaps)
        c.snaps = None
        try:
            c.close(force=True)
        except Exception:
            pass
        for es, ss in snaps:
            if (es is None) == (ss is None) or (want is not None and (es, ss) != want):
                bad.append({'observed_through': how, 'at_the_instant_terminated_became_true': {'exitstatus': es, 'signalstatus': ss},
                            'child_fate': want})
                break
    if report:
        for b in bad:
            ctx.fail('C09:terminated-set-before-the-status', {'status_before_flag': b['observed_through']}, detail=b,
                     signature={'through': b['observed_through']})
        ctx.note('an observer inside wait() / isalive() / close() (attribute hook): whenever `terminated` becomes true the exit code or '
                 'the signal is already there (%d of 3 scenarios fail)' % len(bad))
    return bad


def run(ctx):
    pid = ctx.pid
    if ctx.replay:
        return replay(ctx)
    print('[%s] %s - tier %s seed %d' % (pid, DESCR[pid], ctx.tier, ctx.seed), flush=True)
    os.chdir(ctx.work)
    mc, sens = model_check(ctx)
    ctx.note('TLC MCLifecycle: %d states generated, %d distinct, depth %d; %s hold (%.0fs); every action taken' % (
        mc['generated'], mc['distinct'], mc['depth'], ', '.join(INVARIANTS[pid]), mc['wall_s']))
    ctx.note('model sensitivity: ' + ', '.join('%s -> %s violated' % kv for kv in sorted(sens.items())))

    # does this kernel set the "dumped core" flag for a child that raised its RLIMIT_CORE?  (plain
    # fork / exec / waitid / waitpid - the answer decides whether the core-dump dimension is exercised)
    ctx.core = LW.core_probe(ctx.work)
    if pid == 'C09':
        ctx.note('core dumps %s: %s' % ('available' if ctx.core[0] else 'NOT available in this environment - the core-dump cases are '
                                        'not exercised (not a failure)', ctx.core[1]))
    cases, exhaustive = build_corpus(ctx)
    gens = Counter(c['gen'] for c in cases)
    exercised = Counter()
    seen = set()
    cnt = Counter()
    failing, drift, harness_bad, pool_ok = [], [], [], []
    per_gen_ok = Counter()
    nuniq = nops = nontriv = 0
    exec_s = tlc_s = 0.0
    tlc_states = 0
    tlc_cmd = None
    with Pool(12, initializer=LC.init_worker, initargs=(ctx.work,)) as pool:
        for b0 in range(0, len(cases), BATCH):
            batch = cases[b0:b0 + BATCH]
            t0 = time.time()
            outs = execute_all(ctx, pool, batch)
            exec_s += time.time() - t0
            # distinct recorded traces only (pids are not logged: equal traces are equal observations)
            new = []
            for c, o in zip(batch, outs):
                h = hashlib.md5(o[1].encode()).digest()
                if h in seen:
                    continue
                seen.add(h)
                new.append((c, o[1]))
                nontriv += bool(o[2])
                nops += o[3]
                js = o[1]
                exercised['death with the kernel\'s core flag set'] += '"fc":true' in js
                exercised['status collected by someone else'] += '"a":"stolen"' in js
                exercised['... with SIGCHLD ignored in the host program'] += c.get('iso') == 'sigign' and '"a":"stolen"' in js
                exercised['... in the moment wait() blocks'] += '"a":"stolen"' in js and any(it[1] == 'waitsteal' for it in c.get('items', ()))
                exercised['log file closed by its owner'] += '"a":"logclose"' in js
                exercised['log file attached'] += '"log":"open"' in js
                exercised['descriptor number 0..2'] += c.get('low') is not None
            del outs
            verdicts, st = validate_strings(ctx, [(i, js) for i, (c, js) in enumerate(new)], 'corpus%d' % (b0 // BATCH))
            tlc_s += st['wall_s']
            tlc_states += st['distinct']
            tlc_cmd = st.get('cmd')
            nuniq += len(new)
            for i, (c, js) in enumerate(new):
                v, at = verdicts[i]
                cnt[v] += 1
                if v == 'ok':
                    if per_gen_ok[(c['gen'], c.get('tr'))] < 1500:
                        per_gen_ok[(c['gen'], c.get('tr'))] += 1
                        pool_ok.append({'id': len(pool_ok), 'ev': json.loads(js), 'case': c})
                elif v.startswith('harness:'):
                    harness_bad.append((c, v, at))
                elif v.startswith('model:'):
                    drift.append((c, json.loads(js), v, at))
                elif v.startswith(pid + ':'):
                    failing.append((c, json.loads(js), v, at))
            del new
        ctx.note('%d operation sequences executed on real children / descriptors in %.0fs (%s)' % (
            len(cases), exec_s, ', '.join('%s %d' % kv for kv in sorted(gens.items()))))
        ctx.note('TLC trace validation (LifecycleTrace, Pid=%s): %d distinct traces, %d logged operations, %d states, %.0fs' % (
            pid, nuniq, nops, tlc_states, tlc_s))
        ctx.note('verdicts: ' + ', '.join('%s x%d' % kv for kv in sorted(cnt.items())))
        ctx.note('distinct traces exercising: ' + ', '.join('%s x%d' % kv for kv in exercised.items() if kv[1]))
        need = {'C09': ['status collected by someone else', '... with SIGCHLD ignored in the host program', '... in the moment wait() blocks']
                       + (['death with the kernel\'s core flag set'] if ctx.core[0] else []),
                'C10': ['log file closed by its owner', 'descriptor number 0..2']}[pid]
        for k in need:
            if not exercised[k]:
                raise tlc.TLCError('no trace of the corpus shows "%s": the dimension is not exercised' % k)
        for c, ev, v, at in drift[:3]:
            ctx.note('SPEC-DRIFT %s at event %d: case %s event %s' % (v, at - 1, json.dumps(c)[:300], json.dumps(ev[at - 2])[:400]))
        ctx.drift = len(drift)
        # ---- failing cases: re-run twice more, report only what fails every time ----
        confirmed = []
        if failing:
            fcases = [f[0] for f in failing]
            items = []
            for r in range(2):
                o2 = execute_all(ctx, pool, fcases)
                items += [('%d.%d' % (r, j), o[1]) for j, o in enumerate(o2)]
            v2, _ = validate_strings(ctx, items, 'rerun')
            for j, f in enumerate(failing):
                if all(v2['%d.%d' % (r, j)][0].startswith(pid + ':') for r in range(2)):
                    confirmed.append(f)
            ctx.note('%d failing trace(s), %d fail on both re-executions' % (len(failing), len(confirmed)))
    if harness_bad and not confirmed:
        raise tlc.TLCError('harness-level verdict (bug in /verif): %s at %d on case %s' % (
            harness_bad[0][1], harness_bad[0][2], harness_bad[0][0]))
    if harness_bad:
        ctx.note('%d harness-level verdicts (e.g. %s) next to the violations reported below' % (len(harness_bad), harness_bad[0][1]))
    for c, ev, v, at in confirmed:
        ctx.fail(v, {'case': c}, detail={'failing_event': at - 1, 'events': ev[:at - 1]}, signature=facts(c, ev, at))
    if pid == 'C09':
        run_stops_early(ctx)
        status_before_flag(ctx)
    verd_of = {t['id']: ('ok', 0) for t in pool_ok}
    try:
        st_self = self_test(ctx, pool_ok, verd_of)
        ctx.note('binding self-test: ' + ', '.join('%s -> %s' % kv for kv in sorted(st_self.items())))
    except NoSuitableTrace as e:
        if not confirmed:
            raise
        # so much of the corpus is rejected that no accepted trace of the needed shape is left:
        # the rejections themselves are the result of this run
        st_self = {'skipped': str(e)}
        ctx.note('binding self-test skipped (%s); %d violating traces are reported instead' % (e, len(confirmed)))
    status, nviol, nknown = common.conclude(ctx)
    samples = [{'case': t['case'], 'events': t['ev'], 'verdict': 'ok'} for t in (pool_ok[len(pool_ok) // 2:][:1] + pool_ok[-1:])]
    if confirmed:
        samples.append({'case': confirmed[0][0], 'events': confirmed[0][1], 'verdict': confirmed[0][2]})
    evidence.write(pid, ctx.tier, ctx.seed, 'model_checking', {
        'states': mc['distinct'], 'transitions': mc['generated'],
        'traces_validated_against_impl': nuniq, 'samples': samples,
        'evaluations': len(cases), 'distinct_nontrivial': nontriv,
        'rule': 'one execution per (transport, disposition, environment action placement, operation sequence) of the '
                'enumeration / sweep, each on a fresh real child or descriptor; distinct = distinct recorded event sequence '
                '(return values, object fields, /proc facts after every operation); non-trivial = the trace contains an '
                'environment action or an operation after which terminated / closed / process state / descriptor state / '
                'flag_eof differ from before',
        'exhaustive': not any('sampled' in g for g in gens), 'exhaustive_space': exhaustive,
        'logged_operations': nops,
        'by_generator': dict(gens),
        'dimensions_exercised': dict(exercised),
        'core_dump_probe': {'kernel_sets_core_flag': ctx.core[0], 'facts': ctx.core[1]},
        'model': {'module': 'MCLifecycle', 'cmd': mc['cmd'], 'depth': mc['depth'],
                  'invariants': INVARIANTS[pid] + (['StatusStable (action property)'] if pid == 'C09' else []),
                  'action_coverage': mc['coverage'],
                  'deviation_sensitivity': sens},
        'trace_validation': {'module': 'LifecycleTrace', 'tlc_states': tlc_states, 'cmd': tlc_cmd,
                             'verdict_counts': dict(cnt), 'self_test': st_self},
        'spec_drift': ctx.drift, 'known_findings_hit': nknown,
        'wall_split_s': {'model_check': mc['wall_s'], 'execution': round(exec_s, 1), 'trace_validation': round(tlc_s, 1)},
    }, assumptions=[
        'a signal has taken effect when the code looks next: the delayafterclose / delayafterterminate pauses are replaced '
        'by explicit synchronisation (waitid(WNOWAIT) for the zombie / the stop), never by sleeping',
        'the child (a /bin/sh script) has default dispositions except HUP+INT when "ignore" (and SIGPIPE / SIGXFSZ, which a '
        'pty child inherits as ignored from the interpreter); it never writes to its terminal',
        'the freed descriptor number is taken by someone else as soon as it is free (adversarial environment)',
        'ptyprocess (outside /repo) is part of the system under test as installed',
        'PopenSpawn: only the C09 half (wait / kill / sendeof / expect(EOF)); kill() on a reaped pid is not driven '
        '(the pid may have been recycled on this machine)',
        'each check reports its own property: the sister property\'s clauses are not evaluated in its runs',
        'foreign reaper: the schedule "somebody else\'s waitpid() wins" is chosen by the harness (the child is made to exit and '
        'is reaped by a helper thread at the moment pexpect is about to enter its blocking waitpid; pexpect\'s own call then '
        'runs against the real kernel).  With SIGCHLD ignored the kernel keeps no status: there the real fate is the one the '
        'harness commanded through the FIFO, not waitid(WNOWAIT).  Only pty children (PopenSpawn leaves reaping to the '
        'subprocess module, which reports return code 0 when its waitpid() fails with ECHILD)',
        'core dumps: exercised only when a probe child (plain fork/exec, no pexpect) gets the core flag from this kernel',
        'descriptor numbers 0..2 and SIGCHLD=SIG_IGN are process-global: those cases run in helper processes '
        '(lifecases.helper_main), one per chunk of cases',
    ], wall_s=ctx.wall(), violations=nviol)
    return status


def replay(ctx):
    d = json.load(open(ctx.replay))
    if 'run_stops_by' in d['case']:
        run_stops_early(ctx)
        bad = [f for f in ctx.failures if f.case.get('run_stops_by') == d['case']['run_stops_by']]
        print('replay: run() stopped by %s -> %s' % (d['case']['run_stops_by'], 'status differs from the child\'s exit code' if bad else 'ok'))
        if bad:
            print('VIOLATION property=%s replay=%s' % (ctx.pid, ctx.replay))
            return 1
        return 0
    if 'status_before_flag' in d['case']:
        bad = [b for b in status_before_flag(ctx, report=False) if b['observed_through'] == d['case']['status_before_flag']]
        print('replay: %s' % (bad or 'ok'))
        if bad:
            print('VIOLATION property=%s replay=%s' % (ctx.pid, ctx.replay))
            return 1
        return 0
    case = d['case']['case']
    os.chdir(ctx.work)
    LC.init_worker(ctx.work)
    o = LC.execute_any(case)
    signal.alarm(0)
    if 'error' in o:
        raise tlc.TLCError('replay could not be executed: ' + o['error'])
    ev = strip(o['ev'])
    v, _ = validate(ctx, [{'id': 'replay', 'ev': ev}], 'replay', procs=1)
    print('replay verdict: %s at event %d' % (v['replay'][0], v['replay'][1] - 1))
    for e in ev:
        print('   ', json.dumps(e))
    if v['replay'][0].startswith(ctx.pid + ':'):
        print('VIOLATION property=%s replay=%s' % (ctx.pid, ctx.replay))
        return 1
    return 0

"""C09 (exit status truth) and C10 (lifecycle safety): one model, two checks.

 1. TLC: spec/Lifecycle.tla (every public operation one action, written as the code performs it,
    kernel side explicit) is explored for every operation sequence up to the tier's length x
    dispositions x environment actions x transports; the properties are invariants / an action
    property.  Per-action coverage guard; every named deviation switched on must be caught by
    the invariant it breaks (the invariants are not vacuous).
 2. code -> spec: operation sequences are EXECUTED ON REAL CHILDREN / DESCRIPTORS
    (harness/lifeworld.py, worker pool): exhaustive enumeration over the operation alphabet x
    dispositions {normal, ignores HUP+INT, stopped, already exited / killed, exits or is killed
    mid-sequence} x transports {pty; fdspawn on pty master / socket descriptor / pipe;
    SocketSpawn on a socketpair / loopback TCP (peer close, peer reset)}, the C09 sweep (all 256
    exit codes, every terminating signal, through every observation path and repetition order,
    pty and PopenSpawn, plus run(..., withexitstatus=True)).  After EACH operation the return
    value / exception class, the object's fields, /proc/<pid>/stat, the fate reported by
    waitid(WNOWAIT), /proc/self/fd are logged; every trace ends with the leak facts.
    TLC validates every recorded trace against spec/LifecycleTrace.tla (total verdicts naming
    the first failing clause with its property id).
 3. a failing case is re-executed twice more and reported only if it fails every time.
 4. binding self-test: corrupted observations must be rejected.
"""
import copy, json, os, random, re, signal, time
from collections import Counter
from multiprocessing import Pool
from .. import tlc, tracecheck, evidence, common
from .. import lifecases as LC

TRACE_CONSTS = [('Transports', '<- TrAll'), ('Disps', '<- DispsAll'), ('Codes', '<- NoSet'), ('ExtSigs', '<- NoSet'),
                ('KillSigs', '<- NoSet'), ('MaxOps', '= 0'), ('MaxEnv', '= 0'), ('Devs', '<- TraceDevs')]
ACTIONS = ('IsAlive', 'Wait', 'Kill', 'Terminate', 'Close', 'SendEof', 'ExpectEOF', 'Send', 'Read', 'WithExit', 'Del',
           'ChildExits', 'ExternalSignal', 'NumberReused', 'PeerCloses', 'PeerResets')
INVARIANTS = {
    'C09': ['ObservedStatusTrue', 'DeathObserved', 'StatusStableInv', 'WaitReturnsCode', 'OnlyWaitBlocks', 'FlagEofMeansDead'],
    'C10': ['NeverAliveAfterReaped', 'NeverTerminatedWhileRunning', 'ForceLeavesDead', 'CloseIdempotent', 'NoLeak',
            'AfterCloseIoFails', 'OnlyWaitBlocks', 'FlagEofMeansDead'],
}
# deviation -> (property whose model check must catch it, the invariants that may fire)
SENSITIVITY = {
    'stale-after-failed-close': ('C10', {'AfterCloseIoFails'}),
    'socket-close-raises': ('C10', {'NoLeak', 'CloseIdempotent'}),
    'no-recheck-after-kill': ('C10', {'ForceLeavesDead', 'NoLeak'}),
    'popen-status-unset': ('C09', {'ObservedStatusTrue'}),
    'close-no-refresh': ('C09', {'DeathObserved', 'ObservedStatusTrue'}),
}
# default action "terminate" or "core dump" (SIGSTOP-like and default-ignored signals excluded)
TERM_SIGNALS = [1, 2, 3, 4, 5, 6, 7, 8, 9, 10, 11, 12, 13, 14, 15, 16, 24, 25, 26, 27, 29, 30, 31] + list(range(34, 65))
# the interpreter ignores SIGPIPE and SIGXFSZ and a pty child inherits that (subprocess restores them)
INHERITED_IGNORED = (('sig', 13), ('sig', 25))
DESCR = {'C09': 'exit status truth', 'C10': 'lifecycle safety'}


# --------------------------------------------------------------------------------------------
# 1. model check
# --------------------------------------------------------------------------------------------
def model_check(ctx):
    quick = ctx.quick()
    consts = [('Transports', '<- TrAll'), ('Disps', '<- DispsAll'), ('Codes', '<- CodesMC'), ('ExtSigs', '<- ExtSigsMC'),
              ('KillSigs', '<- KillSigsQ' if quick else '<- KillSigsT'), ('MaxOps', '= %d' % (4 if quick else 5)),
              ('MaxEnv', '= 2'), ('Devs', '<- NoDevs')]
    invs = INVARIANTS[ctx.pid]
    cfg = tlc.write_cfg(os.path.join(ctx.work, 'mc.cfg'), constants=consts, invariants=invs,
                        properties=['StatusStable'] if ctx.pid == 'C09' else [])
    res = tlc.run('MCLifecycle', cfg, ctx.work, workers=8, timeout=1500, outname='mc.out')
    if res['machinery_error'] or res['timed_out']:
        raise tlc.TLCError('Lifecycle model check did not finish: %s' % res['out'])
    if res['violated']:
        raise tlc.TLCError('the intended model violates %s - the model (not the code) is wrong, see %s' % (
            res['violated'], res['out']))
    # per-action coverage (vacuity guard).  `-coverage 1` runs out of memory on the nested operator
    # definitions of this module, so the transitions are counted per action label in the state
    # graph TLC dumps for the configuration with one operation less.
    small = [c if c[0] != 'MaxOps' else ('MaxOps', '= 3') for c in consts]
    cfgc = tlc.write_cfg(os.path.join(ctx.work, 'cov.cfg'), constants=small, invariants=invs)
    dot = os.path.join(ctx.work, 'cov.dot')
    rc = tlc.run('MCLifecycle', cfgc, ctx.work, workers=1, timeout=900, outname='cov.out', heap='3g',
                 extra=['-dump', 'dot,actionlabels', dot])
    if not rc['ok']:
        raise tlc.TLCError('coverage run failed: %s' % rc['out'])
    cov = Counter()
    edge = re.compile(r'^-?\d+ -> -?\d+ \[label="([^"]*)"')
    with open(dot) as f:
        for line in f:
            m = edge.match(line)
            if m:
                cov[m.group(1)] += 1
    os.unlink(dot)
    res['coverage'] = dict(cov)
    for a in ACTIONS:
        if not any(k == a or k.startswith(a + '(') for k in cov):
            raise tlc.TLCError('action %s never taken (vacuous model run), see %s' % (a, rc['out']))
    sens = {}
    for dev, (pid, expected) in SENSITIVITY.items():
        if pid != ctx.pid:
            continue
        c2 = [c if c[0] != 'Devs' else ('Devs', '= {"%s"}' % dev) for c in small]
        cfg2 = tlc.write_cfg(os.path.join(ctx.work, 'dev_%s.cfg' % dev), constants=c2, invariants=invs)
        r = tlc.run('MCLifecycle', cfg2, ctx.work, workers=4, timeout=600, outname='dev_%s.out' % dev)
        if r['violated'] not in expected:
            raise tlc.TLCError('deviation %s: expected a violation of %s, TLC reports %s (%s)' % (
                dev, sorted(expected), r['violated'], r['out']))
        sens[dev] = r['violated']
    return res, sens


# --------------------------------------------------------------------------------------------
# 2. corpus
# --------------------------------------------------------------------------------------------
def code_for(k):
    return (k * 37 + 3) % 256


def pty_enumeration(ctx, n, killsigs, scenarios, tag, limit=None, rng=None, with_normal_exit=True):
    ops = LC.pty_ops(killsigs)
    if not with_normal_exit:
        # `with child: pass` and close() are the same call (SpawnBase.__exit__); the quick tier
        # leaves the with-block by exception only
        ops = [o for o in ops if o[1:] != ['WithExit', 0]]
    seqs = LC.sequences(ops, n)
    cases = []
    k = 0
    for disp, env, pos in scenarios:
        for sq in seqs:
            k += 1
            if env is None:
                items = sq
            else:
                if pos > len(sq):
                    continue
                e = list(env)
                if e[1] == 'exit':
                    e[2] = code_for(k)
                items = LC.with_env(sq, e, pos)
            cases.append({'tr': 'pty', 'disp': disp, 'items': items, 'gen': tag})
    if limit is not None and len(cases) > limit:
        cases = rng.sample(cases, limit)
    return cases


PRIMARY = [('default', None, 0), ('ignore', None, 0),
           ('default', ['env', 'sig', 19], 0), ('ignore', ['env', 'sig', 19], 0)]
DEAD = [('default', ['env', 'exit', 0], 0), ('default', ['env', 'sig', 15], 0)]


def mid(n, full):
    out = []
    for pos in range(1, n):
        out.append(('default', ['env', 'exit', 0], pos))
    out.append(('default', ['env', 'sig', 9], 1))
    if full:
        out.append(('ignore', ['env', 'exit', 0], 1))
        out.append(('default', ['env', 'selfkill', 15], n - 1))
        out.append(('default', ['env', 'sig', 19], 1))              # stopped mid-sequence
        out.append(('default', ['env', 'sig', 9], n - 1))
    return out


def fd_enumeration(n):
    cases = []
    for tr, kinds in (('fd', ('ptyfd', 'sockfd', 'pipe')), ('socket', ('sockpair', 'tcp'))):
        seqs = LC.sequences(LC.fd_ops(tr), n)
        for kind in kinds:
            envs = [None] + [(['env', 'peerclose', 0], p) for p in range(n)]
            if kind == 'tcp':
                envs += [(['env', 'peerreset', 0], p) for p in range(n)]
            for env in envs:
                for sq in seqs:
                    if env is None:
                        items = sq
                    else:
                        if env[1] > len(sq):
                            continue
                        items = LC.with_env(sq, env[0], env[1])
                    cases.append({'tr': tr, 'kind': kind, 'items': items, 'gen': 'fd-enum'})
    return cases


O = lambda name, arg=0: ['op', name, arg]
PTY_PATHS = [      # every way of observing the death, and orders of repeating those calls
    [O('IsAlive'), O('IsAlive'), O('Wait')],
    [O('Wait'), O('Wait'), O('IsAlive')],
    [O('Close', 1), O('IsAlive'), O('Wait')],
    [O('Close', 0), O('Wait'), O('IsAlive'), O('Close', 1)],
    [O('Terminate', 0), O('Wait'), O('IsAlive')],
    [O('Terminate', 1), O('IsAlive'), O('Close', 0)],
    [O('ExpectEOF'), O('IsAlive'), O('Wait')],
    [O('Read'), O('IsAlive'), O('Close', 1), O('Wait')],
    [O('Kill', 9), O('Wait'), O('IsAlive')],
    [O('IsAlive'), O('ExpectEOF'), O('Wait'), O('Terminate', 1), O('Close', 1), O('IsAlive')],
    [O('WithExit', 0), O('Wait'), O('IsAlive')],
    [O('Wait'), O('Read'), O('ExpectEOF'), O('IsAlive')],
]
POPEN_PATHS = [
    [O('Wait'), O('Wait')],
    [O('ExpectEOF'), O('Wait')],
    [O('Wait'), O('ExpectEOF'), O('Wait')],
    [O('SendEof'), O('Wait'), O('SendEof'), O('Wait')],
]


def sweep(ctx, codes, sigs, npaths=None):
    """all exit codes / terminating signals x observation paths x pty and PopenSpawn children; the
    child has died (by its own exit, by an outside signal, or by killing itself) before the first
    look, or dies between the first and the second operation (alive first, then dead)"""
    cases = []
    k = 0
    for fate in [('exit', c) for c in codes] + [('sig', g) for g in sigs]:
        env = ['env', 'exit', fate[1]] if fate[0] == 'exit' else ['env', 'sig', fate[1]]
        for tr, paths in (('pty', PTY_PATHS), ('popen', POPEN_PATHS)):
            if tr == 'pty' and fate in INHERITED_IGNORED:
                continue
            for j, path in enumerate(paths):
                if npaths is not None and (j + fate[1]) % len(paths) >= npaths:
                    continue
                k += 1
                e = list(env)
                if fate[0] == 'sig' and k % 3 == 0 and fate[1] != 9:
                    e = ['env', 'selfkill', fate[1]]
                cases.append({'tr': tr, 'disp': 'default', 'items': [e] + path, 'gen': 'sweep'})
                if tr == 'pty' and k % 2 == 0:
                    # alive at the first look, dead afterwards
                    cases.append({'tr': tr, 'disp': 'default', 'items': [O('IsAlive'), e] + path, 'gen': 'sweep'})
                if tr == 'popen' and fate[0] == 'sig' and j == 0:
                    # PopenSpawn.kill(sig) as the cause of death
                    cases.append({'tr': tr, 'disp': 'default', 'items': [O('Kill', fate[1]), O('Wait'), O('Wait')], 'gen': 'sweep'})
        if fate not in INHERITED_IGNORED:
            cases.append({'tr': 'run', 'fate': list(fate), 'gen': 'run'})
    return cases


def build_corpus(ctx):
    quick = ctx.quick()
    rng = random.Random(ctx.seed * 7907 + 13)
    cases = []
    exhaustive = {}
    if ctx.pid == 'C10':
        if quick:
            cases += pty_enumeration(ctx, 3, [9, 19], PRIMARY + DEAD + mid(3, False)[:2], 'pty-enum3', with_normal_exit=False)
            cases += fd_enumeration(3)
            cases += sweep(ctx, range(0, 256, 16), [1, 9, 15], npaths=4)
            exhaustive = {'pty': 'all sequences <= 3 over 14 operations x 8 dispositions (normal, ignores HUP+INT, stopped, '
                                 'stopped+ignores, already exited, already killed, exits before the 2nd / 3rd operation)',
                          'fd/socket': 'all sequences <= 3 x {pty master, socket fd, pipe | socketpair, TCP} x peer '
                                       '{open, closes at 0..2, resets at 0..2 (TCP)}'}
        else:
            cases += pty_enumeration(ctx, 4, [9, 19], PRIMARY + DEAD, 'pty-enum4')
            cases += pty_enumeration(ctx, 4, [9, 19], mid(4, True), 'pty-enum4-mid', limit=60000, rng=rng)
            cases += pty_enumeration(ctx, 3, [1, 2, 9, 15, 18, 19], PRIMARY + DEAD + mid(3, True), 'pty-enum3-allsigs')
            cases += fd_enumeration(4)
            cases += sweep(ctx, range(0, 256, 4), TERM_SIGNALS, npaths=6)
            exhaustive = {'pty': 'all sequences <= 4 over 14 operations x 6 dispositions; <= 3 over 18 operations x 14 '
                                 'dispositions; mid-sequence deaths at length 4 sampled (60000)',
                          'fd/socket': 'all sequences <= 4'}
    else:
        if quick:
            cases += sweep(ctx, range(256), TERM_SIGNALS, npaths=8)
            cases += pty_enumeration(ctx, 3, [9], PRIMARY + DEAD + mid(3, False), 'pty-enum3', with_normal_exit=False)
            exhaustive = {'sweep': 'all 256 codes and %d signals x 8 of 12 pty paths (rotating) and all 4 popen paths, + run(withexitstatus=True) for each' % len(TERM_SIGNALS),
                          'pty': 'all sequences <= 3 over 13 operations x 9 dispositions'}
        else:
            cases += sweep(ctx, range(256), TERM_SIGNALS)
            cases += pty_enumeration(ctx, 4, [9, 19], DEAD + mid(4, False), 'pty-enum4-dead')
            cases += pty_enumeration(ctx, 3, [1, 2, 9, 15, 18, 19], PRIMARY + DEAD + mid(3, True), 'pty-enum3-allsigs')
            exhaustive = {'sweep': 'all 256 codes and %d signals x all paths' % len(TERM_SIGNALS),
                          'pty': 'all sequences <= 4 over 14 operations x 6 death dispositions; <= 3 over 18 operations x 14'}
    return cases, exhaustive


# --------------------------------------------------------------------------------------------
# execution + validation
# --------------------------------------------------------------------------------------------
def strip(ev):
    return [{k: v for k, v in e.items() if k not in ('sys', 'final', 'kind')} for e in ev]


def execute_all(ctx, pool, cases):
    outs = pool.map(LC.execute, cases, chunksize=16)
    errs = [(c, o['error']) for c, o in zip(cases, outs) if 'error' in o]
    if errs:
        # one more attempt for machinery hiccups (e.g. fork failing under load), then give up
        again = pool.map(LC.execute, [c for c, _ in errs], chunksize=1)
        fixed = {json.dumps(c, sort_keys=True): o for (c, _), o in zip(errs, again)}
        outs = [fixed.get(json.dumps(c, sort_keys=True), o) if 'error' in o else o for c, o in zip(cases, outs)]
        errs = [(c, o['error']) for c, o in zip(cases, outs) if 'error' in o]
        if errs:
            raise tlc.TLCError('%d case(s) could not be executed, e.g. %s\n%s' % (len(errs), errs[0][0], errs[0][1]))
    return outs


def validate(ctx, traces, tag, procs=10):
    v, st = tracecheck.validate(traces, 'LifecycleTrace', ctx.work, constants=TRACE_CONSTS, procs=procs, tag=tag,
                                timeout=2400)
    return v, st


def facts(case, ev, at):
    """narrow facts about a failing case (for known-findings signatures)"""
    upto = ev[:max(at - 1, 0)]       # TLC reports the index of the event AFTER the failing one
    fail = upto[-1] if upto else {}
    ops = [e for e in upto if e['e'] == 'op']
    envs = [e['a'] for e in upto if e['e'] == 'env']
    return {
        'transport': case['tr'] if case['tr'] != 'run' else 'pty',
        'kind': case.get('kind', ''),
        'disp': case.get('disp', 'default'),
        'op': fail.get('op', fail.get('e', '')),
        'ret': fail.get('ret', ''),
        'failed_close_before': any(e['op'] == 'Close' and e['ret'] == 'ExceptionPexpect' and not e['closed'] for e in ops[:-1]),
        'close_raised_oserror': fail.get('op') in ('Close', 'WithExit') and fail.get('ret') == 'OSError',
        'peer': 'reset' if 'peerreset' in envs else 'closed' if 'peerclose' in envs else 'open',
    }


def nontrivial(ev):
    """the trace shows a death being observed, a descriptor being released, or an environment action"""
    prev = None
    for e in ev:
        if e['e'] == 'env' and e['a'] != 'reuse':
            return True
        if e['e'] == 'op':
            cur = (e['term'], e['closed'], e['proc'], e['fd'], e['eof'])
            if prev is not None and cur != prev:
                return True
            prev = cur
    return False


class NoSuitableTrace(tlc.TLCError):
    pass


def self_test(ctx, uniq, verdicts):
    """corrupt one logged field of an accepted trace -> the trace specification must reject it"""
    def find(pred):
        for t in uniq:
            if verdicts[t['id']][0] != 'ok':
                continue
            for i, e in enumerate(t['ev']):
                if e['e'] == 'op' and pred(t, i, e):
                    return t, i
        raise NoSuitableTrace('self-test: no suitable accepted trace in the corpus')

    muts = []

    def add(name, pred, change, expect):
        t, i = find(pred)
        c = copy.deepcopy(t)
        c['id'] = name
        change(c['ev'][i])
        muts.append((c, expect))

    pty = lambda t: t['ev'][0].get('tr') == 'pty'
    add('wrong-exitstatus', lambda t, i, e: pty(t) and e['term'] and e['es'] >= 0,
        lambda e: e.update(es=(e['es'] + 1) % 256), 'C09:wrong-exitstatus')
    add('both-set', lambda t, i, e: pty(t) and e['term'] and e['es'] >= 0,
        lambda e: e.update(ss=9), 'C09:both-status-set')
    add('status-changed', lambda t, i, e: pty(t) and e['term'] and e['ss'] >= 0 and i > 2 and t['ev'][i - 1].get('term'),
        lambda e: e.update(ss=e['ss'] + 1, sv=e['sv'] + 1), 'C09:')
    add('wait-return', lambda t, i, e: pty(t) and e['op'] == 'Wait' and e['ret'] == 'int',
        lambda e: e.update(rv=(e['rv'] + 1) % 256), 'C09:wait-return')
    add('alive-after-reaped', lambda t, i, e: pty(t) and e['op'] == 'IsAlive' and e['ret'] == 'False' and e['proc'] == 'reaped',
        lambda e: e.update(ret='True'), 'C10:alive-after-reaped')
    add('zombie-after-close', lambda t, i, e: pty(t) and e['op'] == 'Close' and e['ret'] == 'None' and e['proc'] == 'reaped',
        lambda e: e.update(proc='zombie'), 'C10:zombie-leak')
    add('fd-left-open', lambda t, i, e: e['op'] == 'Close' and e['ret'] == 'None' and e['fd'] == 'closed',
        lambda e: e.update(fd='open'), 'C10:fd-leak')
    add('touched', lambda t, i, e: e['op'] == 'Send' and e['fd'] == 'reused' and not e['touched'],
        lambda e: e.update(touched=True, ret='int', rv=1, exc=False), 'C10:io-after-close')
    add('closed-flag', lambda t, i, e: e['op'] == 'Close' and e['closed'] and i > 1 and not t['ev'][i - 1].get('closed', True),
        lambda e: e.update(closed=False), '')
    v, _ = validate(ctx, [m for m, _ in muts], 'selftest', procs=1)
    out = {}
    for m, expect in muts:
        got = v[m['id']][0]
        if got == 'ok' or not got.startswith(expect):
            raise tlc.TLCError('binding self-test: corruption %s -> verdict %s (expected a rejection with %s...)' % (
                m['id'], got, expect or 'any clause'))
        out[m['id']] = got
    return out


def run(ctx):
    pid = ctx.pid
    if ctx.replay:
        return replay(ctx)
    print('[%s] %s - tier %s seed %d' % (pid, DESCR[pid], ctx.tier, ctx.seed), flush=True)
    os.chdir(ctx.work)
    mc, sens = model_check(ctx)
    ctx.note('TLC MCLifecycle: %d states generated, %d distinct, depth %d; %s hold (%.0fs); every action taken' % (
        mc['generated'], mc['distinct'], mc['depth'], ', '.join(INVARIANTS[pid]), mc['wall_s']))
    ctx.note('model sensitivity: ' + ', '.join('%s -> %s violated' % kv for kv in sorted(sens.items())))

    cases, exhaustive = build_corpus(ctx)
    t0 = time.time()
    with Pool(12, initializer=LC.init_worker, initargs=(ctx.work,)) as pool:
        outs = execute_all(ctx, pool, cases)
        exec_s = time.time() - t0
        gens = Counter(c['gen'] for c in cases)
        ctx.note('%d operation sequences executed on real children / descriptors in %.0fs (%s)' % (
            len(cases), exec_s, ', '.join('%s %d' % kv for kv in sorted(gens.items()))))
        # distinct recorded traces only (pids are not logged: equal traces are equal observations)
        seen, uniq, owner = {}, [], {}
        for i, (c, o) in enumerate(zip(cases, outs)):
            ev = strip(o['ev'])
            key = json.dumps(ev, sort_keys=True)
            if key not in seen:
                seen[key] = len(uniq)
                uniq.append({'id': len(uniq), 'ev': ev})
                owner[len(uniq) - 1] = i
        nops = sum(1 for t in uniq for e in t['ev'] if e['e'] == 'op')
        verdicts, st = validate(ctx, uniq, 'corpus')
        cnt = Counter(v[0] for v in verdicts.values())
        ctx.note('TLC trace validation (LifecycleTrace): %d distinct traces, %d logged operations, %d states, %.0fs' % (
            len(uniq), nops, st['distinct'], st['wall_s']))
        ctx.note('verdicts: ' + ', '.join('%s x%d' % kv for kv in sorted(cnt.items())))
        bad_h = [(t['id'], verdicts[t['id']]) for t in uniq if verdicts[t['id']][0].startswith('harness:')]
        if bad_h:
            i = owner[bad_h[0][0]]
            raise tlc.TLCError('harness-level verdict (bug in /verif): %s on case %s' % (bad_h[0][1], cases[i]))
        drift = [t for t in uniq if verdicts[t['id']][0].startswith('model:')]
        for t in drift[:3]:
            v, at = verdicts[t['id']]
            ctx.note('SPEC-DRIFT %s at event %d: case %s event %s' % (v, at - 1, json.dumps(cases[owner[t['id']]])[:300],
                                                                      json.dumps(t['ev'][at - 2])[:400]))
        ctx.drift = len(drift)
        # ---- failing cases: re-run twice more, report only what fails every time ----
        failing = [t for t in uniq if verdicts[t['id']][0].startswith(pid + ':')]
        other = Counter(verdicts[t['id']][0] for t in uniq
                        if verdicts[t['id']][0] != 'ok' and not verdicts[t['id']][0].startswith((pid + ':', 'model:')))
        if other:
            ctx.note('clauses of the sister property seen in this corpus (reported by its own check): ' +
                     ', '.join('%s x%d' % kv for kv in sorted(other.items())))
        confirmed = []
        if failing:
            fcases = [cases[owner[t['id']]] for t in failing]
            reruns = []
            for r in range(2):
                o2 = execute_all(ctx, pool, fcases)
                reruns.append([{'id': '%d.%d' % (r, j), 'ev': strip(o['ev'])} for j, o in enumerate(o2)])
            v2, _ = validate(ctx, reruns[0] + reruns[1], 'rerun')
            for j, t in enumerate(failing):
                again = [v2['%d.%d' % (r, j)][0] for r in range(2)]
                if all(a.startswith(pid + ':') for a in again):
                    confirmed.append(t)
            ctx.note('%d failing trace(s), %d fail on both re-executions' % (len(failing), len(confirmed)))
    for t in confirmed:
        v, at = verdicts[t['id']]
        c = cases[owner[t['id']]]
        ctx.fail(v, {'case': c}, detail={'failing_event': at - 1, 'events': t['ev'][:at - 1]}, signature=facts(c, t['ev'], at))
    try:
        st_self = self_test(ctx, uniq, verdicts)
        ctx.note('binding self-test: ' + ', '.join('%s -> %s' % kv for kv in sorted(st_self.items())))
    except NoSuitableTrace as e:
        if not confirmed:
            raise
        # so much of the corpus is rejected that no accepted trace of the needed shape is left:
        # the rejections themselves are the result of this run
        st_self = {'skipped': str(e)}
        ctx.note('binding self-test skipped (%s); %d violating traces are reported instead' % (e, len(confirmed)))
    status, nviol, nknown = common.conclude(ctx)
    nontriv = sum(1 for t in uniq if nontrivial(t['ev']))
    mid_i = len(uniq) // 2
    samples = [{'case': cases[owner[t['id']]], 'events': t['ev'], 'verdict': verdicts[t['id']][0]}
               for t in (uniq[mid_i], uniq[-1])]
    evidence.write(pid, ctx.tier, ctx.seed, 'model_checking', {
        'states': mc['distinct'], 'transitions': mc['generated'],
        'traces_validated_against_impl': len(uniq), 'samples': samples,
        'evaluations': len(cases), 'distinct_nontrivial': nontriv,
        'rule': 'one execution per (transport, disposition, environment action placement, operation sequence) of the '
                'enumeration / sweep, each on a fresh real child or descriptor; distinct = distinct recorded event sequence '
                '(return values, object fields, /proc facts after every operation); non-trivial = the trace contains an '
                'environment action or an operation after which terminated / closed / process state / descriptor state / '
                'flag_eof differ from before',
        'exhaustive': exhaustive,
        'logged_operations': nops,
        'by_generator': dict(gens),
        'model': {'module': 'MCLifecycle', 'cmd': mc['cmd'], 'depth': mc['depth'],
                  'invariants': INVARIANTS[pid] + (['StatusStable (action property)'] if pid == 'C09' else []),
                  'action_coverage': mc['coverage'],
                  'deviation_sensitivity': sens},
        'trace_validation': {'module': 'LifecycleTrace', 'tlc_states': st['distinct'], 'cmd': st.get('cmd'),
                             'verdict_counts': dict(cnt), 'self_test': st_self},
        'spec_drift': ctx.drift, 'known_findings_hit': nknown,
        'wall_split_s': {'model_check': mc['wall_s'], 'execution': round(exec_s, 1), 'trace_validation': st['wall_s']},
    }, assumptions=[
        'a signal has taken effect when the code looks next: the delayafterclose / delayafterterminate pauses are replaced '
        'by explicit synchronisation (waitid(WNOWAIT) for the zombie / the stop), never by sleeping',
        'the child (a /bin/sh script) has default dispositions except HUP+INT when "ignore"; it never writes to its terminal',
        'the freed descriptor number is taken by someone else as soon as it is free (adversarial environment)',
        'ptyprocess (outside /repo) is part of the system under test as installed',
        'PopenSpawn: only the C09 half (wait / kill / sendeof / expect(EOF)); kill() on a reaped pid is not driven '
        '(the pid may have been recycled on this machine)',
    ], wall_s=ctx.wall(), violations=nviol)
    return status


def replay(ctx):
    d = json.load(open(ctx.replay))
    case = d['case']['case']
    os.chdir(ctx.work)
    LC.init_worker(ctx.work)
    o = LC.execute(case)
    signal.alarm(0)
    if 'error' in o:
        raise tlc.TLCError('replay could not be executed: ' + o['error'])
    ev = strip(o['ev'])
    v, _ = validate(ctx, [{'id': 'replay', 'ev': ev}], 'replay', procs=1)
    print('replay verdict: %s at event %d' % (v['replay'][0], v['replay'][1] - 1))
    for e in ev:
        print('   ', json.dumps(e))
    if v['replay'][0].startswith(ctx.pid + ':'):
        print('VIOLATION property=%s replay=%s' % (ctx.pid, ctx.replay))
        return 1
    return 0

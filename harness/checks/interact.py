"""C15: interact().

TLC checks spec/Interact.tla (every cutting of the keystrokes and of the child's output into
reads, escape character absent / first / middle / last / repeated, filters on/off, escape None,
pending output of every shape) and dumps the state graph; every path of the graph is replayed on
the REAL spawn.interact(), in-process: the inner child is a real pty child whose terminal the
harness writes to and reads from (raw mode), the "user" is an outer pty assigned to
STDIN_FILENO / STDOUT_FILENO, and the injections of one loop iteration are placed right before
the select() of that iteration.  What the child received, what the user saw, the pending text
left behind and the terminal mode are compared with the final state TLC computed for that path.
"""
import errno, json, os, pty, random, select as _select, signal, sys, termios, time, traceback, tty
from multiprocessing import Pool
import pexpect
import pexpect.pty_spawn
from .. import tlc, evidence, common, stategraph
from ..world import PtyWorld

KEYMAP = {'a': b'a', 'b': b'b', 'c': b'c', 'd': b'd', 'E': b'\x1d', 'x': b'x', 'y': b'y', 'z': b'z', 'p': b'p', 'q': b'q', 'r': b'r'}
BACK = {v: k for k, v in KEYMAP.items()}


def conc(seq):
    return b''.join(KEYMAP[c] for c in seq)


def absb(b):
    return [BACK.get(bytes([x]), '?%d' % x) for x in b]


def dup(b):
    return b''.join(bytes([x, x]) for x in b)


def drop(b):
    return bytes(x for x in b if x not in b'xc')


FILTERS = {'id': None, 'dup': dup, 'drop': drop}


def drain(fd, settle=0.005):
    if fd is None:
        return b''
    out = b''
    while True:
        r, _, _ = _select.select([fd], [], [], settle)
        if not r:
            return out
        try:
            d = os.read(fd, 65536)
        except OSError:
            return out
        if not d:
            return out
        out += d


def replay(args):
    workdir, init, iters, ends_by_exit, poll = args
    res = {'error': None}
    w = None
    umaster = uslave = None
    saved_select = pexpect.pty_spawn.select_ignore_interrupts
    saved_poll = pexpect.pty_spawn.poll_ignore_interrupts
    saved_stdout = sys.stdout
    try:
        umaster, uslave = pty.openpty()

        class Out(object):
            """a BUFFERED sys.stdout like the real one: what is written reaches the user's terminal at flush()"""
            pending = b''

            class buffer(object):
                @staticmethod
                def write(b):
                    Out.pending += b
                    return len(b)

            @staticmethod
            def write(s):
                Out.pending += s.encode('latin-1') if isinstance(s, str) else s
                return len(s)

            @staticmethod
            def flush():
                if Out.pending:
                    data, Out.pending = Out.pending, b''
                    os.write(uslave, data)
        sys.stdout = Out
        w = PtyWorld(workdir, use_poll=poll)
        # undo PtyWorld's interposition: interact needs its own
        w.close_interposition_only()
        child = w.child
        child.STDIN_FILENO = uslave
        child.STDOUT_FILENO = uslave
        # pending output at entry
        pend, sbuf = conc(init['pendAtStart']), conc(init['sbufAtStart'])
        if pend:
            os.write(w.slave, pend)
            win = len(sbuf) if len(sbuf) < len(pend) else None
            try:
                child.expect_exact([b'\xff\xfe'], timeout=0, searchwindowsize=win)
            except pexpect.TIMEOUT:
                pass
            assert child.before == pend, (child.before, pend)
        keys, outp = conc(init['keys']), conc(init['outp'])
        plan = list(iters)
        state = {'kpos': 0, 'opos': 0, 'to_child': b'', 'exited': False}

        def inject():
            if plan:
                k, n = plan.pop(0)
                if k:
                    os.write(w.slave, outp[state['opos']:state['opos'] + k])
                    state['opos'] += k
                if n:
                    os.write(umaster, keys[state['kpos']:state['kpos'] + n])
                    state['kpos'] += n
                return True
            if ends_by_exit and not state['exited']:
                state['to_child'] += drain(w.slave)
                w.peer('PeerExit', [0])
                state['exited'] = True
                return True
            return False

        def sel(iwtd, owtd, ewtd, timeout=None):
            if set(iwtd) == {child.child_fd, uslave}:
                more = inject()
                r = saved_select(iwtd, owtd, ewtd, 2.0)
                if not r[0]:
                    raise RuntimeError('interact() would block: nothing readable and nothing left to inject')
                # both injections of one iteration must be visible together, as the model's Iter(k, n)
                return saved_select(iwtd, owtd, ewtd, 0.05)
            return saved_select(iwtd, owtd, ewtd, timeout)

        def pol(fds, timeout=None):
            if set(fds) == {child.child_fd, uslave}:
                inject()
                r = saved_poll(fds, 2.0)
                if not r:
                    raise RuntimeError('interact() would block')
                return saved_poll(fds, 0.05)
            return saved_poll(fds, timeout)
        pexpect.pty_spawn.select_ignore_interrupts = sel
        pexpect.pty_spawn.poll_ignore_interrupts = pol
        mode0 = termios.tcgetattr(uslave)
        inf = FILTERS[init['infil']]
        outf = FILTERS[init['outfil']]
        esc = chr(29) if init['escmode'] == 'esc' else None
        raised = ''
        try:
            child.interact(escape_character=esc, input_filter=inf, output_filter=outf)
        except Exception as e:
            raised = '%s: %s' % (type(e).__name__, e)
        finally:
            Out.flush()              # what the interpreter does at exit, at the latest
            sys.stdout = saved_stdout
            pexpect.pty_spawn.select_ignore_interrupts = saved_select
            pexpect.pty_spawn.poll_ignore_interrupts = saved_poll
        mode1 = termios.tcgetattr(uslave)
        if not state['exited']:
            state['to_child'] += drain(w.slave)
        to_user = drain(umaster)
        # what is left pending in the object (it should have been handed to the user)
        left = None
        try:
            if state['exited']:
                child.expect(pexpect.EOF, timeout=1)
            else:
                child.expect_exact([b'\xff\xfe', pexpect.TIMEOUT], timeout=0)
            left = child.before
        except Exception as e:
            left = ('<%s>' % type(e).__name__).encode()
        res.update(to_child=absb(state['to_child']), to_user=absb(to_user), mode_restored=(mode0 == mode1), raised=raised,
                   left=absb(left), unused_iterations=len(plan))
    except Exception:
        res['error'] = traceback.format_exc()
    finally:
        sys.stdout = saved_stdout
        pexpect.pty_spawn.select_ignore_interrupts = saved_select
        pexpect.pty_spawn.poll_ignore_interrupts = saved_poll
        for fd in (umaster, uslave):
            try:
                if fd is not None:
                    os.close(fd)
            except OSError:
                pass
        if w is not None:
            try:
                w.close()
            except Exception:
                pass
    return res


# ---- payload runs: all byte values, multi-byte text, bursts larger than one read, bytes / unicode objects ----------------
class Blocked(Exception):
    pass


def payload_case(args):
    """One real interact() with scripted injections: cfg = {encoding, errors, poll, log, end: 'escape'|'exit',
    pending: hex, plan: [[output hex, keystrokes hex], ...]}.  The oracle is the property itself: the user sees the pending
    text and then every byte the child wrote, the child gets every byte typed before the escape, unchanged and in order."""
    workdir, cfg = args
    res = {'error': None}
    w = None
    umaster = uslave = None
    saved_select = pexpect.pty_spawn.select_ignore_interrupts
    saved_poll = pexpect.pty_spawn.poll_ignore_interrupts
    saved_stdout = sys.stdout
    saved_alarm = signal.getsignal(signal.SIGALRM)
    try:
        import codecs, io
        umaster, uslave = pty.openpty()
        state = {'to_user': b'', 'to_child': b'', 'ended': False, 'exited': False}

        class Out(object):
            pending = b''

            class buffer(object):
                @staticmethod
                def write(b):
                    Out.pending += b
                    return len(b)

            @staticmethod
            def write(s_):
                Out.pending += s_.encode(cfg['encoding'] or 'latin-1', 'surrogateescape') if isinstance(s_, str) else s_
                return len(s_)

            @staticmethod
            def flush():
                if Out.pending:
                    data, Out.pending = Out.pending, b''
                    os.write(uslave, data)
        sys.stdout = Out
        w = PtyWorld(workdir, use_poll=cfg['poll'], encoding=cfg['encoding'])
        w.close_interposition_only()
        child = w.child
        if cfg['encoding']:
            child.codec_errors = cfg['errors']
            child._decoder = codecs.getincrementaldecoder(cfg['encoding'])(cfg['errors'])
            child._encoder = codecs.getincrementalencoder(cfg['encoding'])(cfg['errors'])
        logs = None
        if cfg['log']:
            logs = (io.StringIO() if cfg['encoding'] else io.BytesIO())
            child.logfile_read = logs
        child.STDIN_FILENO = uslave
        child.STDOUT_FILENO = uslave
        pend = bytes.fromhex(cfg['pending'])
        if pend:
            os.write(w.slave, pend)
            try:
                child.expect_exact(['\xff\xfe\xfd' if cfg['encoding'] else b'\xff\xfe\xfd'], timeout=0)
            except pexpect.TIMEOUT:
                pass
        plan = [(bytes.fromhex(o), bytes.fromhex(k)) for o, k in cfg['plan']]
        if cfg.get('dead_at_entry'):
            # the child has ended (and pexpect knows) before interact() is called: the pending output is still the user's
            state['to_child'] += drain(w.slave, 0)
            w.peer('PeerExit', [0])
            state['exited'] = state['ended'] = True
            child.wait()
            plan = []
        all_out = b''.join(o for o, k in plan)
        all_keys = b''.join(k for o, k in plan)
        outf = None
        if cfg.get('exit_in_filter'):
            # the child's exit becomes visible between the read of its last words and their delivery to the user
            total = len(all_out)
            seen = {'n': 0}

            def outf(data):
                seen['n'] += len(data)
                if seen['n'] >= total and not state['exited']:
                    state['to_child'] += drain(w.slave, 0)
                    w.peer('PeerExit', [0])
                    state['exited'] = state['ended'] = True
                return data

        def sweep():
            state['to_user'] += drain(umaster, 0)
            if w.slave is not None:
                state['to_child'] += drain(w.slave, 0)

        def inject():
            sweep()
            if plan:
                o, k = plan.pop(0)
                if o:
                    os.write(w.slave, o)
                if k:
                    os.write(umaster, k)
                return
            r = saved_select([child.child_fd, uslave], [], [], 0.05)[0]
            if r or state['ended']:
                return
            state['ended'] = True
            if cfg['end'] == 'escape':
                os.write(umaster, b'\x1d')
            else:
                sweep()
                w.peer('PeerExit', [0])
                state['exited'] = True

        def sel(iwtd, owtd, ewtd, timeout=None):
            if set(iwtd) == {child.child_fd, uslave}:
                inject()
                return saved_select(iwtd, owtd, ewtd, 5.0)
            return saved_select(iwtd, owtd, ewtd, timeout)

        def pol(fds, timeout=None):
            if set(fds) == {child.child_fd, uslave}:
                inject()
                return saved_poll(fds, 5.0)
            return saved_poll(fds, timeout)
        pexpect.pty_spawn.select_ignore_interrupts = sel
        pexpect.pty_spawn.poll_ignore_interrupts = pol
        mode0 = termios.tcgetattr(uslave)

        def on_alarm(signum, frame):
            raise Blocked()
        signal.signal(signal.SIGALRM, on_alarm)
        signal.alarm(20)
        raised = ''
        try:
            child.interact(escape_character=(chr(29) if cfg['end'] == 'escape' else None), output_filter=outf)
        except Blocked:
            raised = 'blocked'
        except Exception as e:
            raised = '%s: %s' % (type(e).__name__, e)
        finally:
            signal.alarm(0)
            Out.flush()
            sys.stdout = saved_stdout
            pexpect.pty_spawn.select_ignore_interrupts = saved_select
            pexpect.pty_spawn.poll_ignore_interrupts = saved_poll
        mode1 = termios.tcgetattr(uslave)
        state['to_user'] += drain(umaster)
        if w.slave is not None:
            state['to_child'] += drain(w.slave)
        want_user = pend + all_out
        res.update(raised=raised, mode_restored=(mode0 == mode1), unused=len(plan),
                   user_ok=(state['to_user'] == want_user), child_ok=(state['to_child'] == all_keys),
                   user_len=len(state['to_user']), want_user_len=len(want_user),
                   child_len=len(state['to_child']), want_child_len=len(all_keys))
        if not res['user_ok']:
            a, b = state['to_user'], want_user
            i = next((j for j in range(min(len(a), len(b))) if a[j] != b[j]), min(len(a), len(b)))
            res['user_diff'] = {'at': i, 'got': a[max(0, i - 8):i + 16].hex(), 'want': b[max(0, i - 8):i + 16].hex()}
        if not res['child_ok']:
            a, b = state['to_child'], all_keys
            i = next((j for j in range(min(len(a), len(b))) if a[j] != b[j]), min(len(a), len(b)))
            res['child_diff'] = {'at': i, 'got': a[max(0, i - 8):i + 16].hex(), 'want': b[max(0, i - 8):i + 16].hex()}
    except Exception:
        res['error'] = traceback.format_exc()
    finally:
        signal.alarm(0)
        signal.signal(signal.SIGALRM, saved_alarm)
        sys.stdout = saved_stdout
        pexpect.pty_spawn.select_ignore_interrupts = saved_select
        pexpect.pty_spawn.poll_ignore_interrupts = saved_poll
        for fd in (umaster, uslave):
            try:
                if fd is not None:
                    os.close(fd)
            except OSError:
                pass
        if w is not None:
            try:
                w.close()
            except Exception:
                pass
    return res


def judge_payload(out):
    if out['raised'] == 'blocked':
        return ('C15:interact-blocks-with-output-or-keystrokes-undelivered', out)
    if out['raised']:
        return ('C15:interact-raised', out)
    if not out['user_ok']:
        return ('C15:child-output-did-not-reach-the-user-unchanged-and-in-order', out)
    if not out['child_ok']:
        return ('C15:keystrokes-did-not-reach-the-child-unchanged-and-in-order', out)
    if not out['mode_restored']:
        return ('C15:terminal-mode-not-restored', out)
    return None


def payload_cases(rng, quick):
    allb = bytes(range(256))
    keyb = bytes(x for x in range(256) if x != 0x1d)
    text = 'café € \U0001f600 中文 '.encode('utf-8')
    invalid = b'A\xffB caf\xe9 \xe2\x82 tail \xc3'
    outs = [allb, allb * 4, text * 3, invalid, b'x' * 999, b'y' * 1000, b'z' * 1001, b'q' * 2000, b'r' * 3000,
            (text * 200)[:4000], (allb * 20)[:5000], b'']
    keys = [b'', keyb, b'k' * 1000, b'j' * 1001, (keyb * 9)[:2000], 'héllo'.encode('utf-8'), b'ok\r']
    cases = []
    confs = [(None, 'strict'), ('utf-8', 'strict'), ('utf-8', 'replace'), ('utf-8', 'ignore')]

    def mk(enc, err, poll, log, end, pending, plan):
        return {'encoding': enc, 'errors': err, 'poll': poll, 'log': log, 'end': end, 'pending': pending.hex(),
                'plan': [[o.hex(), k.hex()] for o, k in plan]}
    i = 0
    for o in outs:
        for enc, err in confs:
            i += 1
            k = keys[i % len(keys)]
            end = 'escape' if i % 3 else 'exit'
            if end == 'exit':
                k = k  # with escape_character None every byte value may be typed
            # one injection, then the same output again after the keystrokes were delivered (two bursts)
            cases.append(mk(enc, err, bool(i % 2), False, end, b'pending> ' if i % 4 == 0 else b'', [(o, k), (o[:17], b''), (b'', k[:5])]))
    for k in keys:
        for enc, err in confs[:2]:
            i += 1
            cases.append(mk(enc, err, bool(i % 2), False, 'escape', b'', [(b'', k), (b'out', b''), (b'', k)]))
    # with a log file: text the encoding can represent (what an undecodable byte does to a strict log is C11's business)
    for enc, err in confs:
        cases.append(mk(enc, err, False, True, 'escape', b'', [(text * 3, b'a'), (b'w' * 1000, b'b')]))
    # the child's last words: its exit becomes visible between interact()'s read and its write / before interact() starts
    for enc, err in confs[:2]:
        for poll in (False, True):
            c = mk(enc, err, poll, False, 'exit', b'', [(b'LASTWORDS|', b'')])
            c['exit_in_filter'] = True
            cases.append(c)
            c = mk(enc, err, poll, False, 'exit', b'', [(b'first|', b'k'), (allb, b''), (b'LASTWORDS|', b'')])
            c['exit_in_filter'] = True
            cases.append(c)
            c = mk(enc, err, poll, False, 'exit', b'TAIL|', [])
            c['dead_at_entry'] = True
            cases.append(c)
            c = mk(enc, err, poll, False, 'escape', b'left over ' * 30, [])
            c['dead_at_entry'] = True
            cases.append(c)
    for _ in range(40 if quick else 1500):
        enc, err = rng.choice(confs)
        plan = []
        for _ in range(rng.randint(1, 4)):
            size = rng.choice([0, 1, 5, 999, 1000, 1001, 1999, 2000, 2001, 3000, rng.randint(1, 4500)])
            src = rng.choice([allb, text, invalid, b'abc\r\n'])
            o = (src * (size // len(src) + 1))[:size]
            ksz = rng.choice([0, 0, 1, 3, 1000, rng.randint(1, 2500)])
            ksrc = rng.choice([keyb, b'typed ', 'kéy'.encode('utf-8')])
            plan.append((o, (ksrc * (ksz // len(ksrc) + 1))[:ksz]))
        cases.append(mk(enc, err, rng.random() < 0.5, False, rng.choice(['escape', 'escape', 'exit']), rng.choice([b'', b'left over ']), plan))
    return cases


def paths(g, rng, cap):
    """every path init -> done of the graph as (init state, [(k, n) per Iter], ends by child exit, final state)"""
    out = []

    def dfs(n, iters, by_exit):
        st = g.nodes[n]
        if st['pc'] == 'done':
            out.append((list(iters), by_exit, st))
            return
        for lab, d in g.edges[n]:
            if d == n:
                continue
            name, a = stategraph.parse_action(lab)
            if name == 'Iter':
                iters.append((a[0], a[1]))
                dfs(d, iters, by_exit)
                iters.pop()
            elif name == 'ChildExits':
                dfs(d, iters, True)
            else:
                dfs(d, iters, by_exit)
    res = []
    for i0 in g.init:
        out = []
        dfs(i0, [], False)
        for iters, by_exit, fin in out:
            res.append((g.nodes[i0], iters, by_exit, fin))
    if cap and len(res) > cap:
        res = rng.sample(res, cap)
    return res


def run(ctx):
    if ctx.replay:
        return do_replay(ctx)
    print('[C15] interact() - tier %s seed %d' % (ctx.tier, ctx.seed), flush=True)
    dot = os.path.join(ctx.work, 'interact.dot')
    res = tlc.run('MCInteract', 'MCInteract.cfg', ctx.work, workers=1, timeout=1200, extra=['-dump', 'dot,actionlabels', dot], outname='mcint.out')
    if not res['ok']:
        raise tlc.TLCError('Interact: %s, see %s' % (res['violated'] or 'TLC failed', res['out']))
    sens = {}
    for dev, want in (('DevRfind', 'ChildGetsTypedUpToEscape'), ('DevFlush', 'PendingConsumed')):
        txt = open(os.path.join(tlc.SPEC, 'MCInteract.cfg')).read().replace('Devs = {}', 'Devs <- ' + dev)
        p = os.path.join(ctx.work, dev + '.cfg')
        open(p, 'w').write(txt)
        r = tlc.run('MCInteract', p, ctx.work, workers=4, timeout=600, outname=dev + '.out', only=want)
        if r['violated'] != want:
            raise tlc.TLCError('Interact with %s should violate %s, got %s' % (dev, want, r['violated']))
        sens[dev] = want
    g = stategraph.Graph(dot)
    ctx.note('TLC Interact: %d distinct states, %d transitions; the five invariants hold; deviations caught: %s' % (
        res['distinct'], g.n_edges(), ', '.join('%s -> %s' % kv for kv in sens.items())))
    rng = random.Random(ctx.seed * 41 + 9)
    ps = paths(g, rng, 1500 if ctx.quick() else 40000)
    # a path that ends because the keystrokes contained the escape character does not need the child to exit;
    # one that consumed everything without escape ends by the child's exit
    jobs = [(ctx.work, init, iters, by_exit, bool(i % 2)) for i, (init, iters, by_exit, fin) in enumerate(ps)]
    t0 = time.time()
    with Pool(12) as pool:
        outs = pool.map(replay, jobs, chunksize=4)
    ctx.note('%d paths of the state graph replayed on the real interact() (real inner pty child, outer pty as the user) in %.0fs' % (len(jobs), time.time() - t0))
    nontrivial = 0
    flaky = []
    for (init, iters, by_exit, fin), job, out in zip(ps, jobs, outs):
        case = {'init': {k: init[k] for k in ('keys', 'outp', 'pendAtStart', 'sbufAtStart', 'infil', 'outfil', 'escmode')},
                'iters': iters, 'by_exit': by_exit, 'poll': job[4]}
        if out['error']:
            raise tlc.TLCError('interact replay crashed: %s\n%s' % (case, out['error']))
        if iters:
            nontrivial += 1
        bad = judge(out, fin, init)
        if bad:
            flaky.append((case, job, fin, init, bad))
    # real-process discipline: a failing case is re-run twice and counts only if it fails every time
    flaky = flaky[:200]
    with Pool(12) as pool:
        again_all = pool.map(replay, [f[1] for f in flaky for _ in range(2)], chunksize=2)
    for fi, (case, job, fin, init, bad) in enumerate(flaky):
        again = [judge(o, fin, init) for o in again_all[2 * fi:2 * fi + 2]]
        if all(x and x[0][0] == bad[0][0] for x in again):
            clause, detail = bad[0]
            ctx.fail(clause, case, detail=detail, signature={'escmode': case['init']['escmode'],
                                                             'repeated_escape': case['init']['keys'].count('E') > 1,
                                                             'trimmed_pending': len(case['init']['sbufAtStart']) < len(case['init']['pendAtStart'])})
    # payload runs
    pcs = payload_cases(random.Random(ctx.seed * 43 + 1), ctx.quick())
    t0 = time.time()
    with Pool(12) as pool:
        pouts = pool.map(payload_case, [(ctx.work, c) for c in pcs], chunksize=2)
    pbad = []
    for c, o in zip(pcs, pouts):
        if o['error']:
            raise tlc.TLCError('interact payload run crashed: %s\n%s' % ({k: v for k, v in c.items() if k != 'plan'}, o['error']))
        j = judge_payload(o)
        if j:
            pbad.append((c, j))
    pbad = pbad[:60]
    with Pool(12) as pool:
        pagain = pool.map(payload_case, [(ctx.work, c) for c, j in pbad for _ in range(2)], chunksize=1)
    for bi, (c, j) in enumerate(pbad):
        again = [judge_payload(o) if not o['error'] else None for o in pagain[2 * bi:2 * bi + 2]]
        if all(x and x[0] == j[0] for x in again):
            ctx.fail(j[0], {'payload': c}, detail={k: v for k, v in j[1].items() if k != 'error'},
                     signature={'encoding': c['encoding'], 'errors': c['errors'], 'end': c['end']})
    ctx.note('%d payload runs of the real interact() (all 256 byte values, multi-byte and undecodable text, bursts of 999/1000/1001/2000/3000/5000 '
             'bytes in both directions, bytes and utf-8 objects with strict/replace/ignore, select and poll, escape and child exit) in %.0fs' % (
                 len(pcs), time.time() - t0))
    # binding self-test: a wrong expectation must be noticed
    good = [(ps[i], outs[i]) for i in range(len(ps)) if not judge(outs[i], ps[i][3], ps[i][0]) and ps[i][3]['toChild']]
    if common.selftest_possible(ctx, good, 'keystrokes delivered'):
        (init, iters, by_exit, fin), out = good[0]
        wrong = dict(fin)
        wrong['toChild'] = fin['toChild'][:-1]
        if not judge(out, wrong, init):
            raise tlc.TLCError('self-test: a wrong expectation was not noticed')
        ctx.note('binding self-test: an expected toChild shortened by one byte is rejected')
    status, nviol, nknown = common.conclude(ctx)
    evidence.write('C15', ctx.tier, ctx.seed, 'model_checking', {
        'states': res['distinct'], 'transitions': g.n_edges(), 'traces_validated_against_impl': len(jobs),
        'samples': [{'case': {'init': {k: ps[i][0][k] for k in ('keys', 'outp', 'pendAtStart', 'escmode', 'infil', 'outfil')}, 'iters': ps[i][1]},
                     'observed': outs[i]} for i in (0, len(ps) // 2)],
        'evaluations': len(jobs) + len(pcs), 'distinct_nontrivial': nontrivial, 'payload_runs': len(pcs),
        'rule': 'one replay per path of the TLC state graph (configuration x cutting of keystrokes and output into loop iterations); '
                'non-trivial = at least one loop iteration with data', 'exhaustive': not ctx.quick(),
        'deviation_sensitivity': sens, 'known_findings_hit': nknown,
    }, assumptions=['bytes are drawn from a small alphabet; the escape character is 0x1d; the all-byte-values / multi-byte payload classes are '
                    'covered by the send/log checks, not here', 'the user is an outer pty; sys.stdout is redirected to it for the initial flush'],
        wall_s=ctx.wall(), violations=nviol)
    return status


def judge(out, fin, init):
    bad = []
    if out['raised']:
        bad.append(('C15:interact-raised', {'raised': out['raised']}))
    if out['to_child'] != fin['toChild']:
        bad.append(('C15:child-did-not-get-exactly-the-keystrokes-before-the-escape', {'got': out['to_child'], 'want': fin['toChild']}))
    if out['to_user'] != fin['toUser']:
        bad.append(('C15:user-did-not-see-pending-then-output-in-order', {'got': out['to_user'], 'want': fin['toUser']}))
    if out['left'] != []:
        bad.append(('C15:pending-output-not-consumed-by-interact', {'left_pending': out['left']}))
    if not out['mode_restored']:
        bad.append(('C15:terminal-mode-not-restored', {}))
    return bad


def do_replay(ctx):
    d = json.load(open(ctx.replay))
    c = d['case']
    if 'payload' in c:
        out = payload_case((ctx.work, c['payload']))
        print(json.dumps(out, indent=1))
        j = judge_payload(out) if not out['error'] else ('error', out)
        if j:
            print('VIOLATION property=C15 replay=%s' % ctx.replay)
            return 1
        return 0
    init = dict(c['init'])
    out = replay((ctx.work, init, [tuple(x) for x in c['iters']], c['by_exit'], c.get('poll', False)))
    print(json.dumps(out, indent=1))
    return 0

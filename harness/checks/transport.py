"""C06 (transport fidelity) and the read_nonblocking half of C05, on the real transports.

TLC explores every interleaving of peer actions (write, hang up, exit) with the reader's
system calls on the implementation-shaped models (PtyRead, ...) and checks the transport
contract.  Every single-call behaviour from every distinct inter-call state of the TLC state
graph becomes a schedule "peer actions before the k-th system call of the reader" that
harness/world.py replays on the real transport (real pty / child process, real EIO and waitpid
semantics).  The recorded trace (system calls with their results, returns) is then validated
against the TLC state graph (harness/graphtrace.py) and, independently, the contract clauses are
evaluated on what really happened.
"""
import json, os, random, sys, time, traceback
from multiprocessing import Pool
import pexpect
from .. import tlc, evidence, common, stategraph, graphtrace
from ..world import PtyWorld, WouldBlock

sys.setrecursionlimit(100000)

PTY_KINDS = {
    'select0': {'Poll0', 'LoopPoll', 'RePoll'},
    'read': {'Read1', 'LoopRead', 'ReadFinal'},
    'isalive': {'Alive1', 'Alive2', 'EofAliveRaise', 'EofAliveRet'},
    'selectT': {'Wait'},
}
PTY_READER = set().union(*PTY_KINDS.values())


def model_graph(ctx, module, cfgname, consts, invariants, tag):
    cfg = tlc.write_cfg(os.path.join(ctx.work, cfgname), constants=consts, invariants=invariants)
    dot = os.path.join(ctx.work, tag + '.dot')
    res = tlc.run(module, cfg, ctx.work, workers=1, timeout=1800, extra=['-dump', 'dot,actionlabels', dot],
                  outname=tag + '.out')
    if not res['ok']:
        raise tlc.TLCError('%s: TLC %s (%s)' % (module, 'violated ' + str(res['violated']) if res['violated'] else 'failed', res['out']))
    return res, stategraph.Graph(dot)


def projection(st, maxunits):
    """what of an inter-call state can influence the next call"""
    return (st['written'] - st['lo'], st['slaveOpen'], st['proc'], st['flagEof'], st['terminated'],
            maxunits - st['written'])


def schedules_from_graph(g, maxunits, reader_names):
    """For every distinct inter-call state (by projection): a shortest prefix from the initial
    state, then every path through one more call until it returns (or blocks); reader actions are
    abstracted to a marker ('R',), peer actions keep their label.  Returns the distinct schedules."""
    parent = {g.init[0]: None}
    order = [g.init[0]]
    for n in order:
        for lab, d in g.edges[n]:
            if d not in parent:
                parent[d] = (n, lab)
                order.append(d)
    reps = {}
    for n in order:
        st = g.nodes[n]
        if st['pc'] == 'idle':
            reps.setdefault(projection(st, maxunits), n)

    def item(lab):
        name = lab.split('(')[0]
        if name == 'CallStart':
            return ('C', stategraph.parse_action(lab)[1])
        if name in reader_names:
            return ('R',)
        return ('P', lab)
    seen = set()
    out = []
    npaths = 0
    for proj, n in reps.items():
        prefix = []
        m = n
        while parent[m] is not None:
            m, lab = parent[m]
            prefix.append(lab)
        prefix.reverse()
        pre = [item(l) for l in prefix]
        stack = []

        def dfs(node, acc):
            nonlocal npaths
            if g.nodes[node]['pc'] == 'idle':
                npaths += 1
                key = json.dumps(pre + acc)
                if key not in seen:
                    seen.add(key)
                    out.append(pre + list(acc))
                return
            outs = [(l, d) for l, d in g.edges[node] if d != node]
            if not outs:
                return          # the reader is blocked for ever here (C05 looks at those states)
            for l, d in outs:
                acc.append(item(l))
                dfs(d, acc)
                acc.pop()
        for lab, d in g.edges[n]:
            if lab.startswith('CallStart'):
                dfs(d, [item(lab)])
    return out, len(reps), npaths


def replay_pty(args):
    workdir, schedule, use_poll = args
    w = None
    out = {'calls': [], 'error': None, 'events': []}
    try:
        w = PtyWorld(workdir, use_poll=use_poll)
        w.schedule = [tuple(x) for x in schedule]
        while True:
            w.skip_to_call()
            if w.pos >= len(w.schedule):
                break
            size, tmo = w.schedule[w.pos][1]
            w.pos += 1
            t = None if tmo == -1 else float(tmo)
            t0 = w.clock.now
            written0 = len(w.written)
            w.log(e='call', size=size, tmo=tmo)
            w.active = True
            try:
                data = w.child.read_nonblocking(size, t)
                res = ('data', data)
            except pexpect.EOF:
                res = ('EOF', b'')
            except pexpect.TIMEOUT:
                res = ('TIMEOUT', b'')
            except WouldBlock as e:
                res = ('BLOCK', b'')
            finally:
                w.active = False
            c = {'size': size, 'tmo': tmo, 'kind': res[0], 'data': res[1].decode('latin-1'),
                 'elapsed': w.clock.now - t0, 'written_before': written0,
                 'written_at_return': len(w.written), 'peer_open': w.peer_open, 'peer_exited': w.peer_exited}
            out['calls'].append(c)
            if res[0] == 'BLOCK':
                break
            w.log(e='ret', kind=res[0], n=len(res[1]), elapsed=int(w.clock.now - t0))
        out['written'] = w.written.decode('latin-1')
        out['events'] = w.events
        out['extra_steps'] = w.extra_steps
    except Exception:
        out['error'] = traceback.format_exc()
    finally:
        if w is not None:
            w.close()
    return out


def judge_contract(out):
    """C06 / C05 clauses on what really happened (independent of the implementation-shaped model)"""
    bad = []
    delivered = ''
    written = out.get('written', '')
    for i, c in enumerate(out['calls']):
        if c['kind'] == 'data':
            delivered += c['data']
            if len(c['data']) > c['size']:
                bad.append(('C06:more-than-size', i))
            if not written.startswith(delivered):
                bad.append(('C06:not-a-prefix-of-what-was-written', i))
            if c['data'] == '':
                bad.append(('C06:empty-data-read', i))
        elif c['kind'] == 'EOF':
            if len(delivered) < c['written_at_return'] or c['peer_open']:
                bad.append(('C06:eof-before-all-output-delivered', i))
        elif c['kind'] == 'TIMEOUT':
            if c['tmo'] == -1:
                bad.append(('C05:timeout-with-timeout-None', i))
            elif c['elapsed'] < c['tmo']:
                bad.append(('C05:timeout-before-deadline', i))
            if len(delivered) < c['written_before']:
                bad.append(('C05:timeout-although-data-was-readable', i))
        if c['kind'] != 'BLOCK' and c['tmo'] != -1 and c['elapsed'] > c['tmo']:
            bad.append(('C05:returned-after-deadline', i))
    return bad


def pty_matcher(g):
    proj = lambda st: {'lo': st['lo'], 'flagEof': st['flagEof'], 'terminated': st['terminated']}
    m = graphtrace.Matcher(g, PTY_KINDS, proj)
    call_label = lambda ev: 'CallStart(%d,%d)' % (ev['size'], ev['tmo'])
    ret_ok = lambda st, ev: (st['pc'] == 'idle' and st['ret']['kind'] == ev['kind'] and st['ret']['n'] == ev['n']
                             and st['now'] - st['started'] == ev['elapsed'])
    return m, call_label, ret_ok


def run_pty(ctx, pool):
    quick = ctx.quick()
    maxunits = 3 if quick else 4
    consts = [('MaxUnits', '= %d' % maxunits), ('MaxWrite', '= 2'), ('Sizes', '= {1, 2}' if quick else '= {1, 2, 3}'),
              ('Tmos', '= {0, 2}'), ('MaxCalls', '= 3'), ('Fixed', '= TRUE')]
    invs = ['DeliveredPrefix', 'EofOnlyWhenDrained', 'AtMostSize', 'DataNonEmpty', 'Bounded', 'NotEarly']
    res, g = model_graph(ctx, 'PtyRead', 'pty.cfg', consts, invs, 'pty')
    ctx.note('TLC PtyRead: %d distinct states, %d transitions, depth %d; C06/C05 invariants hold in every interleaving' % (
        res['distinct'], g.n_edges(), res['depth']))
    # model sensitivity: the code as it was (no re-poll after the slow-platform check) must be caught
    cfg2 = tlc.write_cfg(os.path.join(ctx.work, 'pty_unfixed.cfg'), constants=consts[:-1] + [('Fixed', '= FALSE')], invariants=invs)
    r2 = tlc.run('PtyRead', cfg2, ctx.work, workers=4, timeout=300, outname='pty_unfixed.out')
    if r2['violated'] != 'EofOnlyWhenDrained':
        raise tlc.TLCError('PtyRead with Fixed=FALSE should violate EofOnlyWhenDrained, got %s' % r2['violated'])
    scheds, nstates, npaths = schedules_from_graph(g, maxunits, PTY_READER)
    rng = random.Random(ctx.seed * 31 + 5)
    cap = 3000 if quick else 60000
    if len(scheds) > cap:
        scheds = rng.sample(scheds, cap)
    jobs = [(ctx.work, s, bool(k % 2)) for k, s in enumerate(scheds)]
    t0 = time.time()
    outs = pool.map(replay_pty, jobs, chunksize=8)
    ctx.note('pty: %d inter-call states, %d single-call paths -> %d distinct schedules replayed on a real pty child in %.0fs' % (
        nstates, npaths, len(jobs), time.time() - t0))
    m, call_label, ret_ok = pty_matcher(g)
    stats = {'replayed': len(jobs), 'accepted': 0, 'drift': 0, 'blocked': 0, 'nontrivial': 0, 'steps': 0}
    for (wd, sched, use_poll), out in zip(jobs, outs):
        case = {'transport': 'pty', 'schedule': sched, 'use_poll': use_poll}
        if out['error']:
            raise tlc.TLCError('pty replay crashed: %s\n%s' % (sched, out['error']))
        if any(x[0] == 'P' for x in sched):
            stats['nontrivial'] += 1
        stats['steps'] += sum(1 for e in out['events'] if e['e'] == 'step')
        bad = judge_contract(out)
        ok, at, S = m.match(out['events'], call_label, ret_ok)
        blocked = any(c['kind'] == 'BLOCK' for c in out['calls'])
        stats['blocked'] += blocked
        if ok:
            stats['accepted'] += 1
        for clause, i in bad:
            ctx.fail(clause, case, detail={'calls': out['calls'], 'written': out.get('written'), 'events': out['events']},
                     signature={'transport': 'pty'})
        if not ok and not bad:
            # the execution kept the contract but is not a behaviour of the implementation-shaped model
            stats['drift'] += 1
            if stats['drift'] <= 3:
                ctx.note('SPEC-DRIFT (pty): event %d %s not explained by PtyRead; schedule %s' % (
                    at, out['events'][at] if at < len(out['events']) else None, sched))
    return res, g, stats, jobs, outs


def self_test(ctx, g, jobs, outs):
    """binding self-test: a trace with one corrupted observation must be rejected by the graph
    matcher, and a contract breach must be noticed by the judge"""
    m, call_label, ret_ok = pty_matcher(g)
    import copy
    for (wd, sched, up), out in zip(jobs, outs):
        evs = out['events']
        k = [i for i, e in enumerate(evs) if e['e'] == 'step' and e['k'] == 'read' and e['n'] > 0]
        if k and m.match(evs, call_label, ret_ok)[0]:
            bad = copy.deepcopy(evs)
            bad[k[0]]['n'] += 1
            bad[k[0]]['lo'] += 1
            if m.match(bad, call_label, ret_ok)[0]:
                raise tlc.TLCError('self-test: corrupted read length accepted by the graph matcher')
            o2 = copy.deepcopy(out)
            for c in o2['calls']:
                if c['kind'] == 'data':
                    c['data'] = 'Z' + c['data'][1:]
                    break
            if not judge_contract(o2):
                raise tlc.TLCError('self-test: corrupted data not noticed by the contract judge')
            return 'corrupted read length rejected by the matcher; corrupted byte rejected by the contract judge'
    raise tlc.TLCError('self-test: no suitable trace')


def run(ctx):
    if ctx.replay:
        return replay(ctx)
    print('[%s] transports - tier %s seed %d' % (ctx.pid, ctx.tier, ctx.seed), flush=True)
    with Pool(14) as pool:
        res, g, stats, jobs, outs = run_pty(ctx, pool)
    ctx.note('pty: %d of %d recorded traces (%d system calls) are behaviours of PtyRead; SPEC-DRIFT %d; %d end blocked in the liveness check' % (
        stats['accepted'], stats['replayed'], stats['steps'], stats['drift'], stats['blocked']))
    ctx.note('binding self-test: ' + self_test(ctx, g, jobs, outs))
    ctx.failures = [f for f in ctx.failures if f.clause.startswith(ctx.pid + ':')]
    status, nviol, nknown = common.conclude(ctx)
    evidence.write(ctx.pid, ctx.tier, ctx.seed, 'model_checking', {
        'states': res['distinct'], 'transitions': g.n_edges(),
        'traces_validated_against_impl': stats['replayed'],
        'samples': [{'schedule': jobs[0][1], 'events': outs[0]['events']},
                    {'schedule': jobs[len(jobs) // 2][1], 'events': outs[len(jobs) // 2]['events']}],
        'evaluations': stats['replayed'], 'distinct_nontrivial': stats['nontrivial'],
        'rule': 'one replay per distinct schedule (peer actions placed before the k-th reader system call) derived from every '
                'single-call path out of every distinct inter-call state of the TLC state graph; non-trivial = contains at '
                'least one peer action',
        'exhaustive': len(jobs) == stats['replayed'], 'spec_drift': stats['drift'], 'accepted_by_model': stats['accepted'],
        'known_findings_hit': nknown,
    }, assumptions=['Linux pty semantics (readable on hang-up, EIO after the last byte, short reads) are observed on the real kernel',
                    'peer actions are placed between system calls; races inside a single system call are the kernel\'s'],
        wall_s=ctx.wall(), violations=nviol)
    return status


def replay(ctx):
    d = json.load(open(ctx.replay))
    c = d['case']
    out = replay_pty((ctx.work, c['schedule'], c.get('use_poll', False)))
    print(json.dumps(out, indent=1)[:3000])
    bad = [b for b in judge_contract(out) if b[0].startswith(ctx.pid)]
    if bad:
        print('VIOLATION property=%s replay=%s' % (ctx.pid, ctx.replay))
        return 1
    return 0

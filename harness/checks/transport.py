"""C06 (transport fidelity) and the read_nonblocking half of C05, on the real transports.

TLC explores every interleaving of peer actions (write, hang up, exit) with the reader's
system calls on the implementation-shaped models (PtyRead, ...) and checks the transport
contract.  Every single-call behaviour from every distinct inter-call state of the TLC state
graph becomes a schedule "peer actions before the k-th system call of the reader" that
harness/world.py replays on the real transport (real pty / child process, real EIO and waitpid
semantics).  The recorded trace (system calls with their results, returns) is then validated
against the TLC state graph (harness/graphtrace.py) and, independently, the contract clauses are
evaluated on what really happened.
"""
import json, os, random, sys, time, traceback
from multiprocessing import Pool
import pexpect
from .. import tlc, evidence, common, stategraph, graphtrace
from ..world import PtyWorld, WouldBlock

sys.setrecursionlimit(100000)

from ..world import FdWorld, SockWorld, GatedPopenWorld
from ..budget import Hung, wall_budget, pmap, CASE_BUDGET

WALL_BUDGET = 20       # seconds of wall-clock time for one read_nonblocking call (they take microseconds)

# fd worlds: descriptor kind x select/poll x bytes/unicode
FD_KINDS = ('pipe', 'pty', 'sockfd', 'fifo', 'tcp')
FD_VARIANTS = len(FD_KINDS) * 4


def fd_variant(v):
    return dict(kind=FD_KINDS[v % len(FD_KINDS)], use_poll=bool((v // len(FD_KINDS)) % 2),
                encoding='utf-8' if (v // (2 * len(FD_KINDS))) % 2 else None)


def fd_variants_for(schedule):
    """which worlds a schedule is replayed in: urgent data exists on a TCP connection only (select() and poll()
    flavour: fdspawn(use_poll=True) used to register POLLPRI, take the urgent condition for readability and then sit
    in a blocking os.read - repaired in /repo, see known_findings.json)"""
    urgent = any(x[0] == 'P' and x[1].startswith('PeerUrgent') for x in schedule)
    out = []
    for v in range(FD_VARIANTS):
        f = fd_variant(v)
        if urgent and f['kind'] != 'tcp':
            continue
        out.append(v)
    return out


# in unicode mode a unit is one byte of this text: writes of 1-2 units and reads of 1-2 bytes end inside characters
UTEXT = '\u00e9\u20ac'.encode('utf-8')          # 2 + 3 bytes
UNIT_U = (lambda i: bytes([UTEXT[i % len(UTEXT)]]), lambda i: bytes([UTEXT[(i + 2) % len(UTEXT)]]))

TRANSPORTS = {
    'pty': dict(
        module='MCPtyRead',
        consts=lambda q: [('MaxUnits', '= %d' % (3 if q else 4)), ('MaxWrite', '= 2'), ('Sizes', '= {1, 2}' if q else '= {1, 2, 3}'),
                          ('Tmos', '<- TmosFinite'), ('MaxCalls', '= 3'), ('Fixed', '= TRUE')],
        invs=['DeliveredPrefix', 'EofOnlyWhenDrained', 'AtMostSize', 'DataNonEmpty', 'Bounded', 'NotEarly'],
        kinds={'select0': {'Poll0', 'LoopPoll', 'RePoll'}, 'read': {'Read1', 'LoopRead', 'ReadFinal'},
               'isalive': {'Alive1', 'Alive2', 'EofAliveRaise', 'EofAliveRet'}, 'selectT': {'Wait'}},
        inter=lambda st, mu: (st['written'] - st['lo'], st['slaveOpen'], st['proc'], st['flagEof'], st['terminated'], mu - st['written']),
        world=lambda wd, k: PtyWorld(wd, use_poll=bool(k % 2)),
        variants=1,
    ),
    'fd': dict(
        module='MCFdRead',
        consts=lambda q: [('MaxUnits', '= %d' % (3 if q else 4)), ('MaxWrite', '= 2'), ('Sizes', '= {1, 2}' if q else '= {1, 2, 3}'),
                          ('Tmos', '<- TmosFinite'), ('MaxCalls', '= 3'), ('Urgent', '= TRUE'), ('WakeOnUrgent', '= FALSE')],
        invs=['DeliveredPrefix', 'EofOnlyWhenDrained', 'AtMostSize', 'DataNonEmpty', 'Bounded', 'NotEarly'],
        kinds={'select0': {'Select'}, 'selectT': {'Select'}, 'read': {'Read'}},
        inter=lambda st, mu: (st['written'] - st['lo'], st['peerOpen'], st['flagEof'], mu - st['written'], st['urgent']),
        world=lambda wd, k: FdWorld(wd, **fd_variant(k % FD_VARIANTS)),
        variants=FD_VARIANTS,    # every schedule on pipe / pty / socket descriptor / FIFO / TCP x select / poll x bytes / unicode
        variants_for=fd_variants_for,
        unicode=lambda k: bool(fd_variant(k % FD_VARIANTS)['encoding']),
        cap=lambda q: 2000 if q else 8000,
    ),
    'socket': dict(
        module='MCSockRead',
        consts=lambda q: [('MaxUnits', '= %d' % (3 if q else 4)), ('MaxWrite', '= 2'), ('Sizes', '= {1, 2}' if q else '= {1, 2, 3}'),
                          ('Tmos', '<- TmosFinite'), ('MaxCalls', '= 3'), ('UserTimeouts', '<- UserTimeoutsMC')],
        invs=['DeliveredPrefix', 'EofOnlyWhenDrained', 'AtMostSize', 'DataNonEmpty', 'Bounded', 'NotEarly', 'SocketTimeoutRestored'],
        kinds={'settimeout': {'SetTimeout', 'Restore'}, 'recv': {'Recv'}},
        inter=lambda st, mu: (st['written'] - st['lo'], st['peerOpen'], st['flagEof'], mu - st['written'], st['userTimeout']),
        world=None,     # needs the user's timeout of the initial state: see make_world
        variants=2,     # bytes / unicode (recv() results that end inside a character)
        unicode=lambda k: bool(k % 2),
        cap=lambda q: 3000 if q else 30000,
    ),
    'popen': dict(
        module='PopenRead',
        consts=lambda q: [('MaxUnits', '= %d' % (3 if q else 4)), ('MaxWrite', '= 2'), ('Sizes', '= {1, 2}' if q else '= {1, 2, 3}'),
                          ('MaxCalls', '= 3'), ('ThreadChunk', '= 3' if q else '= 4'), ('ReapShortcut', '= FALSE')],
        invs=['Accounted', 'EofOnlyWhenDrained', 'AtMostSize'],
        kinds={'tread': {'ThreadRead'}, 'tput': {'ThreadPut'}, 'qget': {'Drain'}},
        # the last result is part of the inter-call state: a call that found the queue momentarily empty (and returned
        # nothing) is followed by further calls - what it left behind in the object shows only there
        inter=lambda st, mu: (st['written'] - st['plo'], st['tpc'], st['tbuf'], tuple(st['queue']), st['carry'], st['reachedEof'],
                              st['peerOpen'], mu - st['written'], st['reaped'], st['ret']['kind'] == 'data' and st['ret']['n'] == 0),
        world=lambda wd, k: GatedPopenWorld(wd),
        variants=1,
        reader={'Drain'},
        silent={'Drain', 'Ret'},
        skip={'Ret'},
        max_per_rep=400,    # thorough tier: 16 M single-call paths; at most 400 (drawn uniformly) out of every inter-call state
    ),
}


def is_unicode(transport, k):
    f = TRANSPORTS[transport].get('unicode')
    return bool(f and f(k % 1000))


def make_world(transport, workdir, k, init_state):
    """k: variant + 1000 * salt (the salt picks the text the units are cut from)"""
    v, salt = k % 1000, k // 1000
    if transport == 'socket':
        ut = init_state['userTimeout']
        w = SockWorld(workdir, user_timeout=None if ut == -1 else float(ut), encoding='utf-8' if v % 2 else None)
    else:
        w = TRANSPORTS[transport]['world'](workdir, v)
    if is_unicode(transport, k):
        w.unit = UNIT_U[salt % 2]
    return w


def model_graph(ctx, module, cfgname, consts, invariants, tag):
    cfg = tlc.write_cfg(os.path.join(ctx.work, cfgname), constants=consts, invariants=invariants)
    dot = os.path.join(ctx.work, tag + '.dot')
    res = tlc.run(module, cfg, ctx.work, workers=1, timeout=1800, extra=['-dump', 'dot,actionlabels', dot],
                  outname=tag + '.out')
    if not res['ok']:
        raise tlc.TLCError('%s: TLC %s (%s)' % (module, 'violated ' + str(res['violated']) if res['violated'] else 'failed', res['out']))
    return res, stategraph.Graph(dot)


def projection(st, maxunits):
    """what of an inter-call state can influence the next call"""
    return (st['written'] - st['lo'], st['slaveOpen'], st['proc'], st['flagEof'], st['terminated'],
            maxunits - st['written'])


def schedules_from_graph(g, maxunits, reader_names, inter, include_blocked=False, skip=(), max_per_rep=None, rng=None):
    """For every distinct inter-call state (by projection): a shortest prefix from the initial
    state, then every path through one more call until it returns (or blocks); reader actions are
    abstracted to a marker ('R',), peer actions keep their label.  Returns the distinct schedules as
    (initial state, schedule, projection of the inter-call state the last call starts from).
    max_per_rep: an inter-call state with more single-call paths than this contributes that many, drawn uniformly
    from its paths (the paths of one call form a DAG: they are counted, then sampled by weighted descent)."""
    parent = {i0: None for i0 in g.init}
    order = list(g.init)
    for n in order:
        for lab, d in g.edges[n]:
            if d not in parent:
                parent[d] = (n, lab)
                order.append(d)
    reps = {}
    for n in order:
        st = g.nodes[n]
        if st['pc'] == 'idle':
            reps.setdefault(inter(st, maxunits), n)

    def item(lab):
        name = lab.split('(')[0]
        if name == 'CallStart':
            return ('C', stategraph.parse_action(lab)[1])
        if name in reader_names:
            return ('R',)
        if name in skip:
            return None          # a step of the model without a system call
        return ('P', lab)
    seen = set()
    out = []
    npaths = 0
    cnt_memo = {}
    for proj, n in reps.items():
        prefix = []
        m = n
        while parent[m] is not None:
            m, lab = parent[m]
            prefix.append(lab)
        prefix.reverse()
        pre = [x for x in (item(l) for l in prefix) if x is not None]
        root = m            # the initial state this prefix starts from
        stack = []

        def dfs(node, acc):
            nonlocal npaths
            if g.nodes[node]['pc'] == 'idle':
                npaths += 1
                key = json.dumps([root, pre + acc])
                if key not in seen:
                    seen.add(key)
                    out.append((root, pre + list(acc), proj))
                return
            outs = [(l, d) for l, d in g.edges[node] if d != node]
            st_ = g.nodes[node]
            if (include_blocked and st_.get('proc') == 'run' and st_.get('flagEof') and not st_.get('terminated')
                    and st_['pc'] in ('alive1', 'alive2', 'eof_alive_raise', 'eof_alive_ret')):
                # the reader sits in the blocking liveness check while the child keeps running: replay up to here
                key = json.dumps([root, pre + acc + [['R']]])
                if key not in seen:
                    seen.add(key)
                    out.append((root, pre + list(acc) + [('R',)], proj))
            if not outs:
                # the reader is blocked for ever here (only the C05 check replays those)
                if include_blocked:
                    key = json.dumps([root, pre + acc])
                    if key not in seen:
                        seen.add(key)
                        out.append((root, pre + list(acc), proj))
                return
            for l, d in outs:
                it = item(l)
                if it is not None:
                    acc.append(it)
                dfs(d, acc)
                if it is not None:
                    acc.pop()
        starts = [(lab, d) for lab, d in g.edges[n] if lab.startswith('CallStart')]
        if max_per_rep is not None and not include_blocked:
            total = sum(count_paths(g, d, cnt_memo) for lab, d in starts)
            if total > max_per_rep:
                npaths += total
                got = 0
                tries = 0
                while got < max_per_rep and tries < 4 * max_per_rep:
                    tries += 1
                    lab, node = weighted(rng, starts, lambda x: count_paths(g, x[1], cnt_memo))
                    acc = [item(lab)]
                    while g.nodes[node]['pc'] != 'idle':
                        outs = [(l, d) for l, d in g.edges[node] if d != node]
                        l, node = weighted(rng, outs, lambda x: count_paths(g, x[1], cnt_memo))
                        it = item(l)
                        if it is not None:
                            acc.append(it)
                    key = json.dumps([root, pre + acc])
                    if key not in seen:
                        seen.add(key)
                        out.append((root, pre + acc, proj))
                        got += 1
                continue
        for lab, d in starts:
            dfs(d, [item(lab)])
    return out, len(reps), npaths


def count_paths(g, node, memo):
    """number of paths from `node` to the end of the call (iterative: the graphs are deep)"""
    stack = [node]
    while stack:
        n = stack[-1]
        if n in memo:
            stack.pop()
            continue
        if g.nodes[n]['pc'] == 'idle':
            memo[n] = 1
            stack.pop()
            continue
        outs = [d for l, d in g.edges[n] if d != n]
        todo = [d for d in outs if d not in memo]
        if todo:
            stack.extend(todo)
            continue
        memo[n] = sum(memo[d] for d in outs)
        stack.pop()
    return memo[node]


def weighted(rng, items, weight):
    ws = [weight(x) for x in items]
    r = rng.random() * sum(ws)
    for x, w_ in zip(items, ws):
        r -= w_
        if r < 0:
            return x
    return [x for x, w_ in zip(items, ws) if w_][-1]


def replay_one(args):
    try:
        with wall_budget(CASE_BUDGET):
            return replay_one_(args)
    except Hung:
        return {'calls': [], 'events': [], 'error': 'the case did not finish within %d s (world construction / peer synchronisation)' % CASE_BUDGET}


def replay_one_(args):
    transport, workdir, schedule, k, init_state = args
    w = None
    out = {'calls': [], 'error': None, 'events': []}
    uni = is_unicode(transport, k)
    try:
        w = make_world(transport, workdir, k, init_state)
        w.schedule = [tuple(x) for x in schedule]

        def one_call(size, tmo, tail=False):
            t = None if tmo == -1 else float(tmo)
            t0 = w.clock.now
            written0, nread0, open0 = len(w.written), w.nread, w.peer_open
            w.quiet = tail          # the completion calls are judged by the contract clauses only
            if tail and transport == 'socket':
                # the application changes its socket's timeout between two reads (after the object was built): what a read
                # leaves behind is the setting it found at that moment, not the one of construction time
                w.user_timeout = 7.5 if w.user_timeout is None else (None if w.user_timeout == 7.5 else 7.5)
                w.a.settimeout(w.user_timeout)
            w.log(e='call', size=size, tmo=tmo)
            w.active = True
            try:
                with wall_budget(WALL_BUDGET):
                    data = w.child.read_nonblocking(size, t)
                res = ('data', data)
            except pexpect.EOF:
                res = ('EOF', b'')
            except pexpect.TIMEOUT:
                res = ('TIMEOUT', b'')
            except WouldBlock as e:
                res = ('BLOCK', b'')
            except Hung:
                res = ('HUNG', b'')          # stopped by the harness: the call does not come back
            except Exception as e:
                res = ('ERR:' + type(e).__name__, b'')
            finally:
                w.active = False
            text = res[1].decode('latin-1') if isinstance(res[1], bytes) else res[1]
            c = {'size': size, 'tmo': tmo, 'kind': res[0], 'data': text,
                 'elapsed': w.clock.now - t0, 'written_before': written0, 'peer_open_before': open0,
                 'written_at_return': len(w.written), 'peer_open': w.peer_open, 'peer_exited': w.peer_exited,
                 'nbytes': w.nread - nread0, 'lo': w.nread}
            if tail:
                c['tail'] = True
            if transport == 'socket':
                c['sock_timeout_after'] = w.a.gettimeout()
                c['sock_timeout_user'] = w.user_timeout
            out['calls'].append(c)
            return c

        while True:
            w.skip_to_call()
            if w.pos >= len(w.schedule):
                break
            cargs = w.schedule[w.pos][1]
            size, tmo = (cargs[0], cargs[1]) if len(cargs) > 1 else (cargs[0], 0)
            w.pos += 1
            c = one_call(size, tmo)
            if c['kind'] in ('BLOCK', 'HUNG'):
                break
            # in unicode mode the model's units are the bytes taken from the descriptor, not the characters returned
            w.log(e='ret', kind=c['kind'], n=c['nbytes'] if uni else len(c['data']), elapsed=int(c['elapsed']))
        out['written'] = w.written.decode('latin-1')
        out['transport'] = transport
        out['unicode'] = uni
        out['events'] = w.events
        out['extra_steps'] = w.extra_steps
        # completion: whatever the schedule left behind in the object, once the peer has gone everything it wrote is
        # still returned, then EOF (polls: all of it is in the kernel / the queue by now)
        if out['calls'] and out['calls'][-1]['kind'] in ('data', 'EOF', 'TIMEOUT'):
            w.end_stream()
            out['completed'] = False
            for _ in range(len(w.written) + 6):
                c = one_call(2, 0, tail=True)
                if c['kind'] != 'data':
                    out['completed'] = c['kind'] == 'EOF'
                    break
    except Exception:
        out['error'] = traceback.format_exc()
    finally:
        if w is not None:
            w.close()
    return out


def hangup_seen_by(events):
    """for a reader that ended blocked in the liveness check: which of its readiness polls had found the hang-up - the
    timeout argument of the last select()/poll() it made before the blocked step ('zero-timeout-poll': the hang-up was
    already there when that poll looked; 'timed-wait': it arrived while the reader sat in the wait)"""
    last = None
    for e in events:
        if e.get('e') != 'step':
            continue
        if e.get('k') in ('select0', 'selectT'):
            last = e['k']
        if e.get('blocked'):
            break
    return {'select0': 'zero-timeout-poll', 'selectT': 'timed-wait'}.get(last, 'none')


def judge_contract(out):
    """C06 / C05 clauses on what really happened (independent of the implementation-shaped model)"""
    import codecs
    bad = []
    delivered = ''
    written = out.get('written', '')
    uni = out.get('unicode')

    def text_of(nbytes):
        """what a reader that has taken `nbytes` bytes from the descriptor can have returned"""
        if not uni:
            return written[:nbytes]
        return codecs.getincrementaldecoder('utf-8')().decode(written[:nbytes].encode('latin-1'))
    for i, c in enumerate(out['calls']):
        if c['kind'] == 'data':
            delivered += c['data']
            if len(c['data']) > c['size']:
                bad.append(('C06:more-than-size', i))
            if uni:
                # the characters returned so far are exactly the decoding of the bytes taken so far
                if delivered != text_of(c['lo']):
                    bad.append(('C06:not-a-prefix-of-what-was-written', i))
            elif not written.startswith(delivered):
                bad.append(('C06:not-a-prefix-of-what-was-written', i))
            if c['data'] == '' and out.get('transport') != 'popen' and not uni:
                bad.append(('C06:empty-data-read', i))
        elif c['kind'] == 'EOF':
            if len(delivered) < len(text_of(c['written_at_return'])) or c['peer_open']:
                bad.append(('C06:eof-before-all-output-delivered', i))
        elif c['kind'] == 'TIMEOUT':
            if c['tmo'] == -1:
                bad.append(('C05:timeout-with-timeout-None', i))
            elif c['elapsed'] < c['tmo']:
                bad.append(('C05:timeout-before-deadline', i))
            if len(delivered) < len(text_of(c['written_before'])):
                bad.append(('C05:timeout-although-data-was-readable', i))
            if not c.get('peer_open_before', True):
                # the peer had closed / exited before the call started: what is left is data and the end of the
                # stream, both reported at once by every transport - never "nothing yet"
                bad.append(('C06:stream-ended-but-timeout-reported-instead-of-data-or-eof', i))
        elif c['kind'] == 'BLOCK':
            if c['tmo'] != -1:
                # (blocked while the peer is still connected: e.g. inside a read on a descriptor that is not readable)
                bad.append(('C05:blocks-after-hangup-without-exit' if not c['peer_open'] else 'C05:blocks-past-the-deadline', i))
        elif c['kind'] == 'HUNG':
            bad.append(('C05:call-did-not-return', i))
            bad.append(('C06:read-did-not-return', i))
        elif c['kind'].startswith('ERR:'):
            bad.append(('C05:poll-raises-other-exception' if c['tmo'] == 0 else 'C04:other-exception-instead-of-eof-or-timeout', i))
            if c.get('tail'):
                bad.append(('C06:output-not-delivered-before-eof', i))
        if c['kind'] not in ('BLOCK', 'HUNG') and c['tmo'] != -1 and c['elapsed'] > c['tmo']:
            bad.append(('C05:returned-after-deadline', i))
        if 'sock_timeout_after' in c and c['sock_timeout_after'] != c['sock_timeout_user']:
            bad.append(('C06:socket-timeout-not-restored', i))
    if out.get('completed') is False and out['calls'] and out['calls'][-1]['kind'] in ('data', 'TIMEOUT'):
        # the peer has gone, the calls after that did not end with EOF
        if not any(b[0].startswith('C06:stream-ended') for b in bad):
            bad.append(('C06:end-of-stream-never-reported', len(out['calls']) - 1))
    return bad


def make_matcher(g, transport):
    T = TRANSPORTS[transport]
    keys = ('lo', 'flagEof', 'terminated', 'sockTimeout', 'plo', 'qlen')

    def proj(st):
        d = {k: st[k] for k in keys if k in st}
        if 'queue' in st:
            d['qlen'] = len(st['queue'])
        return d
    m = graphtrace.Matcher(g, T['kinds'], proj)
    m.obs_keys = keys
    m.chain_kinds = ('selectT', 'recv')
    m.silent = T.get('silent', ())
    if transport == 'popen':
        call_label = lambda ev: 'CallStart(%d)' % ev['size']
        ret_ok = lambda st, ev: st['pc'] == 'idle' and st['ret']['kind'] == ev['kind'] and st['ret']['n'] == ev['n']
    else:
        call_label = lambda ev: 'CallStart(%d,%d)' % (ev['size'], ev['tmo'])
        ret_ok = lambda st, ev: (st['pc'] == 'idle' and st['ret']['kind'] == ev['kind'] and st['ret']['n'] == ev['n']
                                 and st['now'] - st['started'] == ev['elapsed'])
    return m, call_label, ret_ok


def run_transport(ctx, pool, transport, include_blocked=False):
    quick = ctx.quick()
    T = TRANSPORTS[transport]
    consts = T['consts'](quick)
    maxunits = int(dict(consts)['MaxUnits'].split()[-1])
    res, g = model_graph(ctx, T['module'], transport + '.cfg', consts, T['invs'], transport)
    ctx.note('TLC %s: %d distinct states, %d transitions, depth %d; C06/C05 invariants hold in every interleaving' % (
        T['module'], res['distinct'], g.n_edges(), res['depth']))
    if transport == 'pty':
        # model sensitivity: the code as it was (no re-poll after the slow-platform check) must be caught
        cfg2 = tlc.write_cfg(os.path.join(ctx.work, 'pty_unfixed.cfg'), constants=consts[:-1] + [('Fixed', '= FALSE')], invariants=T['invs'])
        r2 = tlc.run(T['module'], cfg2, ctx.work, workers=4, timeout=300, outname='pty_unfixed.out', only='EofOnlyWhenDrained')
        if r2['violated'] != 'EofOnlyWhenDrained':
            raise tlc.TLCError('PtyRead with Fixed=FALSE should violate EofOnlyWhenDrained, got %s' % r2['violated'])
    if transport == 'fd':
        # model sensitivity: a wait that also returns on an exceptional condition, reported as TIMEOUT, must be caught
        cfg2 = tlc.write_cfg(os.path.join(ctx.work, 'fd_wake.cfg'), constants=consts[:-1] + [('WakeOnUrgent', '= TRUE')], invariants=T['invs'])
        r2 = tlc.run(T['module'], cfg2, ctx.work, workers=4, timeout=300, outname='fd_wake.out', only='NotEarly')
        if r2['violated'] != 'NotEarly':
            raise tlc.TLCError('FdRead with WakeOnUrgent=TRUE should violate NotEarly, got %s' % r2['violated'])
        if not any(l.startswith('PeerUrgent') for es in g.edges.values() for l, d in es):
            raise tlc.TLCError('FdRead: PeerUrgent never taken (vacuous run)')
    if transport == 'popen':
        # model sensitivity: "child reaped and queue momentarily empty = end of the stream" must be caught
        cfg2 = tlc.write_cfg(os.path.join(ctx.work, 'popen_reap.cfg'), constants=consts[:-1] + [('ReapShortcut', '= TRUE')], invariants=T['invs'])
        r2 = tlc.run(T['module'], cfg2, ctx.work, workers=4, timeout=300, outname='popen_reap.out', only='EofOnlyWhenDrained')
        if r2['violated'] != 'EofOnlyWhenDrained':
            raise tlc.TLCError('PopenRead with ReapShortcut=TRUE should violate EofOnlyWhenDrained, got %s' % r2['violated'])
        if not any(l.startswith('Reap') for es in g.edges.values() for l, d in es):
            raise tlc.TLCError('PopenRead: Reap never taken (vacuous run)')
    reader = T.get('reader') or set().union(*T['kinds'].values())
    rng = random.Random(ctx.seed * 31 + 5)
    scheds, nstates, npaths = schedules_from_graph(g, maxunits, reader, T['inter'], include_blocked, skip=T.get('skip', ()),
                                                   max_per_rep=None if quick else T.get('max_per_rep'), rng=rng)
    cap = T['cap'](quick) if 'cap' in T else (3000 if quick else 60000) // T['variants']
    if len(scheds) > cap:
        # stratified: the same number of single-call paths out of every inter-call state (as far as it has that many)
        groups = {}
        for sc in scheds:
            groups.setdefault(json.dumps(sc[2]), []).append(sc)
        for gl in groups.values():
            rng.shuffle(gl)
        picked, depth = [], 0
        while len(picked) < cap:
            row = [gl[depth] for gl in groups.values() if depth < len(gl)]
            if not row:
                break
            if len(picked) + len(row) > cap:
                row = rng.sample(row, cap - len(picked))
            picked += row
            depth += 1
        scheds = picked
    jobs = []
    nvar = {}
    for k, (root, s_, proj_) in enumerate(scheds):
        if T['variants'] == 1:
            vs = [k]
        else:
            vs = T['variants_for'](s_) if 'variants_for' in T else list(range(T['variants']))
            vs = [v + 1000 * (k % 2) for v in vs]
        for v in vs:
            jobs.append((transport, ctx.work, s_, v, g.nodes[root]))
    t0 = time.time()
    outs = pmap(pool, replay_one, jobs, chunksize=8, timeout=1500 if quick else 7200)
    ctx.note('%s: %d inter-call states, %d single-call paths -> %d distinct schedules, %d replays on the real transport in %.0fs' % (
        transport, nstates, npaths, len(scheds), len(jobs), time.time() - t0))
    m, call_label, ret_ok = make_matcher(g, transport)
    stats = {'replayed': len(jobs), 'accepted': 0, 'drift': 0, 'blocked': 0, 'nontrivial': 0, 'steps': 0}
    all_init = list(g.init)
    for job, out in zip(jobs, outs):
        sched, k = job[2], job[3]
        case = {'transport': transport, 'schedule': sched, 'k': k, 'init': job[4]}
        if out['error']:
            raise tlc.TLCError('%s replay crashed: %s\n%s' % (transport, sched, out['error']))
        if any(x[0] == 'P' for x in sched):
            stats['nontrivial'] += 1
        stats['steps'] += sum(1 for e in out['events'] if e['e'] == 'step')
        bad = judge_contract(out)
        g.init = [n for n in all_init if g.nodes[n] == job[4]]
        ok, at, S = m.match(out['events'], call_label, ret_ok)
        blocked = any(c['kind'] == 'BLOCK' for c in out['calls'])
        stats['blocked'] += blocked
        if ok:
            stats['accepted'] += 1
        for clause, i in bad:
            ctx.fail(clause, case, detail={'calls': out['calls'], 'written': out.get('written'), 'events': out['events']},
                     signature={'transport': transport, 'tmo': out['calls'][i]['tmo'], 'kind': out['calls'][i]['kind'],
                                'hangup_seen_by': hangup_seen_by(out['events']) if out['calls'][i]['kind'] == 'BLOCK' else None})
        if not ok and not bad:
            stats['drift'] += 1
            if stats['drift'] <= 3:
                ctx.note('SPEC-DRIFT (%s): event %d %s not explained by the model; schedule %s' % (
                    transport, at, out['events'][at] if at < len(out['events']) else None, sched))
    g.init = all_init
    ctx.note('%s: %d of %d recorded traces (%d system calls) are behaviours of %s; SPEC-DRIFT %d; %d end blocked' % (
        transport, stats['accepted'], stats['replayed'], stats['steps'], T['module'], stats['drift'], stats['blocked']))
    stats['completed'] = sum(1 for o in outs if o.get('completed'))
    nlab = lambda name: sum(1 for j in jobs if any(x[0] == 'P' and x[1].startswith(name) for x in j[2]))
    what = {
        'pty': 'real pty child, select / poll alternately',
        'fd': 'every schedule on pipe / FIFO / pty / socketpair / TCP descriptor x select / poll x bytes / unicode (units = bytes of multi-byte '
              'characters: reads end inside characters); %d replays with urgent data sent by the TCP peer (select and poll)' % nlab('PeerUrgent'),
        'socket': 'socketpair x bytes / unicode (recv() results that end inside a multi-byte character)',
        'popen': 'gated reader thread; %d replays in which the caller reaps the exited child (wait()) before / between reads' % nlab('Reap'),
    }[transport]
    ctx.note('%s worlds: %s; %d replays continued to the end of the stream after the schedule (peer closes / exits, reads until EOF): '
             'everything written is returned, then EOF' % (transport, what, stats['completed']))
    return res, g, stats, jobs, outs


def self_test(ctx, g, jobs, outs):
    """binding self-test: a trace with one corrupted observation must be rejected by the graph
    matcher, and a contract breach must be noticed by the judge"""
    m, call_label, ret_ok = make_matcher(g, 'pty')
    import copy
    for job, out in zip(jobs, outs):
        evs = out['events']
        k = [i for i, e in enumerate(evs) if e['e'] == 'step' and e['k'] == 'read' and e['n'] > 0]
        if k and m.match(evs, call_label, ret_ok)[0]:
            bad = copy.deepcopy(evs)
            bad[k[0]]['n'] += 1
            bad[k[0]]['lo'] += 1
            if m.match(bad, call_label, ret_ok)[0]:
                raise tlc.TLCError('self-test: corrupted read length accepted by the graph matcher')
            o2 = copy.deepcopy(out)
            for c in o2['calls']:
                if c['kind'] == 'data':
                    c['data'] = 'Z' + c['data'][1:]
                    break
            if not judge_contract(o2):
                raise tlc.TLCError('self-test: corrupted data not noticed by the contract judge')
            return 'corrupted read length rejected by the matcher; corrupted byte rejected by the contract judge'
    raise tlc.TLCError('self-test: no suitable trace')


def volume_sweep(ctx):
    """outputs from 0 to hundreds of KB through every transport with several maxread values: the child
    writes a known byte pattern and exits / closes at once (the classic 'output then exit' race); what
    expect(EOF) returns must be exactly the pattern.  Direct comparison (the models carry counts, not bytes)."""
    import subprocess, socket, threading
    from pexpect import fdpexpect, popen_spawn, socket_pexpect
    sizes = [0, 1, 4095, 4096, 70001] if ctx.quick() else [0, 1, 2, 1023, 1024, 4095, 4096, 4097, 65535, 65536, 70001, 300000, 524288]
    maxreads = [1, 7, 2000, 65536]
    pat = lambda n: bytes((33 + (i * 7 + i // 89) % 90) for i in range(n))
    prog = "import sys,os; n=int(sys.argv[1]); d=bytes((33 + (i*7 + i//89) %% 90) for i in range(n)); os.write(1, d) if n < 65536 else sys.stdout.buffer.write(d); sys.stdout.flush()"
    runs = 0
    for n in sizes:
        want = pat(n)
        for mr in maxreads:
            if mr == 1 and n > 5000:
                continue
            for tr in ('pty', 'popen', 'pipe', 'socket'):
                runs += 1
                got = None
                try:
                  with wall_budget(180):
                    if tr == 'pty':
                        c = pexpect.spawn(sys.executable, ['-c', prog % (), str(n)], maxread=mr, timeout=60, echo=False)
                        c.expect(pexpect.EOF)
                        got = c.before
                        c.close()
                    elif tr == 'popen':
                        c = popen_spawn.PopenSpawn([sys.executable, '-c', prog % (), str(n)], maxread=mr, timeout=60)
                        c.expect(pexpect.EOF)
                        got = c.before
                        c.wait()
                    elif tr == 'pipe':
                        p = subprocess.Popen([sys.executable, '-c', prog % (), str(n)], stdout=subprocess.PIPE)
                        c = fdpexpect.fdspawn(p.stdout.fileno(), maxread=mr, timeout=60)
                        c.expect(pexpect.EOF)
                        got = c.before
                        p.wait()
                        p.stdout.close()
                    else:
                        a, b = socket.socketpair()
                        t = threading.Thread(target=lambda: (b.sendall(want), b.close()))
                        t.start()
                        c = socket_pexpect.SocketSpawn(a, maxread=mr, timeout=60)
                        c.expect(pexpect.EOF)
                        got = c.before
                        t.join()
                        a.close()
                except (Exception, Hung) as e:
                    got = ('<%s: %s>' % (type(e).__name__, str(e)[:80])).encode()
                if got != want:
                    first = next((i for i in range(min(len(got), len(want))) if got[i] != want[i]), min(len(got), len(want)))
                    ctx.fail('C06:volume-output-not-delivered-exactly', {'transport': tr, 'size': n, 'maxread': mr},
                             detail={'got_len': len(got), 'want_len': len(want), 'first_difference_at': first, 'got_head': repr(got[:60])},
                             signature={'transport': tr})
    # the same in unicode mode: text of 1-, 2- and 3-byte characters, read sizes that end inside characters
    utext = lambda n: ''.join(('a', '\u00e9', '\u20ac', 'z', '\u00fc')[(i * 3 + i // 7) % 5] for i in range(n))
    uprog = ("import sys,os; n=int(sys.argv[1]); t=''.join(('a', chr(0xe9), chr(0x20ac), 'z', chr(0xfc))[(i*3 + i//7) % 5] for i in range(n)); "
             "sys.stdout.buffer.write(t.encode('utf-8')); sys.stdout.flush()")
    for n in ([0, 1, 1500] if ctx.quick() else [0, 1, 2, 1500, 4096, 70001]):
        want = utext(n)
        for mr in (1, 2, 7, 2000):
            if mr <= 2 and n > 5000:
                continue
            for tr in ('pty', 'popen', 'pipe', 'socket'):
                runs += 1
                try:
                  with wall_budget(180):
                    if tr == 'pty':
                        c = pexpect.spawn(sys.executable, ['-c', uprog, str(n)], maxread=mr, timeout=60, echo=False, encoding='utf-8')
                        c.expect(pexpect.EOF)
                        got = c.before
                        c.close()
                    elif tr == 'popen':
                        c = popen_spawn.PopenSpawn([sys.executable, '-c', uprog, str(n)], maxread=mr, timeout=60, encoding='utf-8')
                        c.expect(pexpect.EOF)
                        got = c.before
                        c.wait()
                    elif tr == 'pipe':
                        p = subprocess.Popen([sys.executable, '-c', uprog, str(n)], stdout=subprocess.PIPE)
                        c = fdpexpect.fdspawn(p.stdout.fileno(), maxread=mr, timeout=60, encoding='utf-8')
                        c.expect(pexpect.EOF)
                        got = c.before
                        p.wait()
                        p.stdout.close()
                    else:
                        a, b = socket.socketpair()
                        t = threading.Thread(target=lambda: (b.sendall(want.encode('utf-8')), b.close()))
                        t.start()
                        c = socket_pexpect.SocketSpawn(a, maxread=mr, timeout=60, encoding='utf-8')
                        c.expect(pexpect.EOF)
                        got = c.before
                        t.join()
                        a.close()
                except (Exception, Hung) as e:
                    got = '<%s: %s>' % (type(e).__name__, str(e)[:80])
                if got != want:
                    first = next((i for i in range(min(len(got), len(want))) if got[i] != want[i]), min(len(got), len(want)))
                    ctx.fail('C06:volume-output-not-delivered-exactly', {'transport': tr, 'size': n, 'maxread': mr, 'unicode': True},
                             detail={'got_len': len(got), 'want_len': len(want), 'first_difference_at': first, 'got_head': repr(got[:60])},
                             signature={'transport': tr})
    return runs, max(sizes)


def run(ctx):
    if ctx.replay:
        return replay(ctx)
    print('[%s] transports - tier %s seed %d' % (ctx.pid, ctx.tier, ctx.seed), flush=True)
    results = {}
    with Pool(14) as pool:
        for tr in ('pty', 'fd', 'socket', 'popen'):
            results[tr] = run_transport(ctx, pool, tr)
    res, g, stats, jobs, outs = results['pty']
    ctx.note('binding self-test: ' + self_test(ctx, g, jobs, outs))
    vruns, vmax = (0, 0)
    if ctx.pid == 'C06':
        vruns, vmax = volume_sweep(ctx)
        ctx.note('volume sweep: %d runs (sizes up to %d bytes x maxread in {1, 7, 2000, 65536} x pty / popen / pipe / socket; the same in unicode mode with '
                 '1- to 3-byte characters and maxread in {1, 2, 7, 2000}), expect(EOF).before == what was written' % (vruns, vmax))
    ctx.failures = [f for f in ctx.failures if f.clause.startswith(ctx.pid + ':')]
    status, nviol, nknown = common.conclude(ctx)
    tot = lambda k: sum(r[2][k] for r in results.values())
    evidence.write(ctx.pid, ctx.tier, ctx.seed, 'model_checking', {
        'states': sum(r[0]['distinct'] for r in results.values()),
        'transitions': sum(r[1].n_edges() for r in results.values()),
        'traces_validated_against_impl': tot('replayed'),
        'samples': [{'transport': tr, 'schedule': r[3][len(r[3]) // 2][2], 'events': r[4][len(r[3]) // 2]['events']}
                    for tr, r in results.items()],
        'evaluations': tot('replayed'), 'distinct_nontrivial': tot('nontrivial'),
        'rule': 'one replay per distinct schedule (peer actions placed before the k-th reader system call) derived from every '
                'single-call path out of every distinct inter-call state of the TLC state graph, per transport (fd: x pipe/FIFO/pty/'
                'socketpair/TCP descriptor x select/poll x bytes/unicode; socket: x bytes/unicode; popen: inter-call states include '
                '"child reaped by the caller" and "last read returned nothing"), each continued to the end of the stream; over the cap: the '
                'same number of paths out of every inter-call state; non-trivial = contains at least one peer action',
        'exhaustive': not ctx.quick(), 'spec_drift': tot('drift'), 'accepted_by_model': tot('accepted'),
        'per_transport': {tr: dict(r[2], states=r[0]['distinct']) for tr, r in results.items()},
        'known_findings_hit': nknown, 'volume_sweep_runs': vruns, 'volume_sweep_max_bytes': vmax,
    }, assumptions=['Linux pty / pipe / socket semantics (readable on hang-up, EIO or empty read at the end, short reads) are observed on the real kernel',
                    'peer actions are placed between system calls; races inside a single system call are the kernel\'s',
                    'PopenSpawn: the reader thread is gated (its os.read and queue.put wait for the schedule), the child is /bin/cat; it exits '
                    'without being reaped (waitid WNOWAIT), the caller reaps it with PopenSpawn.wait() where the model says so',
                    'unicode mode: the model counts the bytes taken from the descriptor; the text returned is compared with the incremental '
                    'decoding of those bytes'],
        wall_s=ctx.wall(), violations=nviol)
    return status


def replay(ctx):
    d = json.load(open(ctx.replay))
    c = d['case']
    out = replay_one((c['transport'], ctx.work, c['schedule'], c.get('k', 0), c.get('init')))
    print(json.dumps(out, indent=1)[:3000])
    bad = [b for b in judge_contract(out) if b[0].startswith(ctx.pid)]
    if bad:
        print('VIOLATION property=%s replay=%s' % (ctx.pid, ctx.replay))
        return 1
    return 0

"""C06 (transport fidelity) and the read_nonblocking half of C05, on the real transports.

TLC explores every interleaving of peer actions (write, hang up, exit) with the reader's
system calls on the implementation-shaped models (PtyRead, ...) and checks the transport
contract.  Every single-call behaviour from every distinct inter-call state of the TLC state
graph becomes a schedule "peer actions before the k-th system call of the reader" that
harness/world.py replays on the real transport (real pty / child process, real EIO and waitpid
semantics).  The recorded trace (system calls with their results, returns) is then validated
against the TLC state graph (harness/graphtrace.py) and, independently, the contract clauses are
evaluated on what really happened.
"""
import json, os, random, sys, time, traceback
from multiprocessing import Pool
import pexpect
from .. import tlc, evidence, common, stategraph, graphtrace
from ..world import PtyWorld, WouldBlock

sys.setrecursionlimit(100000)

from ..world import FdWorld, SockWorld, GatedPopenWorld

TRANSPORTS = {
    'pty': dict(
        module='MCPtyRead',
        consts=lambda q: [('MaxUnits', '= %d' % (3 if q else 4)), ('MaxWrite', '= 2'), ('Sizes', '= {1, 2}' if q else '= {1, 2, 3}'),
                          ('Tmos', '<- TmosFinite'), ('MaxCalls', '= 3'), ('Fixed', '= TRUE')],
        invs=['DeliveredPrefix', 'EofOnlyWhenDrained', 'AtMostSize', 'DataNonEmpty', 'Bounded', 'NotEarly'],
        kinds={'select0': {'Poll0', 'LoopPoll', 'RePoll'}, 'read': {'Read1', 'LoopRead', 'ReadFinal'},
               'isalive': {'Alive1', 'Alive2', 'EofAliveRaise', 'EofAliveRet'}, 'selectT': {'Wait'}},
        inter=lambda st, mu: (st['written'] - st['lo'], st['slaveOpen'], st['proc'], st['flagEof'], st['terminated'], mu - st['written']),
        world=lambda wd, k: PtyWorld(wd, use_poll=bool(k % 2)),
        variants=1,
    ),
    'fd': dict(
        module='MCFdRead',
        consts=lambda q: [('MaxUnits', '= %d' % (3 if q else 4)), ('MaxWrite', '= 2'), ('Sizes', '= {1, 2}' if q else '= {1, 2, 3}'),
                          ('Tmos', '<- TmosFinite'), ('MaxCalls', '= 3')],
        invs=['DeliveredPrefix', 'EofOnlyWhenDrained', 'AtMostSize', 'DataNonEmpty', 'Bounded', 'NotEarly'],
        kinds={'select0': {'Select'}, 'selectT': {'Select'}, 'read': {'Read'}},
        inter=lambda st, mu: (st['written'] - st['lo'], st['peerOpen'], st['flagEof'], mu - st['written']),
        world=lambda wd, k: FdWorld(wd, kind=('pipe', 'pty', 'sockfd')[k % 3], use_poll=bool((k // 3) % 2)),
        variants=6,      # every schedule on pipe / pty / socket descriptor x select / poll
    ),
    'socket': dict(
        module='MCSockRead',
        consts=lambda q: [('MaxUnits', '= %d' % (3 if q else 4)), ('MaxWrite', '= 2'), ('Sizes', '= {1, 2}' if q else '= {1, 2, 3}'),
                          ('Tmos', '<- TmosFinite'), ('MaxCalls', '= 3'), ('UserTimeouts', '<- UserTimeoutsMC')],
        invs=['DeliveredPrefix', 'EofOnlyWhenDrained', 'AtMostSize', 'DataNonEmpty', 'Bounded', 'NotEarly', 'SocketTimeoutRestored'],
        kinds={'settimeout': {'SetTimeout', 'Restore'}, 'recv': {'Recv'}},
        inter=lambda st, mu: (st['written'] - st['lo'], st['peerOpen'], st['flagEof'], mu - st['written'], st['userTimeout']),
        world=None,     # needs the user's timeout of the initial state: see make_world
        variants=1,
    ),
    'popen': dict(
        module='PopenRead',
        consts=lambda q: [('MaxUnits', '= %d' % (3 if q else 4)), ('MaxWrite', '= 2'), ('Sizes', '= {1, 2}' if q else '= {1, 2, 3}'),
                          ('MaxCalls', '= 3'), ('ThreadChunk', '= 3' if q else '= 4')],
        invs=['Accounted', 'EofOnlyWhenDrained', 'AtMostSize'],
        kinds={'tread': {'ThreadRead'}, 'tput': {'ThreadPut'}, 'qget': {'Drain'}},
        inter=lambda st, mu: (st['written'] - st['plo'], st['tpc'], st['tbuf'], tuple(st['queue']), st['carry'], st['reachedEof'],
                              st['peerOpen'], mu - st['written']),
        world=lambda wd, k: GatedPopenWorld(wd),
        variants=1,
        reader={'Drain'},
        silent={'Drain', 'Ret'},
        skip={'Ret'},
    ),
}


def make_world(transport, workdir, k, init_state):
    if transport == 'socket':
        ut = init_state['userTimeout']
        return SockWorld(workdir, user_timeout=None if ut == -1 else float(ut))
    return TRANSPORTS[transport]['world'](workdir, k)


def model_graph(ctx, module, cfgname, consts, invariants, tag):
    cfg = tlc.write_cfg(os.path.join(ctx.work, cfgname), constants=consts, invariants=invariants)
    dot = os.path.join(ctx.work, tag + '.dot')
    res = tlc.run(module, cfg, ctx.work, workers=1, timeout=1800, extra=['-dump', 'dot,actionlabels', dot],
                  outname=tag + '.out')
    if not res['ok']:
        raise tlc.TLCError('%s: TLC %s (%s)' % (module, 'violated ' + str(res['violated']) if res['violated'] else 'failed', res['out']))
    return res, stategraph.Graph(dot)


def projection(st, maxunits):
    """what of an inter-call state can influence the next call"""
    return (st['written'] - st['lo'], st['slaveOpen'], st['proc'], st['flagEof'], st['terminated'],
            maxunits - st['written'])


def schedules_from_graph(g, maxunits, reader_names, inter, include_blocked=False, skip=()):
    """For every distinct inter-call state (by projection): a shortest prefix from the initial
    state, then every path through one more call until it returns (or blocks); reader actions are
    abstracted to a marker ('R',), peer actions keep their label.  Returns the distinct schedules."""
    parent = {i0: None for i0 in g.init}
    order = list(g.init)
    for n in order:
        for lab, d in g.edges[n]:
            if d not in parent:
                parent[d] = (n, lab)
                order.append(d)
    reps = {}
    for n in order:
        st = g.nodes[n]
        if st['pc'] == 'idle':
            reps.setdefault(inter(st, maxunits), n)

    def item(lab):
        name = lab.split('(')[0]
        if name == 'CallStart':
            return ('C', stategraph.parse_action(lab)[1])
        if name in reader_names:
            return ('R',)
        if name in skip:
            return None          # a step of the model without a system call
        return ('P', lab)
    seen = set()
    out = []
    npaths = 0
    for proj, n in reps.items():
        prefix = []
        m = n
        while parent[m] is not None:
            m, lab = parent[m]
            prefix.append(lab)
        prefix.reverse()
        pre = [x for x in (item(l) for l in prefix) if x is not None]
        root = m            # the initial state this prefix starts from
        stack = []

        def dfs(node, acc):
            nonlocal npaths
            if g.nodes[node]['pc'] == 'idle':
                npaths += 1
                key = json.dumps([root, pre + acc])
                if key not in seen:
                    seen.add(key)
                    out.append((root, pre + list(acc)))
                return
            outs = [(l, d) for l, d in g.edges[node] if d != node]
            st_ = g.nodes[node]
            if (include_blocked and st_.get('proc') == 'run' and st_.get('flagEof') and not st_.get('terminated')
                    and st_['pc'] in ('alive1', 'alive2', 'eof_alive_raise', 'eof_alive_ret')):
                # the reader sits in the blocking liveness check while the child keeps running: replay up to here
                key = json.dumps([root, pre + acc + [['R']]])
                if key not in seen:
                    seen.add(key)
                    out.append((root, pre + list(acc) + [('R',)]))
            if not outs:
                # the reader is blocked for ever here (only the C05 check replays those)
                if include_blocked:
                    key = json.dumps([root, pre + acc])
                    if key not in seen:
                        seen.add(key)
                        out.append((root, pre + list(acc)))
                return
            for l, d in outs:
                it = item(l)
                if it is not None:
                    acc.append(it)
                dfs(d, acc)
                if it is not None:
                    acc.pop()
        for lab, d in g.edges[n]:
            if lab.startswith('CallStart'):
                dfs(d, [item(lab)])
    return out, len(reps), npaths


def replay_one(args):
    transport, workdir, schedule, k, init_state = args
    w = None
    out = {'calls': [], 'error': None, 'events': []}
    try:
        w = make_world(transport, workdir, k, init_state)
        w.schedule = [tuple(x) for x in schedule]
        while True:
            w.skip_to_call()
            if w.pos >= len(w.schedule):
                break
            cargs = w.schedule[w.pos][1]
            size, tmo = (cargs[0], cargs[1]) if len(cargs) > 1 else (cargs[0], 0)
            w.pos += 1
            t = None if tmo == -1 else float(tmo)
            t0 = w.clock.now
            written0 = len(w.written)
            w.log(e='call', size=size, tmo=tmo)
            w.active = True
            try:
                data = w.child.read_nonblocking(size, t)
                res = ('data', data)
            except pexpect.EOF:
                res = ('EOF', b'')
            except pexpect.TIMEOUT:
                res = ('TIMEOUT', b'')
            except WouldBlock as e:
                res = ('BLOCK', b'')
            except Exception as e:
                res = ('ERR:' + type(e).__name__, b'')
            finally:
                w.active = False
            data = res[1] if isinstance(res[1], bytes) else res[1].encode('latin-1')
            c = {'size': size, 'tmo': tmo, 'kind': res[0], 'data': data.decode('latin-1'),
                 'elapsed': w.clock.now - t0, 'written_before': written0,
                 'written_at_return': len(w.written), 'peer_open': w.peer_open, 'peer_exited': w.peer_exited}
            if transport == 'socket':
                c['sock_timeout_after'] = w.a.gettimeout()
                c['sock_timeout_user'] = w.user_timeout
            out['calls'].append(c)
            if res[0] == 'BLOCK':
                break
            w.log(e='ret', kind=res[0], n=len(data), elapsed=int(w.clock.now - t0))
        out['written'] = w.written.decode('latin-1')
        out['transport'] = transport
        out['events'] = w.events
        out['extra_steps'] = w.extra_steps
    except Exception:
        out['error'] = traceback.format_exc()
    finally:
        if w is not None:
            w.close()
    return out


def judge_contract(out):
    """C06 / C05 clauses on what really happened (independent of the implementation-shaped model)"""
    bad = []
    delivered = ''
    written = out.get('written', '')
    for i, c in enumerate(out['calls']):
        if c['kind'] == 'data':
            delivered += c['data']
            if len(c['data']) > c['size']:
                bad.append(('C06:more-than-size', i))
            if not written.startswith(delivered):
                bad.append(('C06:not-a-prefix-of-what-was-written', i))
            if c['data'] == '' and out.get('transport') != 'popen':
                bad.append(('C06:empty-data-read', i))
        elif c['kind'] == 'EOF':
            if len(delivered) < c['written_at_return'] or c['peer_open']:
                bad.append(('C06:eof-before-all-output-delivered', i))
        elif c['kind'] == 'TIMEOUT':
            if c['tmo'] == -1:
                bad.append(('C05:timeout-with-timeout-None', i))
            elif c['elapsed'] < c['tmo']:
                bad.append(('C05:timeout-before-deadline', i))
            if len(delivered) < c['written_before']:
                bad.append(('C05:timeout-although-data-was-readable', i))
        elif c['kind'] == 'BLOCK':
            if c['tmo'] != -1:
                bad.append(('C05:blocks-after-hangup-without-exit', i))
        elif c['kind'].startswith('ERR:'):
            bad.append(('C05:poll-raises-other-exception' if c['tmo'] == 0 else 'C04:other-exception-instead-of-eof-or-timeout', i))
        if c['kind'] != 'BLOCK' and c['tmo'] != -1 and c['elapsed'] > c['tmo']:
            bad.append(('C05:returned-after-deadline', i))
        if 'sock_timeout_after' in c and c['sock_timeout_after'] != c['sock_timeout_user']:
            bad.append(('C06:socket-timeout-not-restored', i))
    return bad


def make_matcher(g, transport):
    T = TRANSPORTS[transport]
    keys = ('lo', 'flagEof', 'terminated', 'sockTimeout', 'plo', 'qlen')

    def proj(st):
        d = {k: st[k] for k in keys if k in st}
        if 'queue' in st:
            d['qlen'] = len(st['queue'])
        return d
    m = graphtrace.Matcher(g, T['kinds'], proj)
    m.obs_keys = keys
    m.chain_kinds = ('selectT', 'recv')
    m.silent = T.get('silent', ())
    if transport == 'popen':
        call_label = lambda ev: 'CallStart(%d)' % ev['size']
        ret_ok = lambda st, ev: st['pc'] == 'idle' and st['ret']['kind'] == ev['kind'] and st['ret']['n'] == ev['n']
    else:
        call_label = lambda ev: 'CallStart(%d,%d)' % (ev['size'], ev['tmo'])
        ret_ok = lambda st, ev: (st['pc'] == 'idle' and st['ret']['kind'] == ev['kind'] and st['ret']['n'] == ev['n']
                                 and st['now'] - st['started'] == ev['elapsed'])
    return m, call_label, ret_ok


def run_transport(ctx, pool, transport, include_blocked=False):
    quick = ctx.quick()
    T = TRANSPORTS[transport]
    consts = T['consts'](quick)
    maxunits = int(dict(consts)['MaxUnits'].split()[-1])
    res, g = model_graph(ctx, T['module'], transport + '.cfg', consts, T['invs'], transport)
    ctx.note('TLC %s: %d distinct states, %d transitions, depth %d; C06/C05 invariants hold in every interleaving' % (
        T['module'], res['distinct'], g.n_edges(), res['depth']))
    if transport == 'pty':
        # model sensitivity: the code as it was (no re-poll after the slow-platform check) must be caught
        cfg2 = tlc.write_cfg(os.path.join(ctx.work, 'pty_unfixed.cfg'), constants=consts[:-1] + [('Fixed', '= FALSE')], invariants=T['invs'])
        r2 = tlc.run(T['module'], cfg2, ctx.work, workers=4, timeout=300, outname='pty_unfixed.out', only='EofOnlyWhenDrained')
        if r2['violated'] != 'EofOnlyWhenDrained':
            raise tlc.TLCError('PtyRead with Fixed=FALSE should violate EofOnlyWhenDrained, got %s' % r2['violated'])
    reader = T.get('reader') or set().union(*T['kinds'].values())
    scheds, nstates, npaths = schedules_from_graph(g, maxunits, reader, T['inter'], include_blocked, skip=T.get('skip', ()))
    rng = random.Random(ctx.seed * 31 + 5)
    cap = (3000 if quick else 60000) // T['variants']
    if len(scheds) > cap:
        scheds = rng.sample(scheds, cap)
    jobs = []
    for k, (root, s_) in enumerate(scheds):
        for v in range(T['variants']):
            jobs.append((transport, ctx.work, s_, k * T['variants'] + v if T['variants'] == 1 else v, g.nodes[root]))
    t0 = time.time()
    outs = pool.map(replay_one, jobs, chunksize=8)
    ctx.note('%s: %d inter-call states, %d single-call paths -> %d distinct schedules, %d replays on the real transport in %.0fs' % (
        transport, nstates, npaths, len(scheds), len(jobs), time.time() - t0))
    m, call_label, ret_ok = make_matcher(g, transport)
    stats = {'replayed': len(jobs), 'accepted': 0, 'drift': 0, 'blocked': 0, 'nontrivial': 0, 'steps': 0}
    all_init = list(g.init)
    for job, out in zip(jobs, outs):
        sched, k = job[2], job[3]
        case = {'transport': transport, 'schedule': sched, 'k': k, 'init': job[4]}
        if out['error']:
            raise tlc.TLCError('%s replay crashed: %s\n%s' % (transport, sched, out['error']))
        if any(x[0] == 'P' for x in sched):
            stats['nontrivial'] += 1
        stats['steps'] += sum(1 for e in out['events'] if e['e'] == 'step')
        bad = judge_contract(out)
        g.init = [n for n in all_init if g.nodes[n] == job[4]]
        ok, at, S = m.match(out['events'], call_label, ret_ok)
        blocked = any(c['kind'] == 'BLOCK' for c in out['calls'])
        stats['blocked'] += blocked
        if ok:
            stats['accepted'] += 1
        for clause, i in bad:
            ctx.fail(clause, case, detail={'calls': out['calls'], 'written': out.get('written'), 'events': out['events']},
                     signature={'transport': transport, 'tmo': out['calls'][i]['tmo'], 'kind': out['calls'][i]['kind']})
        if not ok and not bad:
            stats['drift'] += 1
            if stats['drift'] <= 3:
                ctx.note('SPEC-DRIFT (%s): event %d %s not explained by the model; schedule %s' % (
                    transport, at, out['events'][at] if at < len(out['events']) else None, sched))
    g.init = all_init
    ctx.note('%s: %d of %d recorded traces (%d system calls) are behaviours of %s; SPEC-DRIFT %d; %d end blocked' % (
        transport, stats['accepted'], stats['replayed'], stats['steps'], T['module'], stats['drift'], stats['blocked']))
    return res, g, stats, jobs, outs


def self_test(ctx, g, jobs, outs):
    """binding self-test: a trace with one corrupted observation must be rejected by the graph
    matcher, and a contract breach must be noticed by the judge"""
    m, call_label, ret_ok = make_matcher(g, 'pty')
    import copy
    for job, out in zip(jobs, outs):
        evs = out['events']
        k = [i for i, e in enumerate(evs) if e['e'] == 'step' and e['k'] == 'read' and e['n'] > 0]
        if k and m.match(evs, call_label, ret_ok)[0]:
            bad = copy.deepcopy(evs)
            bad[k[0]]['n'] += 1
            bad[k[0]]['lo'] += 1
            if m.match(bad, call_label, ret_ok)[0]:
                raise tlc.TLCError('self-test: corrupted read length accepted by the graph matcher')
            o2 = copy.deepcopy(out)
            for c in o2['calls']:
                if c['kind'] == 'data':
                    c['data'] = 'Z' + c['data'][1:]
                    break
            if not judge_contract(o2):
                raise tlc.TLCError('self-test: corrupted data not noticed by the contract judge')
            return 'corrupted read length rejected by the matcher; corrupted byte rejected by the contract judge'
    raise tlc.TLCError('self-test: no suitable trace')


def volume_sweep(ctx):
    """outputs from 0 to hundreds of KB through every transport with several maxread values: the child
    writes a known byte pattern and exits / closes at once (the classic 'output then exit' race); what
    expect(EOF) returns must be exactly the pattern.  Direct comparison (the models carry counts, not bytes)."""
    import subprocess, socket, threading
    from pexpect import fdpexpect, popen_spawn, socket_pexpect
    sizes = [0, 1, 4095, 4096, 70001] if ctx.quick() else [0, 1, 2, 1023, 1024, 4095, 4096, 4097, 65535, 65536, 70001, 300000, 524288]
    maxreads = [1, 7, 2000, 65536]
    pat = lambda n: bytes((33 + (i * 7 + i // 89) % 90) for i in range(n))
    prog = "import sys,os; n=int(sys.argv[1]); d=bytes((33 + (i*7 + i//89) %% 90) for i in range(n)); os.write(1, d) if n < 65536 else sys.stdout.buffer.write(d); sys.stdout.flush()"
    runs = 0
    for n in sizes:
        want = pat(n)
        for mr in maxreads:
            if mr == 1 and n > 5000:
                continue
            for tr in ('pty', 'popen', 'pipe', 'socket'):
                runs += 1
                got = None
                try:
                    if tr == 'pty':
                        c = pexpect.spawn(sys.executable, ['-c', prog % (), str(n)], maxread=mr, timeout=60, echo=False)
                        c.expect(pexpect.EOF)
                        got = c.before
                        c.close()
                    elif tr == 'popen':
                        c = popen_spawn.PopenSpawn([sys.executable, '-c', prog % (), str(n)], maxread=mr, timeout=60)
                        c.expect(pexpect.EOF)
                        got = c.before
                        c.wait()
                    elif tr == 'pipe':
                        p = subprocess.Popen([sys.executable, '-c', prog % (), str(n)], stdout=subprocess.PIPE)
                        c = fdpexpect.fdspawn(p.stdout.fileno(), maxread=mr, timeout=60)
                        c.expect(pexpect.EOF)
                        got = c.before
                        p.wait()
                        p.stdout.close()
                    else:
                        a, b = socket.socketpair()
                        t = threading.Thread(target=lambda: (b.sendall(want), b.close()))
                        t.start()
                        c = socket_pexpect.SocketSpawn(a, maxread=mr, timeout=60)
                        c.expect(pexpect.EOF)
                        got = c.before
                        t.join()
                        a.close()
                except Exception as e:
                    got = ('<%s: %s>' % (type(e).__name__, str(e)[:80])).encode()
                if got != want:
                    first = next((i for i in range(min(len(got), len(want))) if got[i] != want[i]), min(len(got), len(want)))
                    ctx.fail('C06:volume-output-not-delivered-exactly', {'transport': tr, 'size': n, 'maxread': mr},
                             detail={'got_len': len(got), 'want_len': len(want), 'first_difference_at': first, 'got_head': repr(got[:60])},
                             signature={'transport': tr})
    return runs, max(sizes)


def run(ctx):
    if ctx.replay:
        return replay(ctx)
    print('[%s] transports - tier %s seed %d' % (ctx.pid, ctx.tier, ctx.seed), flush=True)
    results = {}
    with Pool(14) as pool:
        for tr in ('pty', 'fd', 'socket', 'popen'):
            results[tr] = run_transport(ctx, pool, tr)
    res, g, stats, jobs, outs = results['pty']
    ctx.note('binding self-test: ' + self_test(ctx, g, jobs, outs))
    vruns, vmax = (0, 0)
    if ctx.pid == 'C06':
        vruns, vmax = volume_sweep(ctx)
        ctx.note('volume sweep: %d runs (sizes up to %d bytes x maxread in {1, 7, 2000, 65536} x pty / popen / pipe / socket), expect(EOF).before == what was written' % (vruns, vmax))
    ctx.failures = [f for f in ctx.failures if f.clause.startswith(ctx.pid + ':')]
    status, nviol, nknown = common.conclude(ctx)
    tot = lambda k: sum(r[2][k] for r in results.values())
    evidence.write(ctx.pid, ctx.tier, ctx.seed, 'model_checking', {
        'states': sum(r[0]['distinct'] for r in results.values()),
        'transitions': sum(r[1].n_edges() for r in results.values()),
        'traces_validated_against_impl': tot('replayed'),
        'samples': [{'transport': tr, 'schedule': r[3][len(r[3]) // 2][2], 'events': r[4][len(r[3]) // 2]['events']}
                    for tr, r in results.items()],
        'evaluations': tot('replayed'), 'distinct_nontrivial': tot('nontrivial'),
        'rule': 'one replay per distinct schedule (peer actions placed before the k-th reader system call) derived from every '
                'single-call path out of every distinct inter-call state of the TLC state graph, per transport (fd: x pipe/pty/'
                'socket descriptor x select/poll); non-trivial = contains at least one peer action',
        'exhaustive': not ctx.quick(), 'spec_drift': tot('drift'), 'accepted_by_model': tot('accepted'),
        'per_transport': {tr: dict(r[2], states=r[0]['distinct']) for tr, r in results.items()},
        'known_findings_hit': nknown, 'volume_sweep_runs': vruns, 'volume_sweep_max_bytes': vmax,
    }, assumptions=['Linux pty / pipe / socket semantics (readable on hang-up, EIO or empty read at the end, short reads) are observed on the real kernel',
                    'peer actions are placed between system calls; races inside a single system call are the kernel\'s',
                    'PopenSpawn: the reader thread is gated (its os.read and queue.put wait for the schedule), the child is /bin/cat'],
        wall_s=ctx.wall(), violations=nviol)
    return status


def replay(ctx):
    d = json.load(open(ctx.replay))
    c = d['case']
    out = replay_one((c['transport'], ctx.work, c['schedule'], c.get('k', 0), c.get('init')))
    print(json.dumps(out, indent=1)[:3000])
    bad = [b for b in judge_contract(out) if b[0].startswith(ctx.pid)]
    if bad:
        print('VIOLATION property=%s replay=%s' % (ctx.pid, ctx.replay))
        return 1
    return 0

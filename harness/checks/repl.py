"""C16: REPLWrapper.

 1. TLC checks spec/Repl.tla (run_command as written over the contract ExpectAbs against a REPL
    environment whose prompts share a prefix, output containing that prefix, every chunking).
 2. The real REPLWrapper drives a scripted REPL (the environment of Repl.tla implemented as a
    transport) through generated command sequences, blocking and awaited; every expect call and
    every run_command return is validated by TLC (ExpectTrace: contract + C16 clauses).
 3. The same on the real bash and python REPLs with commands whose output is known by
    construction (sizes up to hundreds of KB; the large ones are compared directly).
"""
import asyncio, copy, json, os, random, signal, sys, time
from collections import Counter
import pexpect
from pexpect import replwrap, expect as expect_mod
from pexpect.exceptions import EOF, TIMEOUT
from .. import tlc, tracecheck, evidence, common
from .. import pat as P
from ..scripted import Scripted
from ..recorder import Recorder, install
from ..vclock import VClock
from .. import async_driver as A

TRACE_CONSTS = [('Alphabet', '= {"a","b","n","r"}'), ('MaxChunk', '= 3')]
PS1, PS2 = '[PEXPECT_PROMPT>', '[PEXPECT_PROMPT+'
# prompt pairs the caller may choose (REPLWrapper takes any two strings): equal and unequal lengths, the shorter one
# sorting above or below the longer one, a pair without a common prefix
PROMPT_PAIRS = [(PS1, PS2), ('[P]> ', '[P]+++> '), ('[P]+++> ', '[P]> '), ('> ', '+++ '), ('[PEX]', '[PEX+')]
NOISE = '\nKeyboardInterrupt\n'


class ReplEnv(object):
    """the environment of spec/Repl.tla: lines in, text out"""

    def __init__(self, ps1=PS1, ps2=PS2):
        self.state = 'top'
        self.inbuf = ''
        self.nblock = 0          # lines received inside the current block (blank ones included)
        self.ps1, self.ps2 = ps1, ps2

    def feed(self, text):
        out = ''
        self.inbuf += text
        while '\n' in self.inbuf:
            line, self.inbuf = self.inbuf.split('\n', 1)
            out += self.line(line)
        return out

    def line(self, ln):
        if self.state == 'top':
            if ln.startswith('c:'):
                return ln[2:].replace('~', '\n') + self.ps1
            if ln == 'open':
                self.state = 'cont'
                self.nblock = 0
                return self.ps2
            return self.ps1
        if ln.startswith('close:'):
            self.state = 'top'
            return ln[6:].replace('~', '\n') + 'b' * self.nblock + self.ps1
        self.nblock += 1
        return self.ps2

    def interrupt(self):
        if self.state == 'cont':
            self.state = 'top'
            return NOISE + self.ps1
        return NOISE + self.ps1


class ReplChild(Scripted):
    """scripted-transport REPL: what it prints is cut into chunks of the chosen sizes"""

    def __init__(self, chunker, prompts=(PS1, PS2), **kw):
        Scripted.__init__(self, [], encoding='utf-8', **kw)
        self.env = ReplEnv(*prompts)
        self.chunker = chunker
        self.cur = prompts[0].encode()
        self.echo = False
        self.rec = None

    def read_nonblocking(self, size=1, timeout=-1):
        if not self.cur:
            self.reads.append(('timeout',))
            raise TIMEOUT('Timeout exceeded.')
        n = min(size, self.chunker(len(self.cur)))
        data, self.cur = self.cur[:n], self.cur[n:]
        s = self._decoder.decode(data, final=False)
        self._log(s, 'read')
        self.reads.append(('data', s))
        return s

    def send(self, s):
        self.cur += self.env.feed(s).encode()
        return len(s)

    def kill(self, sig):
        if self.rec is not None:
            self.rec.emit(e='kill', sig=int(sig))
        if sig == signal.SIGINT:
            self.cur += self.env.interrupt().encode()


# command kinds: (lines to send, expected output, incomplete?)
def make_command(rng, big=False):
    k = rng.random()
    payload = lambda: ''.join(rng.choice('ab[P~ \u00e9\u20ac') for _ in range(rng.randint(0, 6 if not big else 40)))
    if k < 0.35:
        o = payload()
        return ('c:' + o, o.replace('~', '\n'), False)
    if k < 0.45:
        return ('c:', '', False)
    if k < 0.65:
        o = payload()
        # a block with one ordinary, one blank and one whitespace-only line inside: the REPL reports how many it got
        inner = rng.choice([['more'], ['more', ''], ['', 'more', '  '], ['']])
        return ('open\n' + '\n'.join(inner) + '\nclose:' + o, o.replace('~', '\n') + 'b' * len(inner), False)
    if k < 0.75:
        o1, o2 = payload(), payload()
        return ('c:' + o1 + '\nc:' + o2, (o1 + o2).replace('~', '\n'), False)        # two complete lines in one command
    if k < 0.84:
        return ('open', None, True)
    if k < 0.92:
        return ('open\nmore', None, True)
    # earlier lines are complete and print, the last one is incomplete: ValueError, and nothing of it may leak into later commands
    return ('c:' + payload() + 'a\nopen', None, True)


MAPPING = P.Mapping({c: c for c in 'ab[]PEXCTROM_>+ KydIu'}, unicode_mode=True)


def ab(s):
    return MAPPING.abstract(s)


def run_scripted(rng, tid, ncmds, big=False, use_async=False):
    install()
    clock = VClock().install(expect_mod)
    sizes = rng.choice([[1], [2, 3], [7], [1000], [1, 2, 3, 5, 8, 1000]])
    prompts = PROMPT_PAIRS[0] if rng.random() < 0.4 else rng.choice(PROMPT_PAIRS)
    events = []
    try:
        if use_async:
            return run_scripted_async(rng, tid, ncmds, sizes, prompts)
        child = ReplChild(lambda n: min(n, rng.choice(sizes)), prompts=prompts, timeout=5)
        rec = Recorder(child, MAPPING)
        child.rec = rec
        rec.annot = {'pats': [P.lit(ab(prompts[0])), P.lit(ab(prompts[1]))], 'W': 0}
        meta = {'cmds': [], 'sizes': sizes, 'async': False, 'seed': None, 'prompts': list(prompts)}
        try:
            w = replwrap.REPLWrapper(child, prompts[0], None, continuation_prompt=prompts[1])
        except Exception as e:
            meta['start_error'] = '%s: %s' % (type(e).__name__, str(e)[:200])
            return {'id': tid, 'ev': rec.events, 'meta': meta}
        cmds = meta['cmds']
        for _ in range(ncmds):
            cmd, want, incomplete = make_command(rng, big)
            cmds.append(cmd)
            rec.emit(e='cmd', text=cmd, out=ab(want) if want is not None else [])
            raised, val = '', ''
            try:
                val = w.run_command(cmd, timeout=5)
            except ValueError:
                raised = 'ValueError'
            except Exception as e:
                raised = type(e).__name__
            rec.emit(e='cmdret', val=ab(val), raised=raised, incomplete=incomplete)
        return {'id': tid, 'ev': rec.events, 'meta': meta}
    finally:
        clock.uninstall()


class AsyncReplChild(A.TimelineSpawn):
    def __init__(self, world, prompts=(PS1, PS2)):
        A.TimelineSpawn.__init__(self, world, timeout=5, encoding='utf-8')
        self.env = ReplEnv(*prompts)
        self.echo = False

    def send(self, s):
        out = self.env.feed(s).encode()
        self.world.emit_chunks(out)
        return len(s)

    def kill(self, sig):
        self.world.rec.emit(e='kill', sig=int(sig))
        if sig == signal.SIGINT:
            self.world.emit_chunks(self.env.interrupt().encode())


def run_scripted_async(rng, tid, ncmds, sizes, prompts=(PS1, PS2)):
    w = A.AsyncWorld(MAPPING, [])
    # replace the world's spawn by a REPL child on the same timeline
    sp = AsyncReplChild(w, prompts)
    w.sp = sp
    w.rec = Recorder(sp, MAPPING)
    orig_log = sp._log

    def _log(s, direction):
        if direction == 'read':
            pw = sp.async_pw_transport[0] if sp.async_pw_transport else None
            w.read_log.append((s, bool(w.in_async and pw is not None and pw.fut.done())))
        return orig_log(s, direction)
    sp._log = _log

    def emit_chunks(data):
        t = w.loop._vnow
        pos = 0
        while pos < len(data):
            n = rng.choice(sizes)
            w.arrivals.append((t, data[pos:pos + n]))
            pos += n
            t += rng.choice([0, 0, 0.01])
        w.arrivals.sort(key=lambda x: x[0])
    w.emit_chunks = emit_chunks
    emit_chunks(prompts[0].encode())
    rec = w.rec
    rec.annot = {'pats': [P.lit(ab(prompts[0])), P.lit(ab(prompts[1]))], 'W': 0}
    import pexpect._async as _async_mod
    _async_mod.expect_async = w._recorded_expect_async
    meta = {'cmds': [], 'sizes': sizes, 'async': True, 'prompts': list(prompts)}
    cmds = meta['cmds']

    async def main():
        try:
            wrapper = replwrap.REPLWrapper(sp, prompts[0], None, continuation_prompt=prompts[1])
        except Exception as e:
            meta['start_error'] = '%s: %s' % (type(e).__name__, str(e)[:200])
            return
        for _ in range(ncmds):
            cmd, want, incomplete = make_command(rng)
            cmds.append(cmd)
            rec.emit(e='cmd', text=cmd, out=ab(want) if want is not None else [])
            raised, val = '', ''
            try:
                val = await wrapper.run_command(cmd, timeout=5, async_=True)
            except ValueError:
                raised = 'ValueError'
            except Exception as e:
                raised = type(e).__name__
            rec.emit(e='cmdret', val=ab(val), raised=raised, incomplete=incomplete)
    try:
        w.loop.run_until_complete(main())
    finally:
        w.close()
    return {'id': tid, 'ev': rec.events, 'meta': meta}


# ---- real REPLs ------------------------------------------------------------------------------
RC_FILES = {
    # what a user's ~/.bashrc may contain (bashrc.sh sources it before replwrap sets its prompts)
    'plain': None,
    'rc_scalar': "PS1='user> '\nPROMPT_COMMAND='printf RCNOISE'\n",
    'rc_array': "PS1='user> '\nPROMPT_COMMAND=('true' 'printf RCNOISE')\n",      # array form, bash >= 5.1
    'rc_ps2': "PS2='cont> '\nPS0='[ps0]'\nunset PS0\n",
}


def start_real(kind, variant):
    import shutil, tempfile
    if kind == 'bash':
        home = tempfile.mkdtemp(prefix='verif-home-')
        if RC_FILES[variant] is not None:
            with open(os.path.join(home, '.bashrc'), 'w') as f:
                f.write(RC_FILES[variant])
        saved = os.environ.get('HOME')
        os.environ['HOME'] = home
        try:
            r = replwrap.bash()
        finally:
            if saved is None:
                del os.environ['HOME']
            else:
                os.environ['HOME'] = saved
        return r, (lambda: shutil.rmtree(home, ignore_errors=True))
    if variant == 'default':
        return replwrap.python(sys.executable), (lambda: None)
    # caller-chosen prompts of unequal length (any two strings are allowed)
    new, cont = {'short_first': ('[py]> ', '[py]...> '), 'long_first': ('[py]...> ', '[py]> ')}[variant]
    return replwrap.REPLWrapper(sys.executable, u'>>> ', u'import sys; sys.ps1={0!r}; sys.ps2={1!r}',
                                new_prompt=new, continuation_prompt=cont), (lambda: None)


def real_repl(kind, rng, ncmds, ctx, big_sizes, variant, use_async=False):
    """generated commands with output known by construction on the real bash / python REPL;
    returns (number of commands, failures)"""
    fails = []
    try:
        r, cleanup = start_real(kind, variant)
    except Exception as e:
        return 0, [('C16:wrapper-cannot-start', kind + '/' + variant, '<start>', '%s: %s' % (type(e).__name__, str(e)[:300]))]
    kind_v = kind + '/' + variant + ('/awaited' if use_async else '')
    loop = asyncio.new_event_loop() if use_async else None
    r.child.timeout = 30
    n = 0
    try:
        for i in range(ncmds):
            k = rng.random()
            tok = ''.join(rng.choice('abcxyz') for _ in range(rng.randint(1, 8)))
            if kind == 'bash':
                if k < 0.3:
                    cmd, want, inc = 'echo %s' % tok, tok + '\r\n', False
                elif k < 0.45:
                    cmd, want, inc = 'printf %s' % tok, tok, False
                elif k < 0.55:
                    cmd, want, inc = 'true', '', False
                elif k < 0.7:
                    cmd, want, inc = 'for i in 1 2\ndo echo %s$i\ndone' % tok, '%s1\r\n%s2\r\n' % (tok, tok), False
                elif k < 0.75:
                    cmd, want, inc = "echo '%s\n\n%s'" % (tok, tok), '%s\r\n\r\n%s\r\n' % (tok, tok), False      # blank line inside a quoted string
                elif k < 0.78:
                    cmd, want, inc = 'echo "%s' % tok, None, True
                elif k < 0.82:
                    cmd, want, inc = 'echo LEFT%s\necho "%s' % (tok, tok), None, True          # printed something, then incomplete
                elif k < 0.86:
                    ln = rng.choice([4000, 4096, 6000, 9000])                                  # one command line longer than a tty line buffer
                    cmd, want, inc = 'echo ' + 'q' * ln, 'q' * ln + '\r\n', False
                else:
                    size = rng.choice(big_sizes)
                    cmd, want, inc = "head -c %d /dev/zero | tr '\\0' x; echo" % size, 'x' * size + '\r\n', False
            else:
                if k < 0.3:
                    cmd, want, inc = 'print(%r)' % tok, tok + '\r\n', False
                elif k < 0.45:
                    cmd, want, inc = 'import sys; _ = sys.stdout.write(%r)' % tok, tok, False
                elif k < 0.55:
                    cmd, want, inc = 'x = 1', '', False
                elif k < 0.7:
                    cmd, want, inc = 'for i in range(2):\n    print(%r, i)\n' % tok, '%s 0\r\n%s 1\r\n' % (tok, tok), False
                elif k < 0.75:
                    cmd, want, inc = 's = \'\'\'%s\n\n%s\'\'\'\nprint(len(s))' % (tok, tok), '%d\r\n' % (2 * len(tok) + 2), False
                elif k < 0.78:
                    cmd, want, inc = 'for i in range(2):', None, True
                elif k < 0.82:
                    cmd, want, inc = 'print("LEFT%s")\nfor i in range(2):' % tok, None, True
                else:
                    size = rng.choice(big_sizes)
                    cmd, want, inc = 'print("x" * %d)' % size, 'x' * size + '\r\n', False
            n += 1
            if rng.random() < 0.15 and not inc and not cmd.endswith('\n'):
                # a final newline after a complete command changes nothing (for python it is the blank line that closes a block)
                cmd = cmd + '\n'
            try:
                if use_async:
                    got = loop.run_until_complete(r.run_command(cmd, timeout=30, async_=True))
                else:
                    got = r.run_command(cmd, timeout=30)
                if inc:
                    fails.append(('C16:incomplete-input-does-not-raise-ValueError', kind_v, cmd, repr(got)[:200]))
                elif got != want:
                    fails.append(('C16:not-exactly-the-command\'s-own-output', kind_v, cmd,
                                  'got %d chars %r..., want %d chars %r...' % (len(got), got[:60], len(want), want[:60])))
            except ValueError as e:
                if not inc:
                    fails.append(('C16:complete-command-raised', kind_v, cmd, str(e)[:200]))
            except Exception as e:
                fails.append(('C16:wrapper-unusable', kind_v, cmd, '%s: %s' % (type(e).__name__, str(e)[:300])))
                break
    finally:
        try:
            r.child.close(force=True)
        except Exception:
            pass
        if loop is not None:
            try:
                loop.close()
            except Exception:
                pass
        cleanup()
    return n, fails


def run(ctx):
    if ctx.replay:
        print('replay: re-run ./check C16 with the same VERIF_SEED (%s)' % ctx.replay)
        return 0
    print('[C16] REPLWrapper - tier %s seed %d' % (ctx.tier, ctx.seed), flush=True)
    mc = tlc.run('MCRepl', 'MCRepl.cfg', ctx.work, workers=8, timeout=900, coverage=True, outname='mcrepl.out')
    if not mc['ok']:
        raise tlc.TLCError('Repl: %s, see %s' % (mc['violated'] or 'TLC failed', mc['out']))
    for act in ('StartCommand', 'ExpectPrompt', 'ReadSome', 'AfterPrompt', 'AfterInterrupt'):
        if mc['coverage'].get(act, (0, 0))[1] == 0:
            raise tlc.TLCError('Repl: action %s never taken' % act)
    ctx.note('TLC Repl: %d distinct states; OwnOutput / Usable / Conservation / NoMissed hold for every chunking' % mc['distinct'])
    rng = random.Random(ctx.seed * 613 + 29)
    traces = []
    nseq = 600 if ctx.quick() else 5000
    for i in range(nseq):
        traces.append(run_scripted(rng, i, rng.randint(1, 5), big=(i % 10 == 0), use_async=(i % 3 == 2)))
    nontrivial = sum(1 for t in traces if sum(1 for e in t['ev'] if e['e'] == 'cmdret') >= 2)
    verdicts, st = tracecheck.validate(traces, 'ExpectTrace', ctx.work, constants=TRACE_CONSTS, procs=16)
    cnt = Counter(v[0] for v in verdicts.values())
    ncmd = sum(1 for t in traces for e in t['ev'] if e['e'] == 'cmdret')
    ctx.note('%d command sequences (%d commands, 1/3 awaited) on the scripted REPL through the real REPLWrapper; TLC validation: %d states; verdicts: %s' % (
        len(traces), ncmd, st['distinct'], ', '.join('%s x%d' % kv for kv in sorted(cnt.items()))))
    if any(v[0].startswith('harness:') for v in verdicts.values()):
        raise tlc.TLCError('harness-level verdicts: %s' % [(k, v) for k, v in verdicts.items() if v[0].startswith('harness:')][:3])
    for t in traces:
        v, at = verdicts[t['id']]
        if t['meta'].get('start_error'):
            ctx.fail('C16:wrapper-cannot-start', {'meta': t['meta']}, detail={'what': t['meta']['start_error'], 'events': t['ev'][-12:]},
                     signature={'async': t['meta']['async']})
        elif v != 'ok':
            clause = v if v.startswith('C16:') else 'C16:expect-inside-run_command-breaks-contract(' + v + ')'
            ctx.fail(clause, {'meta': t['meta']}, detail={'event_index': at, 'events': t['ev'][max(0, at - 12):at]},
                     signature={'async': t['meta']['async']})
    # real REPLs
    big = [1000, 70000] if ctx.quick() else [1000, 70000, 300000]
    nreal = 0
    for kind, variant, share, use_async in (('bash', 'plain', 1.0, False), ('bash', 'rc_scalar', 0.3, False), ('bash', 'rc_array', 0.3, False),
                                            ('bash', 'rc_ps2', 0.3, False), ('bash', 'plain', 0.6, True),
                                            ('python', 'default', 1.0, False), ('python', 'short_first', 0.4, False),
                                            ('python', 'long_first', 0.4, False), ('python', 'default', 0.6, True)):
        ncmd_real = int((40 if ctx.quick() else 400) * share)
        n, fails = real_repl(kind, random.Random(ctx.seed * 17 + len(kind) + len(variant) + 7 * use_async), ncmd_real, ctx, big, variant, use_async)
        nreal += n
        for f in fails:
            ctx.fail(f[0], {'repl': f[1], 'command': f[2]}, detail={'what': f[3]}, signature={'repl': f[1]})
        ctx.note('real %s REPL (%s%s): %d generated commands (outputs up to %d bytes), %d mismatches' % (
            kind, variant, ', awaited' if use_async else '', n, max(big), len(fails)))
    # binding self-test
    cands = [t for t in traces if verdicts[t['id']][0] == 'ok' and any(e['e'] == 'cmdret' and e['val'] for e in t['ev'])]
    if common.selftest_possible(ctx, cands, 'a non-empty return value'):
        a = copy.deepcopy(cands[0]); a['id'] = 'corrupt'
        for e in a['ev']:
            if e['e'] == 'cmdret' and e['val']:
                e['val'] = e['val'][:-1]
                break
        v2, _ = tracecheck.validate([a], 'ExpectTrace', ctx.work, constants=TRACE_CONSTS, procs=1, tag='selftest')
        if v2['corrupt'][0] == 'ok':
            raise tlc.TLCError('self-test: truncated return value accepted')
        ctx.note('binding self-test: truncated return value -> %s' % v2['corrupt'][0])
    status, nviol, nknown = common.conclude(ctx)
    evidence.write('C16', ctx.tier, ctx.seed, 'model_checking', {
        'states': mc['distinct'], 'transitions': mc['generated'], 'traces_validated_against_impl': len(traces),
        'samples': [{'meta': t['meta'], 'events': t['ev'][:40]} for t in (traces[1], traces[2])],
        'evaluations': ncmd + nreal, 'distinct_nontrivial': nontrivial,
        'rule': 'seeded random command sequences (1-5 commands: single line, empty output, multi-line block, two statements, incomplete '
                'input) on the scripted REPL with random chunk sizes, blocking and awaited; non-trivial = sequences of at least two commands; '
                'plus generated commands on the real bash and python REPLs',
        'exhaustive': False, 'verdict_counts': dict(cnt), 'real_repl_commands': nreal, 'known_findings_hit': nknown,
    }, assumptions=['zsh is not installed; only bash and python are exercised',
                    'large outputs on the real REPLs are compared directly (not through TLC)',
                    'output is compared as the pty delivers it (LF -> CRLF is the terminal\'s translation)'],
        wall_s=ctx.wall(), violations=nviol)
    return status

"""C13: launch fidelity - the child is started exactly as requested.

spec/Launch.tla holds three parts; TLC checks each and writes its cases out; every case is
one (or more) implementation test against the real code:

 (a) SplitSpec   the documented splitter as a character-class state machine, three quoting
                 functions, the law RoundTrip.  TLC generates every case of the bound and
                 checks the law on the model; each case (command line + expected argv) is
                 replayed on pexpect.utils.split_command_line, and a seeded sample goes
                 through a real pexpect.spawn(command_line) / PopenSpawn(command_line) to a
                 probe child that reports the argv it received.
 (b) WhichSpec   PATH layouts (<= 3 directories x 9 kinds of entry, PATH set / empty /
                 missing, env argument given or not, explicit paths); every layout is
                 materialised in a temporary tree and compared with pexpect.utils.which and
                 with what a spawned child says it is.
 (c) ConfigSpec  the configuration space; every row is a real spawn of a probe child that
                 reports cwd, environment block, terminal size, ECHO flag and SIGHUP
                 disposition.

The expected value of every test comes out of TLC (the tables are written by ASSUMEs of the
module that TLC has just model-checked).
"""
import collections, json, os, random, shutil, signal, stat, sys, time
import multiprocessing
from concurrent.futures import ThreadPoolExecutor, ProcessPoolExecutor

import pexpect
import pexpect.utils
from pexpect import popen_spawn

from .. import tlc, evidence, common

PEERS = os.path.join(os.path.dirname(os.path.dirname(os.path.abspath(__file__))), 'peers')

# character classes of Launch.tla -> concrete characters (two sets of representatives)
REPS = {
    'std': {'x': 'x', '_': ' ', 't': '\t', 's': "'", 'd': '"', 'b': '\\', 'e': 'é'},
    'alt': {'x': '-', '_': ' ', 't': '\t', 's': "'", 'd': '"', 'b': '\\', 'e': '日'},
}
SPLIT_ACTIONS = ['AddArgument', 'Present', 'BeginEscape', 'OpenSingle', 'OpenDouble', 'EndArgument', 'SkipWhite',
                 'PlainChar', 'EscapedChar', 'InSingle', 'CloseSingle', 'InDouble', 'CloseDouble', 'Finish']
WHICH_ACTIONS = ['ExplicitHit', 'ExplicitMiss', 'ChoosePath', 'SkipEntry', 'TakeEntry', 'Exhausted']
SPLIT_INVS = ['SplitTypeOK', 'RoundTrip', 'PrefixSoFar', 'EndsOutside', 'MachineIsSplit', 'CaseInTable']
PROG = 'prog'
SPAWN_TIMEOUT = 30


def text(code, rep='std'):
    m = REPS[rep]
    return ''.join(m[c] for c in code)


class Rec(object):
    """collects failures and hands them to ctx.fail at the end (flush), keeping the `cap` smallest per
    (clause, signature) so that a systematic defect (tens of thousands of failing rows) neither floods
    memory nor hides its simplest instance; the totals are kept"""

    def __init__(self, ctx, cap=25):
        self.ctx = ctx
        self.cap = cap
        self.totals = collections.Counter()
        self.kept = {}

    @staticmethod
    def size(detail):
        return len((detail or {}).get('command_line', ''))

    def fail(self, clause, case, detail=None, signature=None):
        key = (clause, json.dumps(signature or {}, sort_keys=True))
        self.totals[key] += 1
        lst = self.kept.setdefault(key, [])
        item = (self.size(detail), self.totals[key], clause, case, detail, signature)
        if len(lst) < self.cap:
            lst.append(item)
        else:
            worst = max(range(len(lst)), key=lambda i: lst[i][:2])
            if item[:2] < lst[worst][:2]:
                lst[worst] = item
        return item

    def absorb(self, totals, kept):
        """merge what a worker process collected"""
        for key, lst in kept.items():
            for size, _, clause, case, detail, signature in lst:
                self.fail(clause, case, detail, signature)
            self.totals[key] += totals[key] - len(lst)

    def flush(self):
        for key in sorted(self.kept):
            for _, _, clause, case, detail, signature in sorted(self.kept[key], key=lambda it: it[:2]):
                self.ctx.fail(clause, case, detail, signature)
        self.kept = {}

    def total(self):
        return sum(self.totals.values())


def stable(fn, tries=3):
    """real-process rule: a failing case is re-run twice more and reported only if it fails every time.
    fn() returns None when the case passes, else a JSON-able description of the mismatch."""
    last = None
    for _ in range(tries):
        last = fn()
        if last is None:
            return None
    return last


# ---------------------------------------------------------------------------------------------
# (a) split

def split_row_inprocess(r, rec, stats, reps=('std', 'alt')):
    for rep in reps:
        s = text(r['i'], rep)
        want = [text(a, rep) for a in r['a']]
        stats['evaluations'] += 1
        try:
            got = pexpect.utils.split_command_line(s)
        except Exception as e:                      # noqa - whatever it raises is a wrong answer
            got = '%s: %s' % (type(e).__name__, e)
        if got != want:
            rec.fail('C13:split-roundtrip', {'kind': 'split', 'row': r, 'rep': rep},
                     detail={'command_line': s, 'got': got, 'want': want},
                     signature={'part': 'split', 'lead': r['l'], 'style': r['y']})


class ArgvBench(object):
    """a directory (the only one on the child's PATH) holding the argv probe under every name that
    can be the first argument of a case"""

    def __init__(self, work):
        self.dir = os.path.join(work, 'argvbin')
        self.out = os.path.join(work, 'argv.out')
        os.makedirs(self.dir, exist_ok=True)
        src = os.path.join(PEERS, 'argv_probe.sh')
        self.names = set()
        chars = sorted(REPS['std'].values())
        for a in chars:
            for b in [''] + chars:
                self.add(src, a + b)

    def add(self, src, name):
        if name in self.names:
            return
        p = os.path.join(self.dir, name)
        shutil.copyfile(src, p)
        os.chmod(p, 0o755)
        self.names.add(name)

    def env(self):
        return {'PATH': self.dir, 'VERIF_PROBE_OUT': self.out}

    def clear(self):
        try:
            os.unlink(self.out)
        except OSError:
            pass

    def report(self):
        if not os.path.exists(self.out):
            return None
        raw = open(self.out, 'rb').read().split(b'\0')
        return [x.decode('utf-8', 'surrogateescape') for x in raw[:-1]]


def run_pty(command, args=None, **kw):
    """spawn, wait for the child's end of file, reap; returns None or the exception text"""
    try:
        child = pexpect.spawn(command, args or [], timeout=SPAWN_TIMEOUT, **kw)
    except pexpect.ExceptionPexpect as e:
        return 'ExceptionPexpect: %s' % e
    except Exception as e:
        return '%s: %s' % (type(e).__name__, e)
    try:
        child.expect(pexpect.EOF)
        try:
            child.wait()                        # the child has hung up; block until it is gone (no sleeps)
        except pexpect.ExceptionPexpect:
            pass                                # already reaped
        child.ptyproc.delayafterclose = 0       # nothing left to wait for
    finally:
        child.close()
    return None


def run_popen(command, **kw):
    try:
        child = popen_spawn.PopenSpawn(command, timeout=SPAWN_TIMEOUT, **kw)
    except OSError as e:
        return '%s: %s' % (type(e).__name__, e)
    except Exception as e:
        return '%s: %s' % (type(e).__name__, e)
    try:
        child.expect(pexpect.EOF)
    finally:
        child.wait()
        child._read_thread.join()
        child.proc.stdin.close()
        child.proc.stdout.close()
    return None


def split_row_child(r, transport, bench, rec, stats, encoding=None):
    s = text(r['i'])
    want_args = [text(a) for a in r['a']]
    want = [os.path.join(bench.dir, want_args[0])] + want_args[1:]

    def once():
        bench.clear()
        stats['evaluations'] += 1
        if transport == 'pty':
            err = run_pty(s, env=bench.env(), encoding=encoding)
        elif transport == 'pty-list':          # the list form: nothing is split, the list is the argv
            arglist = list(want_args[1:])
            err = run_pty(want_args[0], arglist, env=bench.env(), encoding=encoding)
            if err is None and bench.report() == want:
                # the caller's list is the caller's: launching again with the very same list object must
                # start the very same argv (a worker pool / retry loop re-using one list)
                bench.clear()
                stats['evaluations'] += 1
                err = run_pty(want_args[0], arglist, env=bench.env(), encoding=encoding)
                if err is None and arglist != want_args[1:]:
                    return {'command_line': s, 'callers_list_after_spawn': arglist, 'callers_list_before': want_args[1:],
                            'child_argv': bench.report(), 'want_argv': want}
        else:
            err = run_popen(s, env=bench.env(), encoding=encoding)
        got = bench.report()
        if err is not None:
            return {'command_line': s, 'raised': err, 'want_argv': want}
        if got != want:
            return {'command_line': s, 'child_argv': got, 'want_argv': want}
        return None
    bad = stable(once)
    if bad is not None:
        rec.fail('C13:argv-in-child', {'kind': 'argv', 'row': r, 'transport': transport, 'encoding': encoding},
                 detail=bad, signature={'part': 'argv', 'transport': transport, 'style': r['y'],
                                        'lead': r['l'] if transport != 'pty-list' else None})


# ---------------------------------------------------------------------------------------------
# (b) which

SCRIPT = "#!/bin/sh\nprintf '%%s\\0' '%s' \"$0\" > \"$VERIF_PROBE_OUT\"\n"


class Tree(object):
    """one world of Launch.tla materialised under `root`"""

    def __init__(self, root, w):
        self.root = root
        self.w = w
        shutil.rmtree(root, ignore_errors=True)
        os.makedirs(os.path.join(root, 'tg'))
        self.cwd = os.path.join(root, 'cwd')
        os.makedirs(self.cwd)
        self.out = os.path.join(root, 'report')
        self.tags = {}
        src = w['src']
        self.srcdirs = [os.path.join(root, 'p%d' % (i + 1)) for i in range(len(src['dirs']))]
        for i, k in enumerate(src['dirs']):
            self.entry(self.srcdirs[i], PROG, k, 'src%d' % (i + 1))
        self.defdirs = [os.path.join(root, 'def%d' % (i + 1)) for i in range(len(w['def']))]
        for i, k in enumerate(w['def']):
            self.entry(self.defdirs[i], PROG, k, 'def%d' % (i + 1))
        self.decoy = os.path.join(root, 'decoy')
        self.entry(self.decoy, PROG, 'exec', 'environ-decoy')
        if src['state'] == 'set':
            self.pathvalue = os.pathsep.join(self.srcdirs)
        elif src['state'] == 'empty':
            self.pathvalue = ''
        else:
            self.pathvalue = None
        # how the program is named
        if w['mode'] == 'name':
            self.filename = PROG
        elif w['mode'] == 'abs':
            d = os.path.join(root, 'ex')
            self.entry(d, PROG, w['target'], 'explicit')
            self.filename = os.path.join(d, PROG)
        else:
            self.entry(os.path.join(self.cwd, 'ex'), PROG, w['target'], 'explicit')
            self.filename = os.path.join('ex', PROG)
            self.tags[self.filename] = 'explicit'
        # env argument / process environment
        if w['envGiven']:
            self.env = {'VERIF_PROBE_OUT': self.out}
            if self.pathvalue is not None:
                self.env['PATH'] = self.pathvalue
            self.environ_path = self.decoy
        else:
            self.env = None
            self.environ_path = self.pathvalue

    def entry(self, d, name, kind, tag):
        if kind == 'nodir':
            return
        os.makedirs(d, exist_ok=True)
        p = os.path.join(d, name)
        if kind.startswith('ln_'):
            tdir = os.path.join(self.root, 'tg', tag)
            os.makedirs(tdir)
            self.make(os.path.join(tdir, 'target'), kind[3:], tag)
            os.symlink(os.path.join(tdir, 'target'), p)
        else:
            self.make(p, kind, tag)
        self.tags[p] = tag

    def make(self, p, kind, tag):
        if kind == 'missing':
            return
        if kind == 'dir':
            os.mkdir(p)
            return
        with open(p, 'w') as f:
            f.write(SCRIPT % tag)
        os.chmod(p, 0o755 if kind == 'exec' else 0o644)

    def expected(self, want):
        """the path the model's result denotes"""
        if want['k'] == 'none':
            return None
        if want['k'] == 'explicit':
            return self.filename
        dirs = self.defdirs if want['src'] == 'def' else self.srcdirs
        return os.path.join(dirs[want['idx'] - 1], PROG)

    def __enter__(self):
        self.saved = (os.environ.get('PATH'), os.defpath, os.getcwd(), os.environ.get('VERIF_PROBE_OUT'))
        if self.environ_path is None:
            os.environ.pop('PATH', None)
        else:
            os.environ['PATH'] = self.environ_path
        os.environ['VERIF_PROBE_OUT'] = self.out
        os.defpath = os.pathsep.join(self.defdirs)
        os.chdir(self.cwd)
        return self

    def __exit__(self, *a):
        path, defpath, cwd, po = self.saved
        if path is None:
            os.environ.pop('PATH', None)
        else:
            os.environ['PATH'] = path
        if po is None:
            os.environ.pop('VERIF_PROBE_OUT', None)
        else:
            os.environ['VERIF_PROBE_OUT'] = po
        os.defpath = defpath
        os.chdir(cwd)

    def report(self):
        if not os.path.exists(self.out):
            return None
        raw = open(self.out, 'rb').read().split(b'\0')
        return [x.decode('utf-8', 'surrogateescape') for x in raw[:-1]]


def which_sig(w):
    return {'part': 'which', 'mode': w['mode'], 'envGiven': w['envGiven'], 'pathState': w['src']['state']}


def which_row(r, root, rec, stats, transports=()):
    w, want = r['world'], r['want']
    tree = Tree(root, w)
    exp = tree.expected(want)
    with tree:
        stats['evaluations'] += 1
        try:
            got = pexpect.utils.which(tree.filename, env=tree.env)
        except Exception as e:                      # noqa
            got = '%s: %s' % (type(e).__name__, e)
        if got != exp:
            rec.fail('C13:which', {'kind': 'which', 'row': r, 'transports': []},
                     detail={'filename': tree.filename, 'env_PATH': (tree.env or {}).get('PATH', '<no env / no PATH>'),
                             'environ_PATH': tree.environ_path, 'defpath': os.defpath, 'got': got, 'want': exp,
                             'effective': r['effective']},
                     signature=which_sig(w))
        for transport in transports:
            if transport == 'popen' and not (w['mode'] == 'name' and w['src']['state'] == 'set'):
                continue      # subprocess's own rules for an empty PATH / relative explicit paths are not pexpect's

            def once():
                stats['evaluations'] += 1
                try:
                    os.unlink(tree.out)
                except OSError:
                    pass
                if transport == 'pty':
                    err = run_pty(tree.filename, env=tree.env)
                else:
                    err = run_popen([tree.filename], env=tree.env)
                rep = tree.report()
                if exp is None:
                    if err is None or rep is not None:
                        return {'want': 'no executable: the launch must be refused', 'raised': err, 'child_report': rep}
                    return None
                if err is not None:
                    return {'want_executable': exp, 'raised': err}
                if rep is None or rep[0] != tree.tags.get(exp) or (transport == 'pty' and rep[1] != exp):
                    return {'want_executable': exp, 'want_tag': tree.tags.get(exp), 'child_report': rep}
                return None
            bad = stable(once)
            if bad is not None:
                sig = which_sig(w)
                sig['transport'] = transport
                rec.fail('C13:which-child', {'kind': 'which', 'row': r, 'transports': [transport]}, detail=bad, signature=sig)


# ---------------------------------------------------------------------------------------------
# (c) configuration pass-through

DIMS = {'none': None, 'default': (24, 80), 'small': (7, 31), 'unit': (1, 1)}
PREEXEC_UMASK = 0o057


def _preexec():
    os.umask(PREEXEC_UMASK)


class ConfigBench(object):
    def __init__(self, work):
        self.bin = os.path.join(work, 'cfgbin')
        self.tmp = os.path.realpath(os.path.join(work, 'cfgcwd'))
        self.out = os.path.join(work, 'config.report')
        os.makedirs(self.bin, exist_ok=True)
        os.makedirs(self.tmp, exist_ok=True)
        self.probe = os.path.join(self.bin, 'launchprobe')
        shutil.copyfile(os.path.join(PEERS, 'launch_probe.py'), self.probe)
        os.chmod(self.probe, 0o755)
        self.n = 0


def config_row(r, bench, rec, stats, ctx=None):
    row, want = r['row'], r['want']
    bench.n += 1
    token = 'mark-%d-%d' % (os.getpid(), bench.n)
    if row['env'] == 'none':
        env = None
        command = bench.probe
    elif row['env'] == 'with_path':
        env = {'PATH': bench.bin + os.pathsep + '/usr/bin' + os.pathsep + '/bin', 'VERIF_MARK': token, 'LANG': 'C'}
        command = 'launchprobe'            # found through the env argument's PATH only
    else:
        env = {'VERIF_MARK': token}
        command = bench.probe
    kw = {}
    if row['cwd'] == 'tmp':
        kw['cwd'] = bench.tmp
    if row['preexec']:
        kw['preexec_fn'] = _preexec
    if row['transport'] == 'pty':
        kw['echo'] = row['echo']
        kw['ignore_sighup'] = row['ignore_sighup']
        if DIMS[row['dims']] is not None:
            kw['dimensions'] = DIMS[row['dims']]

    def once():
        stats['evaluations'] += 1
        try:
            os.unlink(bench.out)
        except OSError:
            pass
        os.environ['VERIF_MARK'] = token
        inherited = dict(os.environ)
        parent_cwd = os.path.realpath(os.getcwd())
        parent_umask = os.umask(0)
        os.umask(parent_umask)
        try:
            if row['transport'] == 'pty':
                err = run_pty(command, [bench.out], env=env, **kw)
            else:
                err = run_popen([command, bench.out], env=env, **kw)
        finally:
            os.environ.pop('VERIF_MARK', None)
        if err is not None:
            return [('C13:launch', {'raised': err})]
        if not os.path.exists(bench.out):
            return [('C13:launch', {'problem': 'the child ended without reporting'})]
        rep = json.load(open(bench.out))
        bad = []
        exp_cwd = bench.tmp if want['cwd'] == 'tmp' else parent_cwd
        if os.path.realpath(rep['cwd']) != exp_cwd:
            bad.append(('C13:cwd', {'child_cwd': rep['cwd'], 'want': exp_cwd}))
        exp_env = inherited if want['env'] == 'inherited' else env
        if rep['environ'] != exp_env:
            diff = {k: [rep['environ'].get(k), exp_env.get(k)] for k in set(rep['environ']) | set(exp_env)
                    if rep['environ'].get(k) != exp_env.get(k)}
            bad.append(('C13:env', {'differing_variables [child, want]': diff}))
        if want['tty']:
            if rep['winsize'] != [want['rows'], want['cols']]:
                bad.append(('C13:winsize', {'child_winsize': rep['winsize'], 'want': [want['rows'], want['cols']]}))
            if rep['echo'] != want['echo']:
                bad.append(('C13:echo', {'child_ECHO_flag': rep['echo'], 'want': want['echo']}))
        elif rep['tty']:
            bad.append(('C13:launch', {'problem': 'PopenSpawn child has a terminal on stdin'}))
        ign = rep['sighup_ignored_mask']
        if ign != (want['sighup'] == 'ignored') or rep['sighup_getsignal'] != want['sighup']:
            bad.append(('C13:sighup', {'child_SIGHUP': rep['sighup_getsignal'], 'SigIgn_bit': ign, 'want': want['sighup']}))
        # not part of the property statement: the user's preexec_fn ran (noted as drift only)
        exp_umask = PREEXEC_UMASK if row['preexec'] else parent_umask
        if rep['umask'] != exp_umask and ctx is not None:
            ctx.drift += 1
        return bad or None
    bad = stable(once)
    if bad:
        for clause, detail in bad:
            rec.fail(clause, {'kind': 'config', 'row': r}, detail=detail,
                     signature={'part': 'config', 'transport': row['transport'], 'dims': row['dims'], 'echo': row['echo'],
                                'ignore_sighup': row['ignore_sighup'], 'env': row['env'], 'cwd': row['cwd']})


# ---------------------------------------------------------------------------------------------
# TLC

def split_cfg(ctx, name, lenfor, styles, seps, dev='{}'):
    return tlc.write_cfg(os.path.join(ctx.work, name), spec='SplitSpec',
                         constants=[('LenFor', '<- ' + lenfor), ('Styles', styles), ('Seps', '<- ' + seps), ('Dev', '= ' + dev),
                                    ('MaxDirs', '= 1')], invariants=SPLIT_INVS)


def need(res, what, out_file=None):
    if not res['ok'] or (out_file and not os.path.exists(out_file)):
        raise tlc.TLCError('%s: TLC failed (violated=%s rc=%s timed_out=%s), see %s' % (
            what, res['violated'], res['rc'], res['timed_out'], res['out']))
    return res


def need_actions(res, names, what):
    missing = [a for a in names if res['coverage'].get(a, (0, 0))[1] == 0]
    if missing:
        raise tlc.TLCError('%s: action(s) never taken: %s (vacuous model), see %s' % (what, ', '.join(missing), res['out']))


def model_check(ctx):
    """runs TLC on the three parts; returns (runs, paths of the split tables, which table, config table)"""
    runs = []
    cfg_out = os.path.join(ctx.work, 'config.json')
    r = need(tlc.run('MCLaunch', 'Launch_config.cfg', ctx.work, workers=2, timeout=300, env={'LAUNCH_CONFIG_OUT': cfg_out},
                     outname='config.out'), 'Launch/config', cfg_out)
    runs.append(('config', r))
    ctx.note('TLC ConfigSpec: %d rows, invariants DefaultDims Independent hold (%.0fs)' % (r['distinct'], r['wall_s']))
    which_out = os.path.join(ctx.work, 'which.json')
    r = need(tlc.run('MCLaunch', 'Launch_which.cfg', ctx.work, workers=2, timeout=300, coverage=True,
                     env={'LAUNCH_WHICH_OUT': which_out}, outname='which.out'), 'Launch/which', which_out)
    need_actions(r, WHICH_ACTIONS, 'Launch/which')
    runs.append(('which', r))
    ctx.note('TLC WhichSpec: %d states, %d transitions, invariants WhichFirstMatch EnvPathWins DefaultOnlyWhenNoPath '
             'OnlyExecutables NothingEarlier hold (%.0fs)' % (r['distinct'], r['generated'], r['wall_s']))
    # model sensitivity: the splitter as it is upstream (starts inside an argument) must break RoundTrip
    r = tlc.run('MCLaunch', 'Launch_split_asis.cfg', ctx.work, workers=2, timeout=300, outname='asis.out', only='RoundTrip')
    if r['violated'] != 'RoundTrip':
        raise tlc.TLCError('Launch/split: with deviation leading_ws TLC did not refute RoundTrip (%s), see %s' % (r['violated'], r['out']))
    runs.append(('split-asis', r))
    ctx.note('model sensitivity: with Dev={"leading_ws"} (initial state "basic", as upstream) TLC refutes RoundTrip')
    # the quick bound, with coverage (vacuity guard) - both tiers
    split_outs = []
    out = os.path.join(ctx.work, 'split_quick.json')
    r = need(tlc.run('MCLaunch', 'Launch_split_quick.cfg', ctx.work, workers=3, timeout=600, coverage=True,
                     env={'LAUNCH_SPLIT_OUT': out}, outname='split_quick.out'), 'Launch/split quick', out)
    need_actions(r, SPLIT_ACTIONS, 'Launch/split')
    runs.append(('split-quick', r))
    ctx.note('TLC SplitSpec LenFor=<<2,2,1>>: %d states, %d cases (Finish transitions), invariants %s hold (%.0fs)' % (
        r['distinct'], r['coverage']['Finish'][1], ' '.join(SPLIT_INVS), r['wall_s']))
    ncases = {out: r['coverage']['Finish'][1]}
    if ctx.quick():
        split_outs.append(out)
    else:
        # the full bound <<2,2,2>> in nine partitions (style x separator), four TLC processes at a time
        jobs = []
        for style in ('backslash', 'single', 'double'):
            for sep in ('MCSepSpace', 'MCSepTab', 'MCSepTwo'):
                tag = '%s_%s' % (style, sep[5:].lower())
                cfg = split_cfg(ctx, 'split_%s.cfg' % tag, 'MCLenThorough', '= {"%s"}' % style, sep)
                jobs.append((tag, cfg, os.path.join(ctx.work, 'split_%s.json' % tag)))

        def job(j):
            tag, cfg, o = j
            return j, tlc.run('MCLaunch', cfg, ctx.work, workers=2, timeout=1200, env={'LAUNCH_SPLIT_OUT': o},
                              outname='split_%s.out' % tag, heap='5g')
        with ThreadPoolExecutor(max_workers=4) as ex:
            for (tag, cfg, o), r in ex.map(job, jobs):
                need(r, 'Launch/split ' + tag, o)
                runs.append(('split-' + tag, r))
                split_outs.append(o)
                ncases[o] = None
        tot = sum(r['distinct'] for n, r in runs if n.startswith('split-') and n not in ('split-asis', 'split-quick'))
        ctx.note('TLC SplitSpec LenFor=<<2,2,2>> in 9 partitions: %d states, invariants hold' % tot)
    return runs, split_outs, ncases, json.load(open(which_out)), json.load(open(cfg_out))


# ---------------------------------------------------------------------------------------------

def new_stats():
    return {'evaluations': 0}


def split_table_worker(job):
    """replays one emitted table on split_command_line; returns counts, the kept failures and a seeded sample"""
    path, seed, per_file = job
    table = json.load(open(path))
    rec = Rec(None)
    st = new_stats()
    nprot = 0
    for r in table:
        split_row_inprocess(r, rec, st)
        # non-trivial and distinct: something needed protection, and the command line is not a copy of another
        # row's (a single argument without leading / trailing whitespace does not show its separator)
        if r['pr'] and not (len(r['a']) == 1 and not r['l'] and not r['t'] and r['p'] != '_'):
            nprot += 1
    idx = sorted(random.Random(seed).sample(range(len(table)), min(per_file, len(table))))
    return {'path': path, 'nrows': len(table), 'nprot': nprot, 'evaluations': st['evaluations'],
            'totals': dict(rec.totals), 'kept': rec.kept, 'sample': [table[i] for i in idx],
            'first': [table[0], table[len(table) // 2], table[-1]]}


def probe_ctx():
    p = common.Ctx.__new__(common.Ctx)
    p.failures = []
    p.drift = 0
    p.fail = lambda *a, **k: p.failures.append(a)
    return p


def clauses_failing(fn):
    """runs one test function against a private recorder; returns the set of clauses it reports"""
    p = probe_ctx()
    rec = Rec(p)
    fn(rec)
    rec.flush()
    return set(a[0] for a in p.failures)


def blind(cands, run, corrupt, clause, limit=8):
    """The machinery is blind on `clause` when a row passes under its genuine expectation AND under a corrupted
    one.  Rows on which the implementation itself fails the genuine expectation say nothing about the machinery
    (those failures are reported by the check proper) and the next candidate is tried.
    Returns 'ok' | 'blind' | 'skipped' (no candidate passes its genuine expectation)."""
    for r in cands[:limit]:
        if clause in run(r):
            continue
        return 'ok' if clause in run(corrupt(r)) else 'blind'
    return 'skipped'


def self_test(ctx, sample, which_table, config_table, abench, cbench):
    """a wrong expectation in each table must be noticed by the same test functions"""
    def bad_split(r):
        b = dict(r)
        b['a'] = [r['a'][0] + 'x'] + list(r['a'][1:])
        return b

    def bad_which(r):
        b = json.loads(json.dumps(r))
        b['want'] = {'k': 'found', 'src': r['want']['src'], 'idx': 1}    # claim the non-executable first entry wins
        return b

    def bad_config(r):
        b = json.loads(json.dumps(r))
        w = r['want']
        b['want'].update({'rows': w['cols'], 'cols': w['rows'], 'echo': not w['echo'],
                          'sighup': 'default' if w['sighup'] == 'ignored' else 'ignored',
                          'cwd': 'parent' if w['cwd'] == 'tmp' else 'tmp', 'env': 'inherited'})
        return b
    splits = [r for r in sample if not r['l']] + [r for r in sample if r['l']]
    whichs = [x for x in which_table if x['want']['k'] == 'found' and x['want']['idx'] == 2]
    configs = [x for x in config_table if x['row']['transport'] == 'pty' and x['row']['dims'] == 'small'
               and x['row']['env'] == 'without_path']
    tree = os.path.join(ctx.work, 'selftest_tree')
    verdicts = collections.OrderedDict()
    verdicts['C13:split-roundtrip'] = blind(
        splits, lambda r: clauses_failing(lambda rec: split_row_inprocess(r, rec, new_stats(), reps=('std',))),
        bad_split, 'C13:split-roundtrip')
    verdicts['C13:argv-in-child'] = blind(
        splits, lambda r: clauses_failing(lambda rec: split_row_child(r, 'pty', abench, rec, new_stats())),
        bad_split, 'C13:argv-in-child')
    for clause in ('C13:which', 'C13:which-child'):
        verdicts[clause] = blind(
            whichs, lambda r: clauses_failing(lambda rec: which_row(r, tree, rec, new_stats(), transports=('pty',))),
            bad_which, clause)
    memo = {}

    def run_config(r):
        key = json.dumps(r, sort_keys=True)
        if key not in memo:
            memo[key] = clauses_failing(lambda rec: config_row(r, cbench, rec, new_stats()))
            if 'C13:launch' in memo[key]:          # no report at all: every clause counts as failed
                memo[key] |= {'C13:cwd', 'C13:env', 'C13:winsize', 'C13:echo', 'C13:sighup'}
        return memo[key]
    for clause in ('C13:cwd', 'C13:env', 'C13:winsize', 'C13:echo', 'C13:sighup'):
        verdicts[clause] = blind(configs, run_config, bad_config, clause)
    shutil.rmtree(tree, ignore_errors=True)
    blinds = [c for c, v in verdicts.items() if v == 'blind']
    if blinds:
        raise tlc.TLCError('C13 self-test: a corrupted expectation was accepted for %s' % ', '.join(blinds))
    skipped = [c for c, v in verdicts.items() if v == 'skipped']
    ctx.note('binding self-test: a corrupted expectation is rejected for %s%s' % (
        ' '.join(c for c, v in verdicts.items() if v == 'ok'),
        ('; not testable here (the implementation fails every candidate row, reported above): ' + ' '.join(skipped)) if skipped else ''))


def replay(ctx):
    d = json.load(open(ctx.replay))
    c = d['case']
    rec = Rec(ctx)
    st = new_stats()
    prepare_process()
    os.chdir(ctx.work)
    if c['kind'] == 'split':
        split_row_inprocess(c['row'], rec, st, reps=(c['rep'],))
    elif c['kind'] == 'argv':
        split_row_child(c['row'], c['transport'], ArgvBench(ctx.work), rec, st, encoding=c.get('encoding'))
    elif c['kind'] == 'which':
        which_row(c['row'], os.path.join(ctx.work, 'tree'), rec, st, transports=tuple(c.get('transports', ())))
    elif c['kind'] == 'config':
        config_row(c['row'], ConfigBench(ctx.work), rec, st, ctx)
    else:
        raise tlc.TLCError('unknown replay kind %r' % c['kind'])
    rec.flush()
    print('  replayed %s case: %d implementation test(s), %d failure(s)' % (c['kind'], st['evaluations'], len(ctx.failures)))
    for f in ctx.failures:
        print('  %s: %s' % (f.clause, json.dumps(f.detail, default=str)[:600]))
    status, _, _ = common.conclude(ctx)
    return status


def prepare_process():
    # ignore_sighup=False means "the default disposition": make sure that is what this process has to hand down
    signal.signal(signal.SIGHUP, signal.SIG_DFL)


def run(ctx):
    if ctx.replay:
        return replay(ctx)
    print('[C13] launch fidelity - tier %s seed %d' % (ctx.tier, ctx.seed), flush=True)
    prepare_process()
    os.chdir(ctx.work)
    t0 = time.time()
    runs, split_outs, ncases, which_table, config_table = model_check(ctx)
    t_tlc = time.time() - t0
    rec = Rec(ctx)
    rng = random.Random(ctx.seed * 1009 + 13)

    # (a) every split case on split_command_line (one worker process per table, so that this process stays
    # small: it forks thousands of children below); a seeded sample through real children
    t0 = time.time()
    st_split = new_stats()
    nrows = nprot = 0
    want_sample = 300 if ctx.quick() else 3000
    per_file = -(-want_sample // len(split_outs))
    sample = []
    first_rows = []
    jobs = [(path, ctx.seed * 1009 + 13 + k, per_file) for k, path in enumerate(split_outs)]
    with ProcessPoolExecutor(max_workers=min(4, len(jobs)), mp_context=multiprocessing.get_context('fork')) as ex:
        for res in ex.map(split_table_worker, jobs):
            if ncases.get(res['path']) is not None and ncases[res['path']] != res['nrows']:
                raise tlc.TLCError('Launch/split: %d cases went through the machine but the table has %d rows' % (
                    ncases[res['path']], res['nrows']))
            nrows += res['nrows']
            nprot += res['nprot']
            st_split['evaluations'] += res['evaluations']
            rec.absorb(res['totals'], res['kept'])
            sample += res['sample']
            first_rows = first_rows or res['first']
    t_split = time.time() - t0
    fails_split = rec.total()
    ctx.note('split: %d cases (%d distinct command lines with a protected character) x 2 sets of representatives = %d calls of split_command_line, '
             '%d disagree (%.0fs)' % (nrows, nprot, st_split['evaluations'], fails_split, t_split))
    t0 = time.time()
    abench = ArgvBench(ctx.work)
    st_argv = new_stats()
    npty = npopen = nlist = 0
    for n, r in enumerate(sample):
        split_row_child(r, 'pty', abench, rec, st_argv, encoding=(None, 'utf-8')[n % 2])
        npty += 1
        if len(r['a']) > 1:
            split_row_child(r, 'pty-list', abench, rec, st_argv, encoding=(None, 'utf-8')[n % 2])
            nlist += 1
        if r['px']:
            split_row_child(r, 'popen', abench, rec, st_argv, encoding=(None, 'utf-8')[n % 2])
            npopen += 1
    t_argv = time.time() - t0
    fails_argv = rec.total() - fails_split
    ctx.note('argv in child: %d sampled cases through pexpect.spawn(command line), %d of them (same meaning for shlex) through '
             'PopenSpawn, %d in list form spawn(program, args); %d real launches, %d cases disagree (%.0fs)' % (
                 npty, npopen, nlist, st_argv['evaluations'], fails_argv, t_argv))

    # (b) every PATH layout on which(); through real children: all (thorough) or a seeded sample (quick)
    t0 = time.time()
    st_which = new_stats()
    nchild = 0
    child_idx = set(range(len(which_table))) if not ctx.quick() else set(rng.sample(range(len(which_table)), 400))
    if ctx.quick():      # the few rows about empty / missing PATH and explicit paths always go through a child
        child_idx |= set(i for i, r in enumerate(which_table) if r['world']['mode'] != 'name' or r['world']['src']['state'] != 'set')
    root = os.path.join(ctx.work, 'tree')
    for i, r in enumerate(which_table):
        tr = ('pty', 'popen') if i in child_idx else ()
        nchild += 1 if tr else 0
        which_row(r, root, rec, st_which, transports=tr)
    shutil.rmtree(root, ignore_errors=True)
    t_which = time.time() - t0
    fails_which = rec.total() - fails_split - fails_argv
    ctx.note('which: %d layouts materialised and resolved by which(); %d of them launched (pty, and PopenSpawn where PATH is set): '
             '%d implementation tests, %d disagree (%.0fs)' % (len(which_table), nchild, st_which['evaluations'], fails_which, t_which))

    # (c) every configuration row through a real child
    t0 = time.time()
    st_cfg = new_stats()
    cbench = ConfigBench(ctx.work)
    for r in config_table:
        config_row(r, cbench, rec, st_cfg, ctx)
    t_cfg = time.time() - t0
    fails_cfg = rec.total() - fails_split - fails_argv - fails_which
    ctx.note('config: %d rows, %d real launches, %d clause failures; preexec_fn effect missing (not part of the property): %d (%.0fs)' % (
        len(config_table), st_cfg['evaluations'], fails_cfg, ctx.drift, t_cfg))

    # (d) binding self-test
    self_test(ctx, sample, which_table, config_table, abench, cbench)

    rec.flush()
    if rec.total() > len(ctx.failures):
        ctx.note('%d failing implementation tests in total; %d kept for the report (at most %d per clause and signature)' % (
            rec.total(), len(ctx.failures), rec.cap))
        for (clause, sig), n in sorted(rec.totals.items()):
            ctx.note('  %s %s: %d' % (clause, sig, n))
    status, nviol, nknown = common.conclude(ctx)
    evaluations = sum(s['evaluations'] for s in (st_split, st_argv, st_which, st_cfg))
    evidence.write('C13', ctx.tier, ctx.seed, 'model_checking', {
        'states': sum(r['distinct'] for _, r in runs), 'transitions': sum(r['generated'] for _, r in runs),
        'traces_validated_against_impl': nrows + len(which_table) + len(config_table),
        'samples': first_rows + [which_table[len(which_table) // 2], config_table[len(config_table) // 2]],
        'evaluations': evaluations, 'distinct_nontrivial': nprot,
        'rule': 'one implementation test per TLC-emitted row: every split case on split_command_line under two sets of '
                'representative characters, a seeded sample through real pty / popen children; every PATH layout on which() '
                'and through real children; every configuration row through a real child.  non-trivial = distinct command '
                'lines of split cases in which some argument contains a character that needs protection (whitespace, '
                'quote, backslash)',
        'exhaustive': True,
        'split_cases': nrows, 'split_calls': st_split['evaluations'], 'argv_children': st_argv['evaluations'],
        'which_layouts': len(which_table), 'which_tests': st_which['evaluations'], 'config_rows': len(config_table),
        'config_children': st_cfg['evaluations'], 'failing_tests_total': rec.total(),
        'wall_s_parts': {'tlc': round(t_tlc, 1), 'split': round(t_split, 1), 'argv': round(t_argv, 1), 'which': round(t_which, 1),
                         'config': round(t_cfg, 1)},
        'checker_cmd': ' ; '.join(r['cmd'] for _, r in runs), 'known_findings_hit': nknown, 'spec_drift': ctx.drift,
    }, assumptions=[
        'characters are represented by their class (ordinary ASCII, space, tab, the two quotes, backslash, non-ASCII letter); two '
        'concrete representatives per class are replayed',
        'inside double quotes a backslash is literal (what split_command_line does; its documentation is silent), so double-quoted '
        'cases containing a backslash are not sent through PopenSpawn, whose shlex reads them differently',
        'which(): os.defpath is rebound to a temporary directory for the duration of a test; the process runs as root on Linux, '
        'where X_OK needs an execute bit',
        'PopenSpawn resolves the program with subprocess (no which()); it is compared only where PATH is set and the name is bare',
        'ignore_sighup=False is checked with the harness itself holding the default SIGHUP disposition',
    ], wall_s=ctx.wall(), violations=(rec.total() - nknown) if nviol else 0)
    return status
